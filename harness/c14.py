"""C14 — electrostatic potential = nuclear minus electronic Coulomb potential.

pregen(): harness/trace_esp.py executes the CURRENT gbasis/evals/electrostatic_potential.py on formal symbols (density
matrix, charges, point_charge_integral stub) and regenerates coq/Gen/EspTrace.v; Proofs/EspTraceP.v proves by
computation that every traced combination is the model's formula (Props/C14_trace.v).

Correspondence: gbasis.evals.electrostatic_potential.electrostatic_potential of the working tree vs the exact Coq
model Model/Esp.v (runner command 250, which evaluates [esp_with] on the shared untransformed point-charge array of
the C03 model; Boys/exp/sqrt values by mpmath).  Everything is evaluated by the extracted runner; a few cheap
commands (251-253 and one tiny 250) are re-evaluated inside Coq by vm_compute on every run (xcheck_cmds).

What is compared, per case:
 * acceptance: the model says `refused` exactly for a negative threshold, a non-square / asymmetric density matrix,
   a nuclear_coords / nuclear_charges count mismatch, a density matrix whose size is not the number of contractions
   (no transform) or the number of ROWS of the transform (with one; rectangular transforms are fine), a transform
   without one column per contraction; any exception of the implementation counts as `rejected`;
 * values, per point: |impl - model| <= 1e-8 * ( sum_ab |P|_ab sqrt(V_aa V_bb) + sum_kept |Z_A| / d_A ), everything in
   the scale from the model (with a transform |P| is |T|^T |P| |T|, the bound on the back-transformed matrix);
 * the mask: for every (point, nucleus) pair the harness knows the exact squared distance; pairs whose distance is an
   exactly representable rational computed exactly by the float pipeline (axis-parallel and Pythagorean geometries)
   have the SAME decision in exact and in double arithmetic for every threshold, including thr == d (kept) and
   thr = d(1 -+ 2^-40); other pairs are `clear` when |thr^2 - d^2| > 2e-12 d^2 and `either` (both answers
   accepted) inside that band;
 * a point ON a nucleus with threshold 0 divides by zero in the code (inf / nan under errstate) and has no value in
   the property: such points are not compared, only counted (the call must not raise);
 * with a transform, additionally impl(T, P) against impl(None, T^T P T) (T^T P T computed exactly);
 * HISTORY: a case with "P2" is a sequence of three calls in one process (P, P2, P again; everything else value-identical
   and rebuilt), each compared with the model for its own density matrix (detail kind "history").
"""
import itertools
import math
import os
import random
import subprocess
import sys
from fractions import Fraction

import numpy as np

import lib
import twoindex
from lib import XShell, call_impl, gen_basis, run_cases, short_float, shrink_shell_json, sx

RULE = ("bases of 1-4 shells, l 0..3, 1-4 primitives, 1-3 segmented contractions, Cartesian / spherical / mixed; symmetric "
        "density matrices with dyadic entries (sparse, dense, C C^T); 1-30 points; 1-5 nuclei with charges of either "
        "sign and magnitude 0.1..100; geometries: random grid, all on one axis-parallel line (every distance exact), "
        "Pythagorean offsets (exact rational distances off-axis), points on nuclei, 53-bit point coordinates; thresholds 0, below the smallest "
        "distance, beyond the largest, d(1-2^-40) / d / d(1+2^-40) at exactly representable distances, sqrt(d2)(1-+2^-20) "
        "and the double nearest to sqrt(d2) (accepted either way) at the others; no / square / rectangular transforms "
        "(1, 2, K-1, K+1 rows); a separate stream of invalid calls (negative threshold, asymmetric or non-square or "
        "wrongly sized density matrix, count mismatch, transform with a wrong number of columns) compared as rejected; "
        "a case is non-trivial when some model value is non-zero and (l>0 or K>1 or M>1 somewhere); distinct by input hash")
RULE += " HISTORY stream (the returned value depends only on the arguments): every valid case whose exact model is cheap (about half of them; every basis size, geometry kind and transform kind occurs) is a SEQUENCE of three calls in one process with value-identical, freshly built basis / points / nuclei / transform / threshold: density matrix P, a different symmetric matrix P2 (own PRNG), then P again; every call is compared with the exact model for ITS density matrix with the same tolerance (detail kind \"history\", the replay case contains P2; shrinking keeps P2 in step with P and evaluates every candidate sequence in a fresh process)"
ASSUMPTIONS = [
    "rounding of the NumPy pipeline is not modelled: the 1e-8 relative bound is decided on the generated inputs against "
    "the exact value (Boys function, exp, sqrt by mpmath)",
    "np.allclose(P, P.T) is modelled by exact symmetry: generated matrices are exactly symmetric or differ by >= 1/8",
    "isinstance / ndim argument tests concern Python types and are not modelled; inputs are float64 arrays of the documented shapes",
    "a point exactly on a nucleus with threshold_dist = 0 has no defined value (the code returns inf/nan); it is not compared",
]
TOL = 1e-8
EITHER_BAND = Fraction(2, 10 ** 12)        # relative band in SQUARED distances around thr^2 = d^2
EXTRA = {"tolerance": "1e-8 * (sum_ab |P|_ab sqrt(V_aa V_bb) + sum_kept |Z|/d), all from the exact model",
         "either_band": "pairs with |thr^2 - d^2| <= 2e-12 d^2 whose distance is not exactly representable accept both decisions"}

QUADS = [(0, 0, 1, 1), (3, 4, 0, 5), (1, 2, 2, 3), (2, 3, 6, 7), (4, 4, 7, 9), (1, 4, 8, 9), (6, 8, 0, 10), (5, 12, 0, 13),
         (2, 6, 9, 11), (2, 10, 11, 15), (8, 9, 12, 17), (1, 12, 12, 17), (8, 15, 0, 17)]


# ----------------------------------------------------------------------------------------------
# exact helpers
# ----------------------------------------------------------------------------------------------
def F(x):
    return Fraction(x)


def isrepr(q):
    """q is exactly a double"""
    try:
        return Fraction(float(q)) == q
    except OverflowError:
        return False


def rat_sqrt(q):
    """exact rational square root of q >= 0, or None"""
    q = Fraction(q)
    if q < 0:
        return None
    a, b = math.isqrt(q.numerator), math.isqrt(q.denominator)
    if a * a == q.numerator and b * b == q.denominator:
        return Fraction(a, b)
    return None


def d2_of(p, n):
    return sum((F(a) - F(b)) ** 2 for a, b in zip(p, n))


def float_exact_distance(p, n):
    """the exact distance if it is rational AND every intermediate of the double pipeline
    sum((p - n)**2)**0.5 is exact in any summation order (so the double distance IS the distance), else None"""
    diffs = [F(a) - F(b) for a, b in zip(p, n)]
    sq = [x * x for x in diffs]
    parts = diffs + sq + [sq[0] + sq[1], sq[1] + sq[2], sq[0] + sq[2], sum(sq)]
    if not all(isrepr(x) for x in parts):
        return None
    d = rat_sqrt(sum(sq))
    if d is None or not isrepr(d):
        return None
    return d


def pair_class(p, n, thr):
    """'undefined' | 'exact' | 'clear' | 'either' for one (point, nucleus) pair"""
    d2 = d2_of(p, n)
    if d2 == 0:
        return "undefined" if thr == 0 else "exact"
    if float_exact_distance(p, n) is not None:
        return "exact"
    if abs(thr * thr - d2) <= EITHER_BAND * d2:
        return "either"
    return "clear"


def mat(rows):
    return [[F(x) for x in r] for r in rows]


def npmat(rows):
    if len(rows) == 0:
        return np.zeros((0, 0))
    return np.array([[float(x) for x in r] for r in rows], dtype=float)


def backtransform(T, P):
    """T^T P T, exact"""
    m, n = len(T), len(T[0])
    PT = [[sum(P[i][j] * T[j][b] for j in range(m)) for b in range(n)] for i in range(m)]
    return [[sum(T[i][a] * PT[i][b] for i in range(m)) for b in range(n)] for a in range(n)]


# ----------------------------------------------------------------------------------------------
# evaluation
# ----------------------------------------------------------------------------------------------
def _inputs(case):
    basis = [XShell.from_json(s) for s in case["basis"]]
    P = mat(case["P"])
    pts = mat(case["points"])
    nco = mat(case["ncoords"])
    nch = [F(x) for x in case["ncharges"]]
    T = None if case.get("T") is None else mat(case["T"])
    thr = F(case["thr"])
    return basis, P, pts, nco, nch, T, thr


def _impl(basis, P, pts, nco, nch, T, thr):
    from gbasis.evals.electrostatic_potential import electrostatic_potential
    Pn = npmat(P) if all(len(r) == len(P[0]) for r in P) else None
    if Pn is None:
        raise ValueError("ragged density matrix cannot be built")  # never generated
    return electrostatic_potential(
        [s.to_gbasis() for s in basis], Pn,
        np.array([[float(x) for x in p] for p in pts], dtype=float).reshape(len(pts), 3),
        np.array([[float(x) for x in p] for p in nco], dtype=float).reshape(len(nco), 3),
        np.array([float(x) for x in nch], dtype=float),
        transform=None if T is None else npmat(T), threshold_dist=float(thr))


def eval_case(model, case):
    basis, P, pts, nco, nch, T, thr = _inputs(case)
    types = "".join("s" if s.sph else "c" for s in basis)
    nf = sum(s.nfun() for s in basis)
    tkind = "none" if T is None else ("square" if len(T) == nf else "rect%+d" % (len(T) - nf))
    tag = "%s n=%d %s T=%s %s%s" % (case["kind"], len(basis), types, tkind, case.get("thr_kind", "?"),
                                    " hist" if case.get("P2") is not None else "")
    cmd = "(250 %s %s %s %s %s %s %s)" % (twoindex.basis_sx(basis), sx(P), sx(pts), sx(nco), sx(nch),
                                           twoindex.t_sx(T), sx(thr))
    res = model.call(cmd)
    st, impl = call_impl(_impl, basis, P, pts, nco, nch, T, thr)
    stats = {}
    if res[0] == 0:
        stats["refused-by-model"] = 1
        if st == "ok":
            return {"detail": {"kind": "accepted-invalid", "invalid": case.get("invalid"),
                               "impl": repr(np.asarray(impl).tolist())[:300]}, "tag": tag, "nontrivial": True,
                    "stats": stats}
        return {"detail": None, "tag": tag, "nontrivial": True, "stats": stats}
    if st != "ok":
        return {"detail": {"kind": "rejected", "impl": impl}, "tag": tag, "nontrivial": True, "stats": stats}
    _, vals, undef, pairs, diagv, sqb = res
    if sqb != 1:    # hypothesis of C14_esp_transform_is_backtransformed_partial, evaluated by the model on this case
        raise RuntimeError("the model's integral array is not K x K x N for this basis")
    stats["shape-hypothesis-checked"] = 1
    impl = np.asarray(impl)
    if impl.shape != (len(pts),):
        return {"detail": {"kind": "shape", "impl_shape": list(impl.shape), "model_shape": [len(pts)]}, "tag": tag}
    # harness self-check: the model's squared distances are the ones computed here
    for ip, p in enumerate(pts):
        for ia, n in enumerate(nco):
            if pairs[ip][ia][1] != d2_of(p, n):
                raise RuntimeError("squared distance of the model differs from the harness's")
    # tolerance scale of the electronic term
    D = np.abs(np.array([[float(x) for x in row] for row in diagv], dtype=float)).reshape(nf, len(pts))
    S = np.sqrt(D)

    def absP(Pm):
        Am = np.abs(npmat(Pm))
        if T is not None:
            Ta = np.abs(npmat(T))
            Am = Ta.T @ Am @ Ta
        return Am

    A = absP(P)

    def compare_values(impl, vals, A, stats):
        """the values of one call against the model values `vals` (density-matrix scale A); stats: dict to count the
        pair classes in, or None"""
        worst = None
        for ip, p in enumerate(pts):
            x = float(impl[ip])
            classes = [pair_class(p, n, thr) for n in nco]
            if stats is not None:
                for c in classes:
                    stats["pair-" + c] = stats.get("pair-" + c, 0) + 1
                for ia, n in enumerate(nco):
                    if classes[ia] == "exact" and d2_of(p, n) > 0:
                        d = float_exact_distance(p, n)
                        k = "exact-thr<d" if thr < d else ("exact-thr=d" if thr == d else "exact-thr>d")
                        stats[k] = stats.get(k, 0) + 1
            if "undefined" in classes:
                if undef[ip] != 1:
                    raise RuntimeError("model and harness disagree about an undefined point")
                if stats is not None:
                    k = "undefined-point:" + ("nonfinite" if not np.isfinite(x) else "finite")
                    stats[k] = stats.get(k, 0) + 1
                continue
            if not np.isfinite(x):
                return {"kind": "nonfinite", "index": [ip], "impl": repr(x), "model": "%.17g" % float(vals[ip])}
            se = float(S[:, ip] @ A @ S[:, ip])
            amb = [ia for ia, c in enumerate(classes) if c == "either"]
            if len(amb) > 4:
                if stats is not None:
                    stats["point-skipped-too-many-either"] = stats.get("point-skipped-too-many-either", 0) + 1
                continue
            best = None
            for flips in itertools.product((False, True), repeat=len(amb)):
                v = vals[ip]
                kept = [pairs[ip][ia][0] == 0 for ia in range(len(nco))]
                for ia, fl in zip(amb, flips):
                    if fl:
                        term = nch[ia] / pairs[ip][ia][2]
                        v = v - term if kept[ia] else v + term
                        kept[ia] = not kept[ia]
                sn = sum(abs(float(nch[ia])) / float(pairs[ip][ia][2]) for ia in range(len(nco)) if kept[ia])
                tol = TOL * (se + sn)
                diff = abs(Fraction(x) - v)
                ratio = (float(diff) / tol) if tol > 0 else (0.0 if diff == 0 else float("inf"))
                if best is None or ratio < best[0]:
                    best = (ratio, v, tol, float(diff))
            if worst is None or best[0] > worst[0]:
                worst = (best[0], ip, x, best[1], best[2], best[3],
                         [(int(pairs[ip][ia][0]), classes[ia]) for ia in range(len(nco))])
        if worst is not None and worst[0] > 1.0:
            return {"kind": "value", "index": [worst[1]], "impl": repr(worst[2]), "model": "%.17g" % float(worst[3]),
                    "abs_diff": worst[5], "tol": worst[4], "point": [str(c) for c in pts[worst[1]]],
                    "model_masked_and_class_per_nucleus": worst[6]}
        return None

    detail = compare_values(impl, vals, A, stats)
    if detail is not None and detail["kind"] == "nonfinite":
        return {"detail": detail, "tag": tag, "stats": stats}
    if detail is None and case.get("P2") is not None:
        # HISTORY: the same basis / points / nuclei / transform / threshold (value-identical, freshly built arrays)
        # with ANOTHER symmetric density matrix P2, then the first density matrix again - in this process, in a row.
        # Every call is compared with the exact model for ITS density matrix.
        P2 = mat(case["P2"])
        res2 = model.call("(250 %s %s %s %s %s %s %s)" % (twoindex.basis_sx(basis), sx(P2), sx(pts), sx(nco), sx(nch),
                                                        twoindex.t_sx(T), sx(thr)))
        if res2[0] == 0:
            raise RuntimeError("the model refuses the second density matrix of a history case")
        stats["history-sequences"] = 1
        for call, (Pm, vm) in enumerate(((P2, res2[1]), (P, vals)), start=2):
            st_h, impl_h = call_impl(_impl, basis, Pm, pts, nco, nch, T, thr)
            stats["history-calls"] = stats.get("history-calls", 0) + 1
            if st_h != "ok":
                d = {"kind": "rejected", "impl": impl_h}
            elif np.asarray(impl_h).shape != (len(pts),):
                d = {"kind": "shape", "impl_shape": list(np.asarray(impl_h).shape), "model_shape": [len(pts)]}
            else:
                d = compare_values(np.asarray(impl_h), vm, absP(Pm), None)
                if d is None and call == 3:
                    same = np.array_equal(np.asarray(impl_h), impl, equal_nan=True)
                    stats["history-repeat-bit-identical"] = 1 if same else 0
            if d is not None:
                detail = {"kind": "history", "call": call, "calls": 3,
                          "what": "the second density matrix P2" if call == 2 else "the first density matrix again",
                          "failure": d,
                          "note": "sequence of calls in one process with the same basis, points, nuclei, transform and "
                                  "threshold: density matrix P, then P2, then P again; every call is compared with the "
                                  "exact model for its own density matrix"}
                break
    if detail is None and T is not None and len(T) > 0:
        # the property's second sentence, on the implementation itself
        Pb = backtransform(T, P)
        st2, impl2 = call_impl(_impl, basis, Pb, pts, nco, nch, None, thr)
        if st2 != "ok":
            detail = {"kind": "backtransformed-call-rejected", "impl": impl2}
        else:
            for ip in range(len(pts)):
                a, b = float(impl[ip]), float(np.asarray(impl2)[ip])
                if not (np.isfinite(a) and np.isfinite(b)):
                    continue
                se = float(S[:, ip] @ A @ S[:, ip])
                sn = sum(abs(float(nch[ia])) / float(pairs[ip][ia][2]) for ia in range(len(nco))
                         if pairs[ip][ia][2] != 0)
                if abs(a - b) > 2 * TOL * (se + sn):
                    detail = {"kind": "transform-vs-backtransformed-P", "index": [ip], "impl": repr(a),
                              "impl_backtransformed": repr(b), "tol": 2 * TOL * (se + sn)}
                    break
        stats["backtransformed-compared"] = 1
    nontriv = any(v != 0 for v in vals) and any(s.l > 0 or len(s.exps) > 1 or len(s.coeffs[0]) > 1 for s in basis)
    return {"detail": detail, "nontrivial": bool(nontriv), "tag": tag, "stats": stats}


# ----------------------------------------------------------------------------------------------
# generation
# ----------------------------------------------------------------------------------------------
def grid(rng, span=2, den=16):
    return [Fraction(rng.randint(-den * span, den * span), den) for _ in range(3)]


def gen_charge(rng):
    r = rng.random()
    if r < 0.4:
        z = Fraction(rng.randint(1, 100))
    elif r < 0.55:
        z = Fraction(rng.randint(1, 9), 8) if rng.random() < 0.5 else Fraction(1, 8)   # 0.125 .. 1.125
    else:
        z = short_float(rng, 0.1, 100.0, 8)
    return z if rng.random() < 0.6 else -z


def gen_P(rng, m):
    mode = rng.random()
    if mode < 0.3:      # C C^T (what an SCF density matrix is)
        k = rng.randint(1, max(1, min(m, 3)))
        C = [[Fraction(rng.randint(-8, 8), 4) for _ in range(k)] for _ in range(m)]
        return [[sum(C[i][t] * C[j][t] for t in range(k)) for j in range(m)] for i in range(m)]
    P = [[Fraction(0)] * m for _ in range(m)]
    dens = 1.0 if mode < 0.7 else 0.3
    for i in range(m):
        for j in range(i, m):
            if rng.random() < dens or i == j:
                v = Fraction(rng.randint(-16, 16), 8)
                P[i][j] = v
                P[j][i] = v
    if m > 1 and rng.random() < 0.3:
        # transition / difference densities: an exactly zero diagonal entry whose row is not empty (the matrix is not PSD)
        i = rng.randrange(m)
        P[i][i] = Fraction(0)
        j = rng.choice([t for t in range(m) if t != i])
        if P[i][j] == 0:
            P[i][j] = P[j][i] = Fraction(rng.choice([-5, -3, 3, 7]), 8)
    return P


def distinct(lst):
    out = []
    for x in lst:
        if x not in out:
            out.append(x)
    return out


def gen_geometry(rng, basis, geo, npts, nnuc):
    """returns (points, nuclei coords); may move the shells onto the nuclei"""
    if geo == "axis":
        ax = rng.randrange(3)
        base = grid(rng)
        ts = distinct([Fraction(rng.randint(-48, 48), 16) for _ in range(nnuc * 3)])[:nnuc]
        nuc = []
        for t in ts:
            c = list(base)
            c[ax] = base[ax] + t
            nuc.append(c)
        pts = []
        for _ in range(npts):
            c = list(base)
            r = rng.random()
            if r < 0.15:
                c = list(rng.choice(nuc))                       # on a nucleus
            elif r < 0.8:
                c[ax] = base[ax] + Fraction(rng.randint(-64, 64), 16)
            else:
                c[ax] = base[ax] + Fraction(rng.randint(-400, 400), 4)
            pts.append(c)
        for s in basis:
            if rng.random() < 0.8:
                s.coord = list(rng.choice(nuc))
        return pts, nuc
    if geo == "fnuc":
        # every nucleus at full-mantissa coordinates away from the origin; points exactly ON a nucleus (same doubles)
        # and a hair's breadth (1e-3 .. 1e-8 bohr) off it: the point-nucleus distance must be formed from coordinate
        # DIFFERENCES to be accurate here (|R|^2 - 2 R.R_A + |R_A|^2 cancels catastrophically)
        nuc = [[Fraction(rng.uniform(-6, 6)) for _ in range(3)] for _ in range(nnuc)]
        pts = []
        for _ in range(npts):
            r = rng.random()
            n = rng.choice(nuc)
            if r < 0.4:
                pts.append(list(n))
            elif r < 0.8:
                w = 10.0 ** -rng.randint(3, 8)
                pts.append([Fraction(float(x) + rng.uniform(-w, w)) for x in n])
            else:
                pts.append([Fraction(float(x) + rng.uniform(-2, 2)) for x in n])
        return pts, nuc
    centres = distinct([list(s.coord) for s in basis])
    nuc = list(centres)
    rng.shuffle(nuc)
    nuc = nuc[:nnuc]
    while len(nuc) < nnuc:
        c = grid(rng, span=3)
        if c not in nuc:
            nuc.append(c)
    if geo == "float" and rng.random() < 0.4:
        nuc[-1] = [Fraction(rng.uniform(-3, 3)) for _ in range(3)]       # a nucleus off the grid (no shell on it)
    pts = []
    for _ in range(npts):
        r = rng.random()
        n = rng.choice(nuc)
        if geo == "float" and r < 0.85:
            w = rng.choice([0.01, 0.5, 3.0, 40.0])
            pts.append([Fraction(float(x) + rng.uniform(-w, w)) for x in n])      # 53-bit coordinates
        elif geo == "pyth" and r < 0.75:
            q = list(rng.choice(QUADS)[:3])
            rng.shuffle(q)
            s = Fraction(1, rng.choice([2, 4, 8, 16])) * rng.randint(1, 3)
            pts.append([n[i] + s * q[i] * rng.choice([-1, 1]) for i in range(3)])
        elif r < 0.1 or (geo == "onnuc" and r < 0.5):
            pts.append(list(n))                                  # on a nucleus
        elif r < 0.75:
            pts.append([Fraction(float(x + Fraction(rng.randint(-40, 40), 16))) for x in n])
        elif r < 0.9:
            pts.append(grid(rng, span=4))
        else:
            pts.append([Fraction(float(x + Fraction(rng.randint(-400, 400), 4))) for x in n])
    return pts, nuc


def gen_thr(rng, pts, nuc, kind):
    """a dyadic threshold of the requested kind (falls back to a simpler kind when impossible)"""
    pairs = [(p, n) for p in pts for n in nuc]
    d2s = [d2_of(p, n) for p, n in pairs]
    pos = [x for x in d2s if x > 0]
    dmax = math.sqrt(float(max(d2s))) if d2s else 1.0
    if kind == "zero":
        return Fraction(0), kind
    if kind == "beyond":
        return Fraction(2 * math.ceil(dmax) + 1), kind
    if kind == "below-min" and pos:
        return Fraction(math.sqrt(float(min(pos)))) / 2, kind
    if kind.startswith("exact"):
        ex = [float_exact_distance(p, n) for p, n in pairs]
        ex = [d for d in ex if d is not None and d > 0]
        if ex:
            d = rng.choice(ex)
            thr = {"exact-": d * (1 - Fraction(1, 2 ** 40)), "exact=": d, "exact+": d * (1 + Fraction(1, 2 ** 40))}[kind]
            if isrepr(thr):
                return thr, kind
        kind = "clear-" if kind == "exact-" else "clear+"
    if kind in ("clear-", "clear+", "either") and pos:
        d2 = rng.choice(pos)
        r = math.sqrt(float(d2))
        if kind == "either":
            if rat_sqrt(d2) is None:
                return Fraction(r), kind
            kind = "clear+"
        f = r * (1 - 2.0 ** -20) if kind == "clear-" else r * (1 + 2.0 ** -20)
        return Fraction(f), kind
    if pos:
        lo, hi = math.sqrt(float(min(pos))), dmax
        return Fraction(round(rng.uniform(lo, hi) * 64), 64), "mid"
    return Fraction(1, 2), "mid"


THR_KINDS = ["zero", "beyond", "below-min", "exact-", "exact=", "exact+", "clear-", "clear+", "either", "mid", "exact=",
             "either"]


def gen_valid(rng, idx, tier, hrng=None):
    n = 1 + idx % 4
    big = (idx % 7 == 0)
    lmax = 3 if n <= 2 else (3 if big else 2)
    basis = gen_basis(rng, n, lmax=lmax, kmax=4 if n <= 2 else 3, mmax=3 if n <= 2 else 2)
    geo = ["random", "axis", "pyth", "onnuc", "float", "fnuc"][(idx // 4) % 6]
    # keep the exact model affordable: its time is ~ 1e-4 s x points x sum over shell pairs of
    # Ka Kb (la+lb+1)^3 (1 + Ma Mb / 2)
    cost = sum(len(a.exps) * len(b.exps) * (a.l + b.l + 1) ** 3 * (1 + len(a.coeffs[0]) * len(b.coeffs[0]) / 2)
               for i, a in enumerate(basis) for b in basis[i:])
    npmax = max(1, int((50000 if tier == "quick" else 120000) / cost))
    npts = rng.choice([1, 2, 3, 5, 8, 13, 21, 30])
    npts = min(npts, npmax)
    nnuc = rng.randint(1, 5)
    pts, nuc = gen_geometry(rng, basis, geo, npts, nnuc)
    nch = [gen_charge(rng) for _ in nuc]
    nf = sum(s.nfun() for s in basis)
    tmode = idx % 3
    T = None
    m = nf
    if tmode == 1:
        T = twoindex.gen_transform(rng, nf, nf)
    elif tmode == 2:
        m = rng.choice([1, 2, max(1, nf - 1), nf + 1])
        T = twoindex.gen_transform(rng, m, nf)
    P = gen_P(rng, m)
    kind = THR_KINDS[(idx // 3) % len(THR_KINDS)] if rng.random() < 0.85 else rng.choice(THR_KINDS)
    if geo == "fnuc":
        kind = rng.choice(["below-min", "below-min", "clear-", "clear+", "mid", "beyond"])   # thr > 0: points on nuclei are defined
    thr, kind = gen_thr(rng, pts, nuc, kind)
    case = {"kind": "esp", "geo": geo, "thr_kind": kind,
            "basis": [s.to_json() for s in basis], "P": [[str(x) for x in r] for r in P],
            "points": [[str(x) for x in p] for p in pts], "ncoords": [[str(x) for x in p] for p in nuc],
            "ncharges": [str(z) for z in nch], "T": None if T is None else [[str(x) for x in r] for r in T],
            "thr": str(thr)}
    if hrng is not None and cost * len(pts) <= (15000 if tier == "quick" else 30000):
        # HISTORY (every valid case whose exact model is cheap - estimate above - i.e. about half of them, ~10 % of
        # the model time; all of n = 1..4, every geometry kind, no / square / rectangular transform occur):
        # a second symmetric density matrix for the same basis / points / nuclei / transform / threshold
        P2 = gen_P(hrng, m)
        while P2 == P:
            P2 = gen_P(hrng, m)
        case["P2"] = [[str(x) for x in r] for r in P2]
    check_exact(case)
    return case


def check_exact(case):
    """every number handed to the implementation is exactly the rational handed to the model"""
    nums = [x for r in case["P"] + (case.get("P2") or []) for x in r] + [x for p in case["points"] for x in p] + \
           [x for p in case["ncoords"] for x in p] + list(case["ncharges"]) + [case["thr"]]
    if case.get("T") is not None:
        nums += [x for r in case["T"] for x in r]
    for x in nums:
        if not isrepr(Fraction(x)):
            raise RuntimeError("generated number %s is not a double" % x)


INVALID_KINDS = ["neg-thr", "neg-thr-tiny", "asym", "nonsquare", "size+1", "size-1", "nuc-count+", "nuc-count-",
                 "T-cols", "P-vs-T-rows"]


def gen_invalid(rng, idx, tier):
    base = gen_valid(rng, idx, tier)
    # keep invalid cases cheap: few points
    base["points"] = base["points"][:3]
    kind = INVALID_KINDS[idx % len(INVALID_KINDS)]
    c = dict(base)
    c.pop("P2", None)
    c["kind"] = "invalid"
    P = mat(c["P"])
    m = len(P)
    if kind == "neg-thr":
        c["thr"] = str(-Fraction(rng.randint(1, 64), 16))
    elif kind == "neg-thr-tiny":
        c["thr"] = str(-Fraction(1, 2 ** rng.randint(20, 60)))
    elif kind == "asym":
        if m < 2:
            kind = "neg-thr"
            c["thr"] = "-1"
        else:
            i, j = rng.sample(range(m), 2)
            P[i][j] += Fraction(rng.choice([1, -1, 3, 8]), 8)
            c["P"] = [[str(x) for x in r] for r in P]
    elif kind == "nonsquare":
        c["P"] = [[str(x) for x in r] + ["0"] for r in P]
    elif kind in ("size+1", "size-1"):
        m2 = m + 1 if (kind == "size+1" or m == 1) else m - 1
        c["P"] = [[str(x) for x in r] for r in gen_P(rng, m2)]
    elif kind == "nuc-count+":
        c["ncharges"] = list(c["ncharges"]) + ["1"]
    elif kind == "nuc-count-":
        c["ncharges"] = list(c["ncharges"])[:-1]
    elif kind == "T-cols":
        nf = sum(XShell.from_json(s).nfun() for s in c["basis"])
        rows = m
        ncols = nf + 1 if (rng.random() < 0.5 or nf == 1) else nf - 1
        c["T"] = [[str(x) for x in r] for r in twoindex.gen_transform(rng, rows, ncols)]
    elif kind == "P-vs-T-rows":
        nf = sum(XShell.from_json(s).nfun() for s in c["basis"])
        rows = m + rng.choice([1, 2])
        c["T"] = [[str(x) for x in r] for r in twoindex.gen_transform(rng, rows, nf)]
    c["invalid"] = kind
    c["thr_kind"] = "invalid:" + kind
    check_exact(c)
    return c


def special_cases():
    """hand-written regressions: the two historical defects in their smallest form"""
    s = XShell(0, [0, 0, 0], [1], [[1]], False)
    p = XShell(1, [0, 0, 0], [Fraction(1, 2)], [[1]], False)
    out = []
    # charge 4 at distance 9/8 (> threshold 1/2): must be kept; charge -2 at distance 1/4 (< 1/2): must be dropped
    out.append({"kind": "esp", "geo": "special", "thr_kind": "special-Z-over-d", "basis": [s.to_json()], "P": [["1"]],
                "points": [["9/8", "0", "0"]], "ncoords": [["0", "0", "0"], ["11/8", "0", "0"]],
                "ncharges": ["4", "-2"], "T": None, "thr": "1/2"})
    # rectangular transforms: 1 x 4 and 5 x 4
    out.append({"kind": "esp", "geo": "special", "thr_kind": "special-rect", "basis": [s.to_json(), p.to_json()],
                "P": [["2"]], "points": [["1", "1/2", "0"]], "ncoords": [["0", "0", "0"]], "ncharges": ["3"],
                "T": [["1", "1/2", "0", "-1/4"]], "thr": "0"})
    T5 = [[str(Fraction((i * 3 + j * 5) % 7 - 3, 4)) for j in range(4)] for i in range(5)]
    P5 = [[str(Fraction(((i + 1) * (j + 1)) % 5 - 2, 2)) for j in range(5)] for i in range(5)]
    out.append({"kind": "esp", "geo": "special", "thr_kind": "special-rect", "basis": [s.to_json(), p.to_json()],
                "P": P5, "points": [["1", "1/2", "0"], ["0", "0", "3"]], "ncoords": [["0", "0", "0"]],
                "ncharges": ["3"], "T": T5, "thr": "0"})
    # thr == d exactly (3-4-5): kept; the next double above d: dropped
    for thr, k in (("5", "special-thr=d"), (str(Fraction(5) * (1 + Fraction(1, 2 ** 40))), "special-thr>d")):
        out.append({"kind": "esp", "geo": "special", "thr_kind": k, "basis": [s.to_json()], "P": [["1"]],
                    "points": [["3", "4", "0"]], "ncoords": [["0", "0", "0"]], "ncharges": ["-7"], "T": None,
                    "thr": thr})
    # a point on a nucleus: threshold 0 (undefined there, the other point is compared) and threshold > 0 (dropped)
    for thr in ("0", "1/4"):
        out.append({"kind": "esp", "geo": "special", "thr_kind": "special-on-nucleus", "basis": [s.to_json()],
                    "P": [["1"]], "points": [["0", "0", "0"], ["0", "1", "0"]], "ncoords": [["0", "0", "0"]],
                    "ncharges": ["2"], "T": None, "thr": thr})
    return out


def gen_cases(tier, seed):
    rng = random.Random(1000003 * seed + 14)
    nv, ni = (140, 20) if tier == "quick" else (3000, 200)
    hrng = random.Random(1000003 * seed + 14 + 7919)   # history stream: own PRNG, the first calls are unchanged
    cases = special_cases()
    for i in range(nv):
        cases.append(gen_valid(rng, i, tier, hrng))
    for i in range(ni):
        cases.append(gen_invalid(rng, i, tier))
    return cases


# ----------------------------------------------------------------------------------------------
# shrinking
# ----------------------------------------------------------------------------------------------
def fit_P(P, m):
    return [[(P[i][j] if i < len(P) and j < len(P[i]) else "0") for j in range(m)] for i in range(m)]


def shrink_case(case):
    """candidates of _shrink_plain with the second density matrix of a history case (P2) kept in step with P; a
    history case additionally tries: no second matrix (only a failure of the FIRST call survives that: candidates are
    evaluated in fresh processes, lib.shrink_isolated), P2 = 0, P2 = 2 I"""
    P2 = case.get("P2")
    if P2 is not None:
        c = dict(case)
        c["P2"] = None
        yield c
    for c in _shrink_plain(case):
        if P2 is not None:
            if c.pop("_backtransformed", False):
                c["P2"] = [[str(x) for x in r] for r in backtransform(mat(case["T"]), mat(P2))]
                if not all(isrepr(Fraction(x)) for r in c["P2"] for x in r):
                    continue
            elif len(c["P"]) != len(P2):
                c["P2"] = fit_P(P2, len(c["P"]))
        else:
            c.pop("_backtransformed", None)
        yield c
    if P2 is not None:
        m = len(P2)
        for simple in ([["0"] * m for _ in range(m)], [["2" if i == j else "0" for j in range(m)] for i in range(m)]):
            if P2 != simple and simple != case["P"]:
                c = dict(case)
                c["P2"] = simple
                yield c


def _shrink_plain(case):
    if case["kind"] != "esp":
        if len(case["points"]) > 1:
            c = dict(case)
            c["points"] = case["points"][:1]
            yield c
        return
    # fewer points
    if len(case["points"]) > 1:
        for i in range(len(case["points"])):
            c = dict(case)
            c["points"] = [case["points"][i]]
            yield c
    # fewer nuclei
    if len(case["ncoords"]) > 1:
        for i in range(len(case["ncoords"])):
            c = dict(case)
            c["ncoords"] = case["ncoords"][:i] + case["ncoords"][i + 1:]
            c["ncharges"] = case["ncharges"][:i] + case["ncharges"][i + 1:]
            yield c
    # no transform (density matrix transformed back, exactly)
    if case.get("T") is not None:
        T, P = mat(case["T"]), mat(case["P"])
        if len(T) == len(P) and all(len(r) == len(P) for r in P):
            c = dict(case)
            c["T"] = None
            c["P"] = [[str(x) for x in r] for r in backtransform(T, P)]
            c["_backtransformed"] = True
            if all(isrepr(Fraction(x)) for r in c["P"] for x in r):
                yield c
        if len(T) > 1:
            c = dict(case)
            c["T"] = case["T"][:-1]
            c["P"] = fit_P(case["P"], len(T) - 1)
            yield c
    else:
        lst = case["basis"]
        if len(lst) > 1:
            for i in range(len(lst)):
                c = dict(case)
                c["basis"] = lst[:i] + lst[i + 1:]
                c["P"] = fit_P(case["P"], sum(XShell.from_json(s).nfun() for s in c["basis"]))
                yield c
        for i, sj in enumerate(lst):
            for t in shrink_shell_json(sj):
                c = dict(case)
                c["basis"] = lst[:i] + [t] + lst[i + 1:]
                c["P"] = fit_P(case["P"], sum(XShell.from_json(s).nfun() for s in c["basis"]))
                yield c
    if case["thr"] != "0":
        c = dict(case)
        c["thr"] = "0"
        yield c
    m = len(case["P"])
    ident = [["1" if i == j else "0" for j in range(m)] for i in range(m)]
    if case["P"] != ident:
        c = dict(case)
        c["P"] = ident
        yield c
    if any(z not in ("1", "-1") for z in case["ncharges"]):
        c = dict(case)
        c["ncharges"] = ["1" if Fraction(z) > 0 else "-1" for z in case["ncharges"]]
        yield c


# ----------------------------------------------------------------------------------------------
def pregen():
    """regenerate coq/Gen/EspTrace.v from the CURRENT source (harness/trace_esp.py, fail-closed); returns None or
    the reason the source could not be interpreted"""
    env = dict(os.environ)
    env["GBASIS_REPO"] = lib.REPO
    env["PYTHONPATH"] = lib.REPO
    script = os.path.join(lib.VERIF, "harness", "trace_esp.py")
    p = subprocess.run([sys.executable, "-W", "ignore", script], env=env, capture_output=True, text=True, timeout=600)
    out = (p.stdout or "").strip().splitlines()
    if p.returncode == 0:
        return None
    if p.returncode == 3 and out:
        return out[-1]
    # the tracer itself crashed: still fail closed
    gen = os.path.join(lib.VERIF, "coq", "Gen", "EspTrace.v")
    with open(gen, "w") as f:
        f.write("(* GENERATED: harness/trace_esp.py crashed *)\nFrom Coq Require Import List ZArith.\n"
                "Definition et_translator_failed : True := I.\n")
    return "tracer crashed: " + ((p.stderr or p.stdout or "")[-600:])


def run(rep, tier, seed, model, replay):
    if replay is not None:
        if "case" not in replay or "kind" not in replay["case"]:
            return                                  # proof-obligation replays carry no input case
        cases = [replay["case"]]
    else:
        cases = gen_cases(tier, seed)
    run_cases(rep, cases, eval_case, shrinkfn=shrink_case, isolate=True)


def xcheck_cmds(seed):
    """cheap commands re-evaluated inside Coq with vm_compute (validates extraction + driver glue):
    the nuclear part with thresholds on / around exact and inexact distances (251), the electronic contraction (252),
    the argument checks (253), and one complete tiny call (250)."""
    rng = random.Random(1400 + seed)
    pts = [[Fraction(3), Fraction(4), Fraction(0)], [Fraction(1), Fraction(1), Fraction(0)], [Fraction(0)] * 3]
    nco = [[Fraction(0)] * 3, [Fraction(1), Fraction(1), Fraction(rng.randint(1, 5), 4)]]
    nch = [Fraction(rng.randint(1, 40), 4), -Fraction(rng.randint(1, 40), 8)]
    cmds = ["(251 %s %s %s %s)" % (sx(pts), sx(nco), sx(nch), sx(t))
            for t in (Fraction(0), Fraction(5), Fraction(5) * (1 + Fraction(1, 2 ** 40)), Fraction(3, 2))]
    H = [[[Fraction(rng.randint(-9, 9), 4) for _ in range(2)] for _ in range(3)] for _ in range(3)]
    P = gen_P(rng, 3)
    cmds.append("(252 %s %s 2)" % (sx(H), sx(P)))
    T = twoindex.gen_transform(rng, 2, 3)
    P2 = gen_P(rng, 2)
    cmds.append("(253 3 %s %s %s %s %s)" % (sx(P2), sx(nco), sx(nch), twoindex.t_sx(T), "1/2"))
    cmds.append("(253 3 %s %s %s %s %s)" % (sx(P2), sx(nco), sx(nch), "()", "1/2"))
    cmds.append("(253 3 %s %s %s %s %s)" % (sx(P), sx(nco), sx(nch), "()", "-1/1024"))
    s = XShell(0, [0, 0, 0], [Fraction(3, 4)], [[1]], False)
    cmds.append("(250 (%s) ((3/2)) %s %s %s () %s)" % (s.sx(), sx(pts[:1]), sx(nco[:1]), sx(nch[:1]), "1/2"))
    return cmds
