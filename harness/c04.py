"""C04 — electron-repulsion integrals exact in both index conventions.

Correspondence: ElectronRepulsionIntegral.construct_array_contraction (runner command 20, Model/TwoElec.eri_block)
and electron_repulsion_integral (command 21, Model/OneBody.eri_integral: four-index symmetric assembly, transform,
physicist = middle axes exchanged) of the working tree against the exact Coq model evaluated over Qc.
Tolerance = the property's: 1e-6 * sqrt((ab|ab)(cd|cd)) per element, the Schwarz factors taken from the exact
model (command 20 on (s1,s2,s1,s2) and (s3,s4,s3,s4); command 21 without transform at basis level); shapes are
compared exactly; an invalid notation must be rejected.

Five streams of cases (illc and boys were added in round c, see `ill_contracted_list`, `lib.boys_cases`):
 * block: shell quartets, l in 0..3 (quick: stratified seed-dependent sample; thorough: all 256 l-tuples);
 * basis: 2-4 shell bases of every coordinate-type pattern, both notations, with/without transform, plus the
   implementation-only relation physicist == chemist.transpose(0,2,1,3) (bitwise);
 * near-pair-far / many-primitives (block level, `near_pair_far_blocks`, `many_primitive_blocks`): a bra pair on two DISTINCT
   centres that agree to a relative 1e-5 of their coordinates 50-100 bohr from the origin; shells with 9-10 primitives
   each (more than 4096 primitive quartets);
 * ill: the FIXED list of realistic ill-conditioned quartets (core s exponents 1e3..1e5 against diffuse d/f
   shells, exponents 0.05..0.5; plus six quartets INSIDE the random exponent range: diffuse s/p on one centre
   paired with a tight d/f on a centre 2-4 bohr away, against a diffuse d/f pair), both bra/ket orientations.
   On these the implementation is genuinely wrong in ONE orientation ((core core | diffuse diffuse), (diffuse
   tight | diffuse diffuse)) and exact to 1e-14 in the other: the electron-transfer recursion builds [a0|c0] from
   [a+c 0|00] with factors p/q per step and cancels large terms against each other (`_amp_prim`).  Not a small
   repair, so it is a KNOWN FINDING (KNOWN_FINDINGS.json, key C04-etransfer-conditioning) recognised by `known`
   below from the INPUT quartet; any other disagreement is a violation.

Stream "hp" (harness/hpnum.py): ElectronRepulsionIntegral.construct_array_contraction - orientation choice, the kernels
_compute_two_elec_integrals / _compute_two_elec_integrals_angmom_zero (Boys seed, vertical, electron-transfer and
horizontal recursions, norms computed inside, contraction), the transposition back - replayed in 260-bit arithmetic on
object arrays with the Boys function from mpmath and compared with command 20 at 1e-18 x (largest sum|primitive terms|
of the block).  At that precision the conditioning of the electron-transfer recursion is irrelevant, so a difference
is a difference of FORMULA; quartets of total L <= 4 (quick) / 6 (thorough) with K <= 2: object arithmetic is slow.

Memory: the exact model of an (ff|ff)-type quartet on two centres needs ~4 GB; such cases run 4 at a time, the
rest 16 at a time.  The model is run through the extracted runner; `xcheck_cmds` re-evaluates a few small
commands inside Coq (vm_compute)."""
import itertools
import math
import random
from fractions import Fraction

import numpy as np

import lib
import twoindex
from lib import XShell, call_impl, compare, run_cases, short_float, shrink_shell_json, sx

RULE = ("block level: shell quartets with l in 0..3; quick = stratified seed-dependent sample of ~45 l-tuples "
        "(all-s; l=3 and l=2 in each of the four positions; electron-transfer cases lc+ld>=2 up to lc+ld=6; "
        "generalized contractions M=2; K up to 3 for low L; coincident / pairwise / collinear / three-centre / "
        "general geometries; L up to 10); thorough = every one of the 256 l-tuples (K up to 3 and M up to 2 where "
        "the exact model is affordable, K=1 for the costliest) plus a second pass over the tuples with L<=7. "
        "Exponents log-uniform in 0.1..10 (0.2..5 when the quartet contains an f shell), 8-bit mantissas, centres "
        "k/16, coefficients k/8. basis level: 2-4 shells, all-Cartesian / all-spherical / mixed, l<=2 (f on one "
        "centre in thorough), both notations, every third case with a (rectangular) transform, invalid notations. "
        "ill-conditioned list: fixed, 108 quartets (core s 1e3/1e4/1e5/contracted x diffuse dd/ff/df/pf pairs x "
        "same atom / other atom x both orientations; 6 in-range quartets diffuse s/p at A + tight d/f (exponent 10 / 5) "
        "at B, |AB| = 2 or 4, against diffuse d/f pairs, both orientations). ill-contracted list: fixed, 7 quartets of CONTRACTED "
        "shells spanning tight and diffuse exponents (s {98304, 1/4}, {65536, 1/2}, {98304, 1536, 3/8}; p {8192, 1/4}; d {2, "
        "1/32}; f {4, 1/32}, {5/16}; p {1, 1/16}) - tight pair | diffuse pair on the same / another atom, (s p | d d), "
        "interleaved (s d | s d) - each with every listing order of the primitives of every shell (descending, ascending, "
        "K = 3: two shuffles) x orientation as given / bra<->ket / both pairs reversed / both (8..32 variants per quartet, "
        "168 in all, one exact block each); 4 seeded quartets of the same kind (thorough 40; tightest exponent within a "
        "factor 4 of exp_cap(l), 10 sampled variants each) and a whole-basis case (contracted s ascending first, "
        "spherical contracted d). Boys function: ElectronRepulsionIntegral.boys_func on orders 0..12 x 49 fixed arguments "
        "(0, 5e-324 .. 1e6, every decade of 1e-32..1e-24) + 21 seeded 53-bit arguments, mpmath at 1e-11 relative. Non-trivial: L>0 or K>1 or M>1 and a block that is not "
        "identically zero; distinct by the hash of the exact input; hp stream: 6 (quick) / 48 (thorough) quartets of total "
        "L<=4 / L<=6 incl. all-s, K<=2, M<=2, all five geometries, replayed at 260 bits (Boys by mpmath) against command 20, "
        "tolerance 1e-18 x largest sum|primitive terms| of the block; near-pair-far blocks (quick 3, thorough 24; K = M = 1): two "
        "shells with l in 1..2 (exponents 4..10) on DISTINCT centres agreeing per component to within (0.5..0.95)e-5 RELATIVE "
        "to the coordinate, 50-100 bohr per axis from the origin (3e-4..1e-3 bohr apart, 53-bit coordinates) as the bra, s / p "
        "shells on one or two neighbour centres as the ket ((pA pB|sC sC), (dA pB|sC sD), (pA pB|pB pA), ...); many-primitives "
        "block (quick 1, thorough 3): (s s|s p) on two atoms with 9, 9, 9, 9 (thorough also 10, 9, 9, 9, p in other positions) "
        "primitives per shell, even-tempered exponents alpha_0 r^k (alpha_0 0.06..0.2, r 2.2..2.8), coefficients k/8 of both "
        "signs, 6561 primitive quartets (exact model ~10-15 s)")
ASSUMPTIONS = [
    "floating-point rounding of the NumPy pipeline and of scipy.special.hyp1f1 is not modelled: the 1e-6*Schwarz "
    "accuracy clause is decided on the generated inputs against the exact value (Boys function by mpmath, 260 bits)",
    "the exact model value uses oracle values (pi, sqrt, exp, Boys) rounded to 72 significant bits and primitive "
    "terms rounded to multiples of 2^-400: relative 2e-22, far below the tolerance",
]
TOL_REL = 1e-6
KEY = "C04-etransfer-conditioning"
SAFETY = 1024.0        # observed error / estimate: <= 7.2 on the core-s list (504 quartets), <= 3.3 on in-range adversarial
                       # geometries, 12 on a tight-f contraction, <= 75 on 344 random quartets (there at 8e-9 of Schwarz)
EXTRA = {
    "known_finding_predicate": "est = 2^-53 * 1024 * max over primitive quartets of kappa^(lc+ld) * h^lb * hd^ld exceeds 1e-6 and the "
                               "observed error / Schwarz scale is <= est; kappa = max(1, (p/q) sqrt(|PA|^2+1/(2p)) / "
                               "sqrt(|QC|^2+1/(2q))), h = max(1, |AB| sqrt(2p)), hd = max(1, |CD| sqrt(2q)), for the orientation that is "
                               "evaluated",
}


# ----------------------------------------------------------------------------------------------
# cost / memory model of the exact model (seconds on one core, K = 1), fitted to measurements
# ----------------------------------------------------------------------------------------------
def _c(L, Lc):
    """one primitive quartet, one channel, general position"""
    return 0.01 + 5e-7 * L * L * (L + 1) ** 3 * (Lc + 1) ** 3


def _same(a, b):
    return a["coord"] == b["coord"]


def _call_cost(q):
    """one command-20 call on the four shell jsons q: about 20 % of the time of a K = M = 1 quartet goes into the
    primitive recursions (x product of K), 80 % into contraction + horizontal recursions (x product of M)"""
    k = [len(s["exps"]) for s in q]
    m = [len(s["coeffs"][0]) for s in q]
    l = [s["l"] for s in q]
    c = _c(sum(l), l[2] + l[3]) * (0.2 * k[0] * k[1] * k[2] * k[3] + 0.8 * m[0] * m[1] * m[2] * m[3])
    if all(_same(q[0], s) for s in q[1:]):
        c *= 0.12
    return c


def _calls(ss):
    return [_call_cost(ss), _call_cost([ss[0], ss[1], ss[0], ss[1]]), _call_cost([ss[2], ss[3], ss[2], ss[3]])]


def est_cost(ss):
    """ss: four shell jsons; the block itself and the two Schwarz blocks"""
    return sum(_calls(ss))


def heavy(ss):
    """some single model call is estimated above 18 s, i.e. ~1.3 GB or more (about 70 MB per second of evaluation)"""
    return max(_calls(ss)) > 18.0


# ----------------------------------------------------------------------------------------------
# evaluation
# ----------------------------------------------------------------------------------------------
_SCHW = {}


def _pair_diag(model, sa, sb):
    """(ab|ab) for every function pair of the two shells, exact: d[m1][i1][m2][i2]"""
    key = sa.sx() + sb.sx()
    if key not in _SCHW:
        if len(_SCHW) > 8:
            _SCHW.clear()
        r = model.call("(20 %s %s %s %s)" % (sa.sx(), sb.sx(), sa.sx(), sb.sx()))
        _SCHW[key] = [[[[abs(float(r[m1][i1][m2][i2][m1][i1][m2][i2])) for i2 in range(len(r[0][0][0]))]
                        for m2 in range(len(r[0][0]))] for i1 in range(len(r[0]))] for m1 in range(len(r))]
    return _SCHW[key]


def _amp_prim(A, B, C, D, a, b, c, d, lb, lcd, ld=0):
    """one primitive quartet evaluated as (a b | c d).  The code builds [a0|c0] from [a+c 0|00] by the electron
    transfer E[c+1][a] = (QC + (p/q) PA) E[c][a] - (p/q) E[c][a+1] + ..., in which (p/q) E[c][a+1] ~ (p/q) s_a E[c][a]
    is cancelled down to s_c E[c][a]: s_a = sqrt(|PA|^2 + 1/(2p)) and s_c = sqrt(|QC|^2 + 1/(2q)) are the sizes of
    (x - A) on the bra distribution and of (x - C) on the ket distribution.  Each of the lc+ld steps therefore
    amplifies rounding by kappa = (p/q) s_a / s_c (when > 1); the horizontal recursions a -> b and c -> d then
    cancel |AB|^lb down to (1/sqrt(2p))^lb and |CD|^ld down to (1/sqrt(2q))^ld.  (A = B, C = D: kappa = sqrt(p/q).)
    The C11 helper arrived independently at the same form (its bound: observed <= 263 x estimate on 2200 quartets)."""
    p, q = a + b, c + d
    P = [(a * A[i] + b * B[i]) / p for i in range(3)]
    Q = [(c * C[i] + d * D[i]) / q for i in range(3)]

    def dist(u, v):
        return math.sqrt(sum((x - y) ** 2 for x, y in zip(u, v)))

    wp, wq = 1.0 / math.sqrt(2 * p), 1.0 / math.sqrt(2 * q)
    sa = math.sqrt(dist(P, A) ** 2 + wp * wp)
    sc = math.sqrt(dist(Q, C) ** 2 + wq * wq)
    kappa = max(1.0, (p / q) * sa / sc)
    h = max(1.0, dist(A, B) / wp)
    hd = max(1.0, dist(C, D) / wq)
    return kappa ** lcd * h ** lb * hd ** ld


def amplification(ss):
    """estimated amplification of rounding errors when the quartet (four XShell) is evaluated in THIS orientation:
    the largest kappa^(lc+ld) * h^lb * hd^ld over its primitive quartets"""
    A, B, C, D = [[float(x) for x in s.coord] for s in ss]
    best = 1.0
    for a in ss[0].exps:
        for b in ss[1].exps:
            for c in ss[2].exps:
                for d in ss[3].exps:
                    best = max(best, _amp_prim(A, B, C, D, float(a), float(b), float(c), float(d),
                                               ss[1].l, ss[2].l + ss[3].l, ss[3].l))
    return best


def fcompare(impl, nested, tol_fn):
    """lib.compare semantics (shape exactly, worst element by |impl - model| / tol), but the element test is done
    on the correctly rounded double of the exact model value: |value| <= Schwarz scale, so that rounding (1e-16
    relative) cannot move a ratio across 1 unless it is within 1e-9 of 1 - then the exact comparison decides."""
    mshape = lib.shape_of(nested)
    impl = np.asarray(impl)
    if tuple(impl.shape) != mshape:
        return {"kind": "shape", "impl_shape": list(impl.shape), "model_shape": list(mshape)}
    if not np.all(np.isfinite(impl)):
        return compare(impl, nested, tol_fn=tol_fn)
    marr = np.array(nested, dtype=object)
    mf = marr.astype(float)
    worst = None
    for idx in np.ndindex(*impl.shape):
        t = tol_fn(idx)
        diff = abs(float(impl[idx]) - mf[idx])
        ratio = diff / t if t > 0 else (0.0 if diff == 0 else float("inf"))
        if worst is None or ratio > worst[0]:
            worst = (ratio, idx)
    if worst is None or worst[0] < 0.999:
        return None
    if worst[0] <= 1.001:
        return compare(impl, nested, tol_fn=tol_fn)
    idx = worst[1]
    xv, mv, t = float(impl[idx]), marr[idx], tol_fn(idx)
    return {"kind": "value", "index": [int(i) for i in idx], "impl": repr(xv), "model": "%.17g" % float(mv),
            "model_exact": str(mv) if len(str(mv)) < 400 else None,
            "abs_diff": float(abs(Fraction(xv) - mv)), "tol": t}


_HPCLS = []


def _eval_hp(model, case):
    """high-precision replay of ERI.construct_array_contraction vs command 20 (harness/hpnum.py)"""
    import hpnum
    from gbasis.integrals.electron_repulsion import ElectronRepulsionIntegral as ERI
    if not _HPCLS:
        _HPCLS.append(type("ElectronRepulsionHP", (ERI,), {"boys_func": staticmethod(hpnum.boys_hp)}))
    ss = [XShell.from_json(s) for s in case["s"]]
    tag = "hp block %d%d%d%d" % (ss[0].l, ss[1].l, ss[2].l, ss[3].l)
    res = model.call("(20 %s)" % " ".join(s.sx() for s in ss))
    ok, out = hpnum.try_replay(lambda: (
        _HPCLS[0].construct_array_contraction(*[hpnum.hp_shell(s) for s in ss]),
        _HPCLS[0].construct_array_contraction(*[hpnum.prim_shell(s) for s in ss])))
    if not ok:
        return {"detail": out, "nontrivial": True, "tag": tag}
    blk, prim = out
    scale = hpnum.contract_scale(prim, ss, [0, 2, 4, 6])
    d = hpnum.compare_hp(blk, res, scale, floor_rel=1.0)
    nontriv = (sum(s.l for s in ss) > 0 or any(len(s.exps) > 1 or len(s.coeffs[0]) > 1 for s in ss)) \
        and bool(scale.size and scale.max() > hpnum.NONTRIVIAL_SCALE)
    return {"detail": d, "nontrivial": nontriv, "tag": tag, "stats": {"hp_elements": int(np.asarray(blk).size)}}


def gen_hp_cases(tier, seed):
    import os
    if os.environ.get("VERIF_NO_HP"):        # timing comparisons only
        return []
    rng = random.Random(1000003 * seed + 4004)
    quick = tier == "quick"
    lcap = 4 if quick else 6
    tuples = [t for t in itertools.product(range(3), repeat=4) if 0 < sum(t) <= lcap]
    picks = [(0, 0, 0, 0)]
    n = 6 if quick else 48
    while len(picks) < n:
        t = rng.choice(tuples)
        if quick and sum(t) == 4 and sum(1 for p in picks if sum(p) == 4) >= 2:
            continue
        picks.append(t)
    out = []
    for i, t in enumerate(picks):
        L = sum(t)
        Ks = [rng.randint(1, 2) for _ in range(4)] if L <= 2 else [1 + (rng.random() < 0.35) for _ in range(4)]
        Ms = [2 if rng.random() < 0.3 else 1 for _ in range(4)]
        c = gen_block(rng, t, Ks, Ms, GEOMS[i % len(GEOMS)])
        c["hp"] = 1
        out.append(c)
    return out


def _eval_block(model, case):
    if case.get("hp"):
        return _eval_hp(model, case)
    from gbasis.integrals.electron_repulsion import ElectronRepulsionIntegral as ERI

    ss = [XShell.from_json(s) for s in case["s"]]
    tag = "%s %d%d%d%d" % (case["kind"], ss[0].l, ss[1].l, ss[2].l, ss[3].l)
    st, impl = call_impl(ERI.construct_array_contraction, *[s.to_gbasis() for s in ss])
    if st != "ok":
        return {"detail": {"kind": "rejected", "impl": impl}, "tag": tag}
    res = model.call("(20 %s)" % " ".join(s.sx() for s in ss))
    dab = _pair_diag(model, ss[0], ss[1])
    dcd = _pair_diag(model, ss[2], ss[3])

    def tol(idx):
        return TOL_REL * math.sqrt(dab[idx[0]][idx[1]][idx[2]][idx[3]] * dcd[idx[4]][idx[5]][idx[6]][idx[7]])

    d = fcompare(impl, res, tol)
    if d is not None and d.get("kind") == "value":
        d["rel_to_schwarz"] = d["abs_diff"] / d["tol"] * TOL_REL if d["tol"] > 0 else float("inf")
        d["amplification_estimate"] = amplification(ss) * 2.0 ** -53
        # the same integral through the other orientation (cd|ab) of the implementation
        st2, other = call_impl(ERI.construct_array_contraction, *[s.to_gbasis() for s in ss[2:] + ss[:2]])
        if st2 == "ok":
            i = d["index"]
            ov = float(other[i[4], i[5], i[6], i[7], i[0], i[1], i[2], i[3]])
            d["other_orientation"] = {"impl": repr(ov), "abs_diff": abs(ov - float(d["model"]))}
    nontriv = (sum(s.l for s in ss) > 0 or any(len(s.exps) > 1 or len(s.coeffs[0]) > 1 for s in ss)) \
        and bool(np.any(np.asarray(impl) != 0))
    return {"detail": d, "nontrivial": nontriv, "tag": tag}


ORIENTS = ((0, 1, 2, 3), (1, 0, 2, 3), (0, 1, 3, 2), (1, 0, 3, 2), (2, 3, 0, 1), (3, 2, 0, 1), (2, 3, 1, 0), (3, 2, 1, 0))


def permuted(sh, perm):
    """the same shell with its primitives (exponent, coefficient row) listed in the order `perm`"""
    return XShell(sh.l, list(sh.coord), [sh.exps[i] for i in perm], [list(sh.coeffs[i]) for i in perm], sh.sph)


def variant_shells(ss, v):
    """the four shells of variant v = {"o": orientation number, "perms": [p1, p2, p3, p4]} in the order in which they
    are handed to the implementation"""
    o = ORIENTS[v["o"]]
    pp = [permuted(ss[i], v["perms"][i]) for i in range(4)]
    return [pp[i] for i in o]


def _eval_illc(model, case):
    """CONTRACTED shells whose primitives span tight and diffuse exponents: ONE exact block (command 20 on the
    shells as listed in the case) against the implementation called on every variant = (one of the eight
    orientations of the quartet, a listing order of the primitives of each shell), transposed back.  The exact block
    does not depend on the variant: Props/C13.v C13_prim_perm_invariant_eri (permuting primitives) and
    Props/C04_orient.v (the eight orientations), so one model evaluation serves all of them."""
    from gbasis.integrals.electron_repulsion import ElectronRepulsionIntegral as ERI

    ss = [XShell.from_json(s) for s in case["s"]]
    tag = "illc %d%d%d%d K=%s" % (ss[0].l, ss[1].l, ss[2].l, ss[3].l, "".join(str(len(x.exps)) for x in ss))
    res = model.call("(20 %s)" % " ".join(x.sx() for x in ss))
    dab = _pair_diag(model, ss[0], ss[1])
    dcd = _pair_diag(model, ss[2], ss[3])

    def tol(idx):
        return TOL_REL * math.sqrt(dab[idx[0]][idx[1]][idx[2]][idx[3]] * dcd[idx[4]][idx[5]][idx[6]][idx[7]])

    nz = False
    for v in case["variants"]:
        o = ORIENTS[v["o"]]
        vs = variant_shells(ss, v)
        st, impl = call_impl(ERI.construct_array_contraction, *[x.to_gbasis() for x in vs])
        if st != "ok":
            return {"detail": {"kind": "rejected", "impl": impl, "variant": v}, "tag": tag}
        impl = np.asarray(impl)
        if impl.ndim == 8:      # axes (2k, 2k+1) belong to shell o[k]: back to the order of the case
            pos = [o.index(i) for i in range(4)]
            impl = np.transpose(impl, [ax for k in pos for ax in (2 * k, 2 * k + 1)])
        d = fcompare(impl, res, tol)
        if d is not None:
            if d.get("kind") == "value":
                d["rel_to_schwarz"] = d["abs_diff"] / d["tol"] * TOL_REL if d["tol"] > 0 else float("inf")
                d["amplification_estimate"] = amplification(vs) * 2.0 ** -53
            d["variant"] = v
            d["shells_as_called"] = [x.to_json() for x in vs]
            d["note"] = ("'index' refers to the shells in the order of the case (the implementation's result transposed "
                         "back); the quartet was handed over as shells_as_called")
            return {"detail": d, "nontrivial": True, "tag": tag, "stats": {"illc variants": len(case["variants"])}}
        nz = nz or bool(np.any(impl != 0))
    return {"detail": None, "nontrivial": nz, "tag": tag, "stats": {"illc variants": len(case["variants"])}}


def _t_sx(T):
    return "()" if T is None else "(%s)" % sx(T)


def canonical_quartets(n):
    """the (i, j, k, l) for which base_four_symm evaluates a block, in its loop order"""
    pairs = list(itertools.combinations_with_replacement(range(n), 2))
    return [(i, j, k, l) for a, (i, j) in enumerate(pairs) for (k, l) in pairs[a:]]


def _eval_basis(model, case):
    from gbasis.integrals.electron_repulsion import electron_repulsion_integral

    basis = [XShell.from_json(s) for s in case["basis"]]
    gb = [s.to_gbasis() for s in basis]
    T = case.get("T")
    Tq = None if T is None else [[Fraction(x) for x in row] for row in T]
    Tf = None if Tq is None else np.array([[float(x) for x in row] for row in Tq])
    nota = case["notation"]
    types = "".join("s" if s.sph else "c" for s in basis)
    tag = "basis n=%d %s %s%s" % (len(basis), types, nota if nota in ("chemist", "physicist") else "invalid", " T" if T is not None else "")
    st, impl = call_impl(electron_repulsion_integral, gb, transform=Tf, notation=nota)
    if nota not in ("chemist", "physicist"):
        # the documented contract: ValueError; compared as `rejected`
        d = None if st == "rejected" else {"kind": "accepted-invalid-notation", "notation": nota}
        return {"detail": d, "nontrivial": False, "tag": tag}
    if st != "ok":
        return {"detail": {"kind": "rejected", "impl": impl}, "tag": tag}
    phys = nota == "physicist"
    bsx = "(%s)" % " ".join(s.sx() for s in basis)
    res = model.call("(21 %s %s %d)" % (bsx, _t_sx(Tq), 1 if phys else 0))
    # Schwarz factors of the untransformed functions from the exact model
    if T is None:
        n = len(res)
        S = [[math.sqrt(abs(float(res[a][a][b][b] if phys else res[a][b][a][b]))) for b in range(n)] for a in range(n)]
        W = S
    else:
        chem = model.call("(21 %s () 0)" % bsx)
        n = len(chem)
        S = np.array([[math.sqrt(abs(float(chem[a][b][a][b]))) for b in range(n)] for a in range(n)])
        At = np.abs(Tf)
        W = At @ S @ At.T      # bound on the Schwarz scale propagated through |T|

    def tol(idx):
        i, j, k, l = idx
        return TOL_REL * (W[i][k] * W[j][l] if phys else W[i][j] * W[k][l])

    d = fcompare(impl, res, tol)
    if d is not None and d.get("kind") == "value":
        d["rel_to_schwarz"] = d["abs_diff"] / d["tol"] * TOL_REL if d["tol"] > 0 else float("inf")
        d["amplification_estimate"] = max(amplification([basis[i] for i in q])
                                          for q in canonical_quartets(len(basis))) * 2.0 ** -53
    if d is None:
        # implementation-only: the two conventions are the same numbers with the middle axes exchanged
        other = "chemist" if phys else "physicist"
        st2, impl2 = call_impl(electron_repulsion_integral, gb, transform=Tf, notation=other)
        if st2 != "ok":
            d = {"kind": "rejected", "impl": impl2, "notation": other}
        elif not np.array_equal(np.transpose(np.asarray(impl2), (0, 2, 1, 3)), np.asarray(impl)):
            d = {"kind": "physicist-is-not-middle-swap-of-chemist"}
    return {"detail": d, "nontrivial": bool(np.any(np.asarray(impl) != 0)), "tag": tag}


def eval_case(model, case):
    if case["kind"] == "boys":
        return lib.eval_boys_case(case)
    if case["kind"] in ("block", "ill"):
        return _eval_block(model, case)
    if case["kind"] == "illc":
        return _eval_illc(model, case)
    if case["kind"] == "basis":
        return _eval_basis(model, case)
    raise ValueError(case["kind"])


# ----------------------------------------------------------------------------------------------
# known finding (KNOWN_FINDINGS.json, key C04-etransfer-conditioning)
# ----------------------------------------------------------------------------------------------
_KF = None


def _kf_text():
    global _KF
    if _KF is None:
        _KF = ""
        for e in lib.load_known_findings():
            if isinstance(e, dict) and e.get("property") == "C04" and e.get("key") == KEY:
                _KF = e.get("text", KEY)
    return _KF


def known(case, detail):
    """A value disagreement on a quartet whose evaluated orientation amplifies rounding in the electron-transfer /
    horizontal recursions (`amplification`: bra pair much tighter than the ket pair, or a tight high-l function
    paired with a diffuse one on a distant centre, and high ket angular momentum).  The predicate is on the INPUT
    (estimate * 2^-53 * SAFETY above the tolerance); in addition the size of the observed error must be explained by
    the estimate, so that a wrong coefficient (errors of order 1e-2..1 of the Schwarz scale) is not absorbed.  For
    quartets with exponents in 0.1..10 on one or two nearby centres the estimate stays below the tolerance."""
    if not _kf_text() or not isinstance(detail, dict) or detail.get("kind") != "value":
        return None
    if case.get("kind") in ("block", "ill", "illc"):
        amp = amplification([XShell.from_json(s) for s in case["s"]])
    elif case.get("kind") == "basis":
        basis = [XShell.from_json(s) for s in case["basis"]]
        amp = max(amplification([basis[i] for i in q]) for q in canonical_quartets(len(basis)))
    else:
        return None
    est = amp * 2.0 ** -53 * SAFETY
    if est <= TOL_REL:
        return None
    rel = detail.get("rel_to_schwarz")
    if rel is None or not (rel <= est):
        return None
    return _kf_text()


# ----------------------------------------------------------------------------------------------
# generators
# ----------------------------------------------------------------------------------------------
def mk_shell(rng, l, K, M, lo, hi, coord, sph=False):
    exps = []
    while len(exps) < K:
        e = short_float(rng, lo, hi, 8)
        if e not in exps:
            exps.append(e)
    coeffs = [[Fraction(rng.choice([-1, 1]) * rng.randint(1, 16), 8) for _ in range(M)] for _ in range(K)]
    if M > 1 and K > 1 and rng.random() < 0.4:      # exact zeros as in published generalized contractions
        for col in range(M):
            keep = rng.randrange(K)
            for row in range(K):
                if row != keep and rng.random() < 0.4:
                    coeffs[row][col] = Fraction(0)
    return XShell(l, coord, exps, coeffs, sph)


def rnd_centre(rng, span=2):
    return [Fraction(rng.randint(-16 * span, 16 * span), 16) for _ in range(3)]


GEOMS = ("general", "coincident", "pairwise", "collinear", "three")


def centres(rng, geom):
    if geom == "coincident":
        c = rnd_centre(rng)
        return [c, c, c, c]
    if geom == "pairwise":          # A = B, C = D: two atoms
        a, c = rnd_centre(rng), rnd_centre(rng)
        return [a, a, c, c]
    if geom == "three":             # two shells of one atom + two other atoms
        a, c, d = rnd_centre(rng), rnd_centre(rng), rnd_centre(rng)
        return rng.choice([[a, a, c, d], [c, d, a, a], [a, c, a, d]])
    if geom == "collinear":
        o = rnd_centre(rng, 1)
        dvec = [Fraction(rng.randint(-8, 8), 16) for _ in range(3)]
        if all(x == 0 for x in dvec):
            dvec = [Fraction(1, 2), Fraction(0), Fraction(-1, 4)]
        ts = rng.sample(range(-3, 4), 4)
        return [[o[i] + t * dvec[i] for i in range(3)] for t in ts]
    return [rnd_centre(rng) for _ in range(4)]


def gen_block(rng, ls, Ks, Ms, geom, kind="block"):
    lo, hi = (0.2, 5.0) if 3 in ls else (0.1, 10.0)
    cs = centres(rng, geom)
    ss = [mk_shell(rng, ls[i], Ks[i], Ms[i], lo, hi, cs[i]) for i in range(4)]
    return {"kind": kind, "geom": geom, "s": [s.to_json() for s in ss]}


def gen_block_capped(rng, ls, cap, kmax=3, mprob=0.3, geom=None, want_m2=False, light=False):
    """K (<= kmax) and M (<= 2) per shell as large as the cost cap allows (light: no single model call in the
    `heavy` memory class either); geometry as asked or random"""
    g = geom or rng.choice(GEOMS)
    Ks = [rng.randint(1, kmax) for _ in range(4)]
    Ms = [2 if (rng.random() < mprob) else 1 for _ in range(4)]
    if want_m2 and Ms == [1, 1, 1, 1]:
        Ms[rng.randrange(4)] = 2
    while True:
        c = gen_block(rng, ls, Ks, Ms, g)
        if est_cost(c["s"]) <= cap and not (light and heavy(c["s"])):
            return c
        # too expensive: drop a column, else a primitive, else move everything onto fewer centres
        big_m = [i for i in range(4) if Ms[i] > 1]
        big_k = [i for i in range(4) if Ks[i] > 1]
        if big_m and (not want_m2 or len(big_m) > 1 or not big_k):
            Ms[rng.choice(big_m)] = 1
        elif big_k:
            i = rng.choice(big_k)
            Ks[i] -= 1
        elif g not in ("pairwise", "coincident"):
            g = "pairwise"
        elif g == "pairwise":
            g = "coincident"
        else:
            return c


ALL_TUPLES = list(itertools.product(range(4), repeat=4))


def quick_blocks(rng):
    cases = []
    cap = 18.0
    # all-s
    cases.append(gen_block(rng, (0, 0, 0, 0), [3, 2, 3, 1], [2, 1, 2, 1], "general"))
    cases.append(gen_block(rng, (0, 0, 0, 0), [1, 1, 1, 1], [1, 1, 1, 1], rng.choice(("coincident", "pairwise"))))
    # the high l in each position
    for pos in range(4):
        for lh, lomax in ((3, 1), (2, 2)):
            ls = [rng.randint(0, lomax) for _ in range(4)]
            ls[pos] = lh
            if sum(ls) > 6:
                ls = [min(x, 1) for x in ls]
                ls[pos] = lh
            cases.append(gen_block_capped(rng, tuple(ls), cap, kmax=2))
    # electron transfer with c >= 2
    et = [t for t in ALL_TUPLES if t[2] + t[3] >= 2 and sum(t) <= 8]
    picks = rng.sample([t for t in et if t[2] + t[3] in (2, 3)], 4) + rng.sample([t for t in et if t[2] + t[3] == 4], 2) \
        + rng.sample([t for t in et if t[2] + t[3] >= 5], 2)
    for t in picks:
        cases.append(gen_block_capped(rng, t, cap, kmax=2, geom=rng.choice(("general", "three", "collinear"))))
    # generalized contractions
    for t in rng.sample([t for t in ALL_TUPLES if 1 <= sum(t) <= 4], 6):
        cases.append(gen_block_capped(rng, t, cap, kmax=3, mprob=0.6, want_m2=True))
    # three primitives
    for t in rng.sample([t for t in ALL_TUPLES if sum(t) <= 3], 4):
        ks = [3, 3, 3, 3] if sum(t) <= 1 else [3, 2, 3, 1]
        rng.shuffle(ks)
        cases.append(gen_block(rng, t, ks, [1, 1, 1, 1], "general"))
    # geometries
    for g in ("coincident", "coincident", "coincident", "collinear", "collinear", "collinear", "pairwise", "pairwise"):
        t = rng.choice([t for t in ALL_TUPLES if 2 <= sum(t) <= 6])
        cases.append(gen_block_capped(rng, t, cap, kmax=2, geom=g))
    # high totals
    for t in rng.sample([t for t in ALL_TUPLES if sum(t) in (8, 9) and t[2] + t[3] <= 4 and t[0] + t[1] <= 5], 2):
        cases.append(gen_block_capped(rng, t, 18.0, kmax=1, mprob=0.0, geom=rng.choice(("general", "three"))))
    t = rng.choice([(3, 3, rng.randint(0, 1), rng.randint(0, 2)), (rng.randint(0, 2), rng.randint(0, 1), 3, 3)])
    cases.append(gen_block(rng, t, [1, 1, 1, 1], [1, 1, 1, 1], "pairwise"))
    # uniform over all 256 tuples, affordable geometry
    n = 0
    while n < 6:
        t = rng.choice(ALL_TUPLES)
        if sum(t) >= 10:
            continue
        c = gen_block_capped(rng, t, 18.0, kmax=2)
        if not heavy(c["s"]):
            cases.append(c)
            n += 1
    return cases


def thorough_blocks(rng):
    cases = []
    for t in ALL_TUPLES:
        L = sum(t)
        ff = (t[0] + t[1] == 6) or (t[2] + t[3] == 6)
        if ff or L >= 10:
            # an (f,f) pair on two centres costs ~4 GB and ~50 s for its Schwarz factor alone: mostly one centre
            g = rng.choice(("pairwise", "coincident", "pairwise")) if ff else rng.choice(GEOMS)
            cases.append(gen_block(rng, t, [1, 1, 1, 1], [1, 1, 1, 1], g))
        else:
            cases.append(gen_block_capped(rng, t, 40.0, kmax=3, light=True))
    # (f,f) pairs on two centres and the full (ff|ff) in general position
    for t, g in (((3, 3, 3, 3), "general"), ((3, 3, 0, 1), "general"), ((1, 0, 3, 3), "general"), ((3, 3, 2, 2), "three"),
                 ((2, 1, 3, 3), "collinear"), ((3, 3, 3, 2), "pairwise")):
        cases.append(gen_block(rng, t, [1, 1, 1, 1], [1, 1, 1, 1], g))
    # second pass over the cheaper tuples: other K / M / geometry
    for t in ALL_TUPLES:
        if sum(t) <= 7:
            cases.append(gen_block_capped(rng, t, 25.0, kmax=3, mprob=0.5, want_m2=(sum(t) <= 5), light=True))
    return cases


def ill_conditioned_list():
    """FIXED (seed-independent) list: core s shells against diffuse d / f shells, both orientations."""
    F = Fraction
    at1 = [F(0), F(0), F(0)]
    at2 = [F(1, 2), F(-1, 4), F(3, 4)]
    cores = [
        ("s1e3", lambda c: XShell(0, c, [F(1000)], [[1]])),
        ("s1e4", lambda c: XShell(0, c, [F(10000)], [[1]])),
        ("s1e5", lambda c: XShell(0, c, [F(100000)], [[1]])),
        ("s-contracted", lambda c: XShell(0, c, [F(100000), F(15000), F(3400)], [[F(1, 16)], [F(1, 4)], [F(3, 4)]])),
    ]
    diffuse = [
        ("dd", lambda c: [XShell(2, c, [F(1, 16)], [[1]]), XShell(2, c, [F(1, 16)], [[1]])]),
        ("dd'", lambda c: [XShell(2, c, [F(1, 2)], [[1]]), XShell(2, c, [F(13, 256)], [[1]])]),
        ("ff", lambda c: [XShell(3, c, [F(5, 16)], [[1]]), XShell(3, c, [F(5, 16)], [[1]])]),
        ("ff'", lambda c: [XShell(3, c, [F(1, 2)], [[1]]), XShell(3, c, [F(1, 2)], [[1]])]),
        ("df", lambda c: [XShell(2, c, [F(1, 8)], [[1]]), XShell(3, c, [F(5, 16)], [[1]])]),
        ("pf", lambda c: [XShell(1, c, [F(1, 8)], [[1]]), XShell(3, c, [F(5, 16)], [[1]])]),
    ]
    cases = []
    # inside the property's own exponent range (0.1..10, 0.2..5 with f): a diffuse low-l function at A paired with a
    # tight high-l function at B (|AB| = 2 or 4 bohr) against a diffuse ket pair on a third centre or on A
    for dist, t, lo, hi, ket_at in ((4, (0, 2, 2, 2), F(1, 8), F(10), "C"), (4, (1, 2, 2, 2), F(1, 8), F(10), "A"),
                                    (4, (0, 2, 3, 3), F(1, 4), F(5), "C"), (2, (0, 3, 3, 3), F(1, 4), F(5), "C"),
                                    (4, (0, 3, 3, 3), F(1, 4), F(5), "C"), (4, (0, 3, 3, 3), F(1, 4), F(5), "A")):
        A = [F(0), F(0), F(0)]
        B = [F(dist), F(0), F(0)]
        Kc = [F(0), F(dist), F(1, 2)] if ket_at == "C" else A
        bra = [XShell(t[0], A, [lo], [[1]]), XShell(t[1], B, [hi], [[1]])]
        ket = [XShell(t[2], Kc, [lo], [[1]]), XShell(t[3], Kc, [lo], [[1]])]
        for orient, ss in (("diffuse-tight|diffuse", bra + ket), ("diffuse|diffuse-tight", ket + bra)):
            cases.append({"kind": "ill", "name": "in-range %d%d%d%d |AB|=%d ket@%s %s" % (t + (dist, ket_at, orient)),
                          "s": [s.to_json() for s in ss]})
    for cname, core in cores:
        for dname, dif in diffuse:
            for where, cd in (("same-atom", at2), ("other-atom", at1)):
                bra = [core(cd), core(cd)]
                ket = dif(at2)
                for orient, ss in (("core|diffuse", bra + ket), ("diffuse|core", ket + bra)):
                    cases.append({"kind": "ill", "name": "%s x %s %s %s" % (cname, dname, where, orient),
                                  "s": [s.to_json() for s in ss]})
    return cases


def _orders(exps):
    """listing orders of the primitives of one shell: descending (tight -> diffuse, as in basis-set files), ascending,
    and for K = 3 the two rotations that put the most diffuse primitive first / the tightest last"""
    k = len(exps)
    asc = sorted(range(k), key=lambda i: exps[i])
    out = {"desc": asc[::-1], "asc": asc}
    if k >= 3:
        out["shuf1"] = [asc[0]] + asc[:0:-1]            # most diffuse first, then tight -> diffuse
        out["shuf2"] = asc[1:-1] + [asc[0], asc[-1]]    # tightest last
    return out


def _illc_variants(ss, rng=None, nmax=None):
    """every combination of listing orders (per DISTINCT shell: a shell that occurs twice is listed the same way both
    times, as in a basis set) x the orientations given / bra-ket exchanged / both pairs reversed / exchanged and
    reversed; with rng: a sample of nmax of them that always contains (all ascending, as given)"""
    keys = []
    for x in ss:
        k = x.sx()
        if k not in keys:
            keys.append(k)
    which = [keys.index(x.sx()) for x in ss]
    ords = []
    for k in keys:
        sh = ss[[x.sx() for x in ss].index(k)]
        ords.append(list(_orders([float(e) for e in sh.exps]).items()) if len(sh.exps) > 1 else [("k1", [0])])
    out = []
    for combo in itertools.product(*ords):
        for o in (0, 4, 3, 7):
            out.append({"o": o, "orders": [combo[w][0] for w in which], "perms": [list(combo[w][1]) for w in which]})
    if rng is not None and nmax is not None and len(out) > nmax:
        must = [v for v in out if v["o"] == 0 and all(n in ("asc", "k1") for n in v["orders"])]
        rest = [v for v in out if v not in must]
        out = must + rng.sample(rest, nmax - len(must))
    return out


def ill_contracted_list():
    """FIXED (seed-independent) list: CONTRACTED shells (K = 2, 3) whose primitives span tight and diffuse exponents
    (core s 98304 / 65536 with valence 1/4..1/2; p 8192 with 1/4; d 2 with 1/32; f 4 with 1/32, p 1 with 1/16), tight
    pair against diffuse pair on the same / on another atom and interleaved, every listing order of the primitives of
    every shell (descending, ascending, K = 3: two shuffles) x {as given, bra <-> ket, both pairs reversed, both}.  The
    best-conditioned orientation must be found from the VALUES of the exponents, wherever they are listed."""
    F = Fraction
    at1 = [F(0), F(0), F(0)]
    at2 = [F(1, 2), F(-1, 4), F(3, 4)]

    def sh(l, c, exps, coeffs):
        return XShell(l, c, [F(e) for e in exps], [[F(x)] for x in coeffs])

    S2 = lambda c: sh(0, c, [98304, F(1, 4)], [F(1, 4), 1])
    S2b = lambda c: sh(0, c, [65536, F(1, 2)], [F(1, 2), F(3, 4)])
    S3 = lambda c: sh(0, c, [98304, 1536, F(3, 8)], [F(1, 8), F(1, 2), 1])
    P2 = lambda c: sh(1, c, [8192, F(1, 4)], [F(1, 4), 1])
    D2 = lambda c: sh(2, c, [2, F(1, 32)], [F(1, 2), 1])
    F1 = lambda c: sh(3, c, [F(5, 16)], [1])
    F2 = lambda c: sh(3, c, [4, F(1, 32)], [F(1, 2), 1])
    Pd2 = lambda c: sh(1, c, [1, F(1, 16)], [F(1, 2), 1])
    templates = [
        ("s2 s2 | d2 d2 other-atom", [S2(at2), S2(at2), D2(at1), D2(at1)]),
        ("s2 s2' | d2 d2 same-atom", [S2(at2), S2b(at2), D2(at2), D2(at2)]),
        ("s3 s3 | d2 d2 other-atom", [S3(at2), S3(at2), D2(at1), D2(at1)]),
        ("s2 s2 | f1 f1 other-atom", [S2(at2), S2(at2), F1(at1), F1(at1)]),
        ("s2' s2' | pd2 f2 other-atom", [S2b(at2), S2b(at2), Pd2(at1), F2(at1)]),
        ("s2 p2 | d2 d2 other-atom", [S2(at2), P2(at2), D2(at1), D2(at1)]),
        ("s2 d2 | s2 d2 interleaved, two atoms", [S2(at2), D2(at1), S2(at2), D2(at1)]),
    ]
    cases = []
    for name, ss in templates:
        cases.append({"kind": "illc", "name": name, "s": [x.to_json() for x in ss], "variants": _illc_variants(ss)})
    return cases


def gen_wide_blocks(rng, n, lsum_max, cap):
    """seed-dependent quartets of the same kind: tight-containing contracted shells (l 0/1, K 2-3, tightest exponent
    within a factor 4 of exp_cap(l), most diffuse 0.1..1) against contracted diffuse shells (l 1..3, K 1-2, 0.03..4),
    same / other atom, pair against pair or interleaved; 10 sampled variants (orders x orientations) each, always
    containing `all ascending, as given`."""
    cases = []
    F = Fraction
    while len(cases) < n:
        at2 = rnd_centre(rng, 1)
        at1 = at2 if rng.random() < 0.3 else rnd_centre(rng, 1)

        def coef(k):
            return [[F(rng.choice([-1, 1]) * rng.randint(2, 16), 8)] for _ in range(k)]

        def tshell():
            l = rng.choice([0, 0, 0, 1])
            cap_l = lib.exp_cap(l)
            ex = [short_float(rng, cap_l / 4, cap_l), short_float(rng, 0.1, 1.0)]
            if rng.random() < 0.35:
                ex.insert(1, short_float(rng, 2.0, cap_l / 16))
            return XShell(l, at2, ex, coef(len(ex)))

        def ushell(lmax):
            l = rng.randint(1, max(1, lmax))
            if rng.random() < 0.7:
                ex = [short_float(rng, 0.5, 4.0), short_float(rng, 0.03, 0.12)]
            else:
                ex = [short_float(rng, 0.05, 0.6)]
            return XShell(l, at1, ex, coef(len(ex)))

        t1 = tshell()
        t2 = t1 if rng.random() < 0.5 else tshell()
        rem = lsum_max - t1.l - t2.l
        if rem < 2:
            continue
        u1 = ushell(min(3, rem - 1))
        u2 = u1 if (rng.random() < 0.5 and 2 * u1.l <= rem) else ushell(min(3, rem - u1.l))
        if t1.l + t2.l + u1.l + u2.l > lsum_max or u1.l + u2.l < 3:
            continue
        ss = [t1, t2, u1, u2] if rng.random() < 0.8 else [t1, u1, t2, u2]
        c = {"kind": "illc", "name": "seeded wide-range contraction", "s": [x.to_json() for x in ss],
             "variants": _illc_variants(ss, rng, 10)}
        if est_cost(c["s"]) <= cap:
            cases.append(c)
    return cases


def near_pair_far_blocks(rng, n):
    """quartets containing two shells with l >= 1 on DISTINCT centres A, B that agree per component to within 1e-5
    RELATIVE to the coordinate (3e-4 .. 1e-3 bohr apart, 50-100 bohr per axis from the origin; lib.far_near_centres)
    and s / p shells on one or two ordinary neighbour centres; K = M = 1, exponents 4..10 on the pair, 1..10 on the
    neighbours, 53-bit coordinates.  The pair is the bra of the quartet as given and of its best-conditioned
    orientation ((pA pB|sC sC): every orientation ties, the given one is evaluated; (dA pB|sC sD), (pA pB|pB pA),
    (pB dA|sC pC)), so a kernel that treats A and B as one centre (tolerance relative to the coordinates) in the
    bra is off by ~|AB| sqrt(alpha) ~ 1e-3 of the Schwarz scale."""
    pats = [((1, "A"), (1, "B"), (0, "C"), (0, "C")), ((2, "A"), (1, "B"), (0, "C"), (0, "D")),
            ((1, "A"), (1, "B"), (1, "B"), (1, "A")), ((1, "B"), (2, "A"), (0, "C"), (1, "C")),
            ((1, "A"), (2, "B"), (0, "D"), (0, "C")), ((2, "B"), (2, "A"), (0, "C"), (0, "C"))]
    cases = []
    for i in range(n):
        A, B, C, D = lib.far_near_centres(rng, nextra=2)
        at = {"A": A, "B": B, "C": C, "D": D}
        ss = [mk_shell(rng, l, 1, 1, *((4.0, 10.0) if w in "AB" else (1.0, 10.0)), at[w]) for l, w in pats[i % len(pats)]]
        cases.append({"kind": "block", "geom": "near-pair-far", "s": [x.to_json() for x in ss]})
    return cases


def many_primitive_blocks(rng, tier):
    """(s s | s p) on two atoms with K = 9, 9, 9, 9 primitives per shell (9^4 = 6561 primitive quartets; published s
    shells of cc-pVXZ / ANO sets carry 8-13 primitives): even-tempered exponents alpha_k = alpha_0 r^k (alpha_0 0.06..0.2, r
    2.2..2.8, i.e. 0.1 .. ~200), coefficients k/8 of both signs.  Not all-s (that is another routine).  Exact model: ~10 s
    for the block and its two Schwarz blocks.  Thorough: also K = 10, 9, 9, 9 with the p shell in another position."""
    cases = []
    for j in range(1 if tier == "quick" else 3):
        A, B = rnd_centre(rng, 1), rnd_centre(rng, 1)
        while A == B:
            B = rnd_centre(rng, 1)
        ks = [9, 9, 9, 9] if j == 0 else [10, 9, 9, 9]
        ss = []
        for i, k in enumerate(ks):
            a0, r = rng.uniform(0.06, 0.2), rng.uniform(2.2, 2.8)
            exps = [Fraction(float(a0 * r ** t)) for t in range(k)][::-1]          # tight -> diffuse, as in basis-set files
            coeffs = [[Fraction(rng.choice([-1, 1]) * rng.randint(1, 16), 8)] for _ in range(k)]
            ss.append(XShell(1 if i == 3 else 0, A if i < 2 else B, exps, coeffs))
        if j == 1:
            ss = [ss[3], ss[2], ss[0], ss[1]]
        elif j == 2:
            ss = [ss[0], ss[3], ss[1], ss[2]]
        cases.append({"kind": "block", "geom": "many-primitives", "s": [x.to_json() for x in ss]})
    return cases


def basis_cost(shells, largest=False):
    js = [s.to_json() for s in shells]
    cs = [_call_cost([js[i], js[j], js[k], js[l]]) for (i, j, k, l) in canonical_quartets(len(js))]
    return max(cs) if largest else sum(cs)


def gen_basis_cases(rng, tier):
    cases = []
    nb = 18 if tier == "quick" else 110
    cap = 12.0 if tier == "quick" else 40.0
    i = 0
    while len(cases) < nb:
        i += 1
        n = 2 + i % 3
        mode = i % 5            # 0 all cart, 1 all sph, 2-4 mixed
        ncent = rng.randint(1, min(n, 3))
        cents = [rnd_centre(rng) for _ in range(ncent)]
        lmax = 2
        allow_f = tier == "thorough" and i % 7 == 0 and n <= 3
        shells = []
        for k in range(n):
            l = rng.choice([0, 0, 1, 1, 2]) if n >= 3 else rng.randint(0, lmax)
            if allow_f and k == 0:
                l = 3
            sph = False if mode == 0 else (True if mode == 1 else rng.random() < 0.5)
            K = rng.randint(1, 2 if l >= 2 else 3)
            M = 2 if rng.random() < 0.25 else 1
            lo, hi = (0.2, 5.0) if (allow_f) else (0.1, 10.0)
            c = cents[0] if (allow_f and l >= 2) else cents[k % ncent]
            shells.append(mk_shell(rng, l, K, M, lo, hi, list(c), sph))
        if mode >= 2 and n >= 2 and len({s.sph for s in shells}) == 1:
            shells[0].sph = not shells[0].sph
        rng.shuffle(shells)
        cost = basis_cost(shells)
        withT = (i % 3 == 2)
        nfun = sum(s.nfun() for s in shells)
        # the four-index array has nfun^4 exact rationals; the model's transform costs nrows * nfun^4 big products
        if nfun > ((8 if tier == "quick" else 10) if withT else (12 if tier == "quick" else 16)):
            continue
        if cost * (2 if withT else 1) > cap or basis_cost(shells, largest=True) > 15.0:
            continue
        case = {"kind": "basis", "basis": [s.to_json() for s in shells], "T": None,
                "notation": "physicist" if i % 2 else "chemist"}
        if withT:
            nf = sum(s.nfun() for s in shells)
            nr = rng.choice([1, 2, nf, nf + 1])
            case["T"] = [[str(x) for x in row] for row in twoindex.gen_transform(rng, nr, nf)]
        cases.append(case)
    # invalid notations must be refused
    for bad in (("Chemist", "physicists") if tier == "quick" else ("Chemist", "physicists", "", "mulliken", "chem")):
        s1 = mk_shell(rng, 0, 1, 1, 0.1, 10.0, rnd_centre(rng))
        s2 = mk_shell(rng, 1, 1, 1, 0.1, 10.0, rnd_centre(rng))
        cases.append({"kind": "basis", "basis": [s1.to_json(), s2.to_json()], "T": None, "notation": bad})
    return cases


def ill_basis_cases():
    """the ill-conditioned pair through the public whole-basis function: which orientation is evaluated depends on
    the ORDER of the shells in the basis (core s first: (ss|dd) is computed and mirrored; d first: (dd|ss))."""
    F = Fraction
    c = [F(1, 2), F(-1, 4), F(3, 4)]
    s = XShell(0, c, [F(100000)], [[1]])
    d = XShell(2, c, [F(13, 256)], [[1]])
    # contracted shells spanning tight and diffuse exponents, primitives listed diffuse -> tight, tight shell first
    sc = XShell(0, c, [F(1, 4), F(98304)], [[1], [F(1, 4)]])
    dc = XShell(2, c, [F(1, 32), F(2)], [[1], [F(1, 2)]], True)
    return [{"kind": "basis", "name": "ill core-s first", "basis": [s.to_json(), d.to_json()], "T": None, "notation": "chemist"},
            {"kind": "basis", "name": "ill diffuse-d first", "basis": [d.to_json(), s.to_json()], "T": None, "notation": "physicist"},
            {"kind": "basis", "name": "ill contracted s (ascending) first", "basis": [sc.to_json(), dc.to_json()], "T": None,
             "notation": "physicist"}]


def case_cost(c):
    if c["kind"] == "boys":
        return 0.5
    if c["kind"] in ("block", "ill", "illc"):
        return est_cost(c["s"])
    return basis_cost([XShell.from_json(s) for s in c["basis"]]) * (2 if c.get("T") is not None else 1)


def gen_cases(tier, seed):
    rng = random.Random(1000003 * seed + 4)
    cases = quick_blocks(rng) if tier == "quick" else thorough_blocks(rng)
    cases += ill_conditioned_list()
    cases += ill_contracted_list()
    cases += gen_wide_blocks(random.Random(1000003 * seed + 444), 4 if tier == "quick" else 40,
                             4 if tier == "quick" else 6, 8.0 if tier == "quick" else 40.0)
    cases += near_pair_far_blocks(random.Random(1000003 * seed + 4444), 3 if tier == "quick" else 24)
    cases += many_primitive_blocks(random.Random(1000003 * seed + 44444), tier)
    cases += ill_basis_cases()
    cases += gen_basis_cases(random.Random(1000003 * seed + 44), tier)
    # the Boys function itself: orders 0..12 (four f shells), arguments 0, 5e-324 .. 1e6
    cases += lib.boys_cases(seed, 12, "eri")
    return gen_hp_cases(tier, seed) + cases


# ----------------------------------------------------------------------------------------------
# shrinking
# ----------------------------------------------------------------------------------------------
def shrink_case(case):
    if case["kind"] == "boys":
        for c in lib.shrink_boys_case(case):
            yield c
        return
    if case["kind"] == "illc":
        ss = [XShell.from_json(x) for x in case["s"]]
        for v in case["variants"]:
            yield {"kind": "block", "geom": "illc variant", "s": [x.to_json() for x in variant_shells(ss, v)]}
        return
    if case["kind"] in ("block", "ill"):
        for pos in range(4):
            for t in shrink_shell_json(case["s"][pos]):
                c = dict(case)
                c["kind"] = "block"
                c.pop("name", None)
                c["s"] = case["s"][:pos] + [t] + case["s"][pos + 1:]
                if est_cost(c["s"]) <= max(60.0, 1.5 * est_cost(case["s"])):
                    yield c
        return
    if case.get("T") is not None:
        c = dict(case)
        c["T"] = None
        yield c
        return
    lst = case["basis"]
    if len(lst) > 1:
        for i in range(len(lst)):
            c = dict(case)
            c["basis"] = lst[:i] + lst[i + 1:]
            yield c
    if case.get("notation") == "physicist":
        c = dict(case)
        c["notation"] = "chemist"
        yield c
    for i, sj in enumerate(lst):
        for t in shrink_shell_json(sj):
            c = dict(case)
            c["basis"] = lst[:i] + [t] + lst[i + 1:]
            yield c


# ----------------------------------------------------------------------------------------------
def run(rep, tier, seed, model, replay):
    if replay is not None:
        cases = [replay["case"]]
    else:
        cases = gen_cases(tier, seed)
    # memory classes by the largest single model call (about 70 MB per second of evaluation, the estimate can be
    # low by a factor 3): > 18 s run 4 at a time, 10..18 s 8 at a time, the rest 16 at a time
    def mclass(c):
        if c["kind"] not in ("block", "ill", "illc"):
            return 2
        m = max(_calls(c["s"]))
        return 0 if m > 18.0 else (1 if m > 10.0 else 2)

    groups = [[c for c in cases if mclass(c) == k] for k in range(3)]
    if len(groups[1]) <= 12:        # a dozen medium cases among 16 workers stay below ~25 GB: one pool (quick tier)
        groups[2] += groups[1]
        groups[1] = []
    for group, nproc in zip(groups, (4, 8, 16)):
        group.sort(key=lambda c: -case_cost(c))         # longest first
        if group:
            run_cases(rep, group, eval_case, shrinkfn=shrink_case, known=known, nproc=min(nproc, len(group)))
    if replay is None:
        rep.dist["stat:ill_conditioned_list"] = sum(1 for c in cases if c["kind"] == "ill")
        rep.dist["stat:ill_contracted_list"] = sum(1 for c in cases if c["kind"] == "illc" and c.get("name", "").find("seeded") < 0)
        rep.dist["stat:cases_run_4_at_a_time"] = len(groups[0])
        rep.dist["stat:cases_run_8_at_a_time"] = len(groups[1])


def xcheck_cmds(seed):
    """small commands 20 / 21 re-evaluated inside Coq with vm_compute (validates extraction + driver glue).  Kept
    tiny: Qc arithmetic on the 72-bit oracle values is ~1000 x slower under vm_compute than extracted ((pp|sp) takes
    3 minutes), so: (sp|ss) (vertical step), (ss|sp) (electron-transfer + horizontal step), and a two-s-shell basis
    on one centre with a 1 x 2 transform in physicists' notation (assembly, eight-fold fill, lincomb4, swapax)."""
    rng = random.Random(770 + seed)
    F = Fraction

    def sh(l, coord=None):
        return XShell(l, coord or [F(rng.randint(-4, 4), 4) for _ in range(3)], [F(rng.randint(2, 12), 4)],
                      [[F(rng.randint(1, 4), 2)]], False)

    q1 = [sh(0), sh(1), sh(0), sh(0)]
    q2 = [q1[0], q1[2], q1[3], sh(1)]
    c = [F(rng.randint(-4, 4), 4) for _ in range(3)]
    b = [sh(0, c), sh(0, c)]
    T = [[F(1), F(rng.choice([-1, 1]), 2)]]
    return ["(20 %s)" % " ".join(s.sx() for s in q1),
            "(20 %s)" % " ".join(s.sx() for s in q2),
            "(21 (%s) %s 1)" % (" ".join(s.sx() for s in b), _t_sx(T))]
