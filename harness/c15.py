"""C15 — stress tensor, Ehrenfest force and Ehrenfest Hessian obey their definitions.

Three ties, every run:

1. pregen(): harness/trace_stress.py executes the CURRENT gbasis/evals/stress_tensor.py (+ density.py) on
   symbolic stand-ins and regenerates coq/Gen/StressTrace.v; the Coq build then proves
   (Proofs/StressTraceP.v, by computation) that every traced component equals the documented formula of
   Model/Stress.v, for symbolic alpha/beta and for each special-cased value.  Props/C15.v holds the
   theorems (force = -div stress, Hessian = Jacobian of the force, symmetries, ...).
2. The documented formulas are dumped from Coq (one coqc call on _work/c15_specdump.v: `Eval vm_compute`
   of Model/Stress.v's tables - the model needs no field arithmetic, so the extracted runner is not used)
   and evaluated numerically on symbols G(o1,o2) assembled from an INDEPENDENT evaluation of the basis
   function derivatives (below), then compared with the three public functions of /repo.
3. If the trace fails or the proof breaks, the same numeric search is what looks for a failing input.

Independent evaluator: d^n/dt^n [t^l exp(-a t^2)] = p_n(t) exp(-a t^2) with p_{n+1} = p_n' - 2 a t p_n,
polynomials and their values in exact rational arithmetic; exp(-a r^2), primitive and contraction
normalisation constants by mpmath from their closed forms (own code); only the Cartesian->spherical matrix
is taken from gbasis.spherical.generate_transformation (property C10 verifies it).  Products and the
bilinear assembly sum_ab P_ab phi^o1_a phi^o2_b are then done in float64; every value carries the sum of
the absolute values of its terms ("scale"), and the tolerance is 1e-8 * scale (+1e-280), so that rounding
in this assembly (<= 1e-13 * scale) and in the implementation is far inside it while a wrong coefficient,
index or sign is far outside.
"""
import ast
import itertools
import json
import math
import os
import random
import re
import subprocess
import sys
from fractions import Fraction

import mpmath
import numpy as np

import lib
from lib import XShell, gen_shell, shrink_shell_json

RULE = ("1-3 shells, l 0..3, K 1..3 primitives, M 1..3 generalized columns, each shell Cartesian or spherical "
        "independently, centres and points k/16 (some points on a centre or on a coordinate plane), exponents "
        "log-uniform 0.05..200 (8-bit mantissas), symmetric density matrix with entries k/8, optional rectangular "
        "transform with entries k/4, 1-20 points, alpha in {0, 1/2, 1 (int and float), random k/8 in [-2,3]}, beta in "
        "{0, random k/8}; the four public calls (stress, force, Hessian, Hessian symmetric=True) are compared "
        "elementwise with the documented formulas (dumped from Coq) evaluated on independently computed "
        "derivatives; a case is non-trivial when some shell has l>0 or K>1 or M>1 and the outputs are not all "
        "zero; distinct by hash of the exact input.  Every run also re-traces the source (240 components = 8 "
        "parameter cases x 30 outputs) and re-proves trace = documented formula in Coq.")
ASSUMPTIONS = [
    "floating-point rounding of the NumPy pipeline is not modelled; agreement is decided on the generated inputs "
    "with tolerance 1e-8 x (sum of absolute values of the terms)",
    "the Cartesian->spherical matrix used by the independent evaluator is gbasis' own (verified by C10); the "
    "values of the basis-function derivatives themselves are recomputed independently (C05 verifies "
    "evaluate_deriv_basis)",
    "trace translator (harness/trace_stress.py) is trusted to report the arithmetic the source performs: it "
    "replaces evaluate_deriv_basis, the density matrix and the module-level numpy of stress_tensor.py/density.py "
    "by symbols; a symbolic parameter answers `!=` with True, so the symbolic case is the branch taken by every "
    "value the code does not compare with (the compared constants must all be traced special values)",
    "the docstring of evaluate_ehrenfest_hessian opens with 'H_jk = - d/dr_k F_j' but its expanded formula (and "
    "the property text) is + d/dr_k F_j: the expanded formula is taken as the specification",
]
EXTRA = {}
TOL_REL = 1e-8
TOL_ABS = 1e-280

COQ = os.path.join(lib.VERIF, "coq")
GEN_V = os.path.join(COQ, "Gen", "StressTrace.v")
TRACE_JSON = os.path.join(lib.WORK, "c15_trace.json")


# ------------------------------------------------------------------------------------------------
# 1. trace translator hook (called by main.py before the Coq build)
# ------------------------------------------------------------------------------------------------
def pregen():
    os.makedirs(os.path.dirname(GEN_V), exist_ok=True)
    env = dict(os.environ)
    env["PYTHONPATH"] = lib.REPO
    p = subprocess.run([sys.executable, "-W", "ignore", os.path.join(lib.VERIF, "harness", "trace_stress.py"),
                        GEN_V, TRACE_JSON], env=env, capture_output=True, text=True, timeout=600)
    if p.returncode not in (0, 3):
        # the tracer itself crashed (not "source not understood"): still fail closed, then report
        sys.path.insert(0, os.path.join(lib.VERIF, "harness"))
        import trace_stress

        msg = "tracer crashed: " + (p.stderr or p.stdout)[-800:]
        with open(GEN_V, "w") as f:
            f.write(trace_stress.render_failed(msg))
        with open(TRACE_JSON, "w") as f:
            json.dump({"ok": False, "error": msg}, f)


# ------------------------------------------------------------------------------------------------
# 2. the documented formulas, dumped from Coq
# ------------------------------------------------------------------------------------------------
DUMP_V = """From Coq Require Import ZArith QArith Qcanon List.
From GB Require Import Gauss.Jets Model.Stress.
Import ListNotations.
Set Printing Width 200.
Eval vm_compute in (dump (tab2 stress_doc), dump (tab1 force_doc), dump (tab2 hess_doc), dump (tab2 hess_symm),
                    dump (tab1 force_def), dump (tab2 hess_def)).
"""
SPEC_NAMES = ("stress", "force", "hess", "hess_symm", "force_def", "hess_def")
_SPEC = None


def load_spec():
    """{name: [component: [((c1,ca,cb),(o1),(o2)), ...]]} with Fractions; symbolic in alpha, beta."""
    global _SPEC
    if _SPEC is not None:
        return _SPEC
    path = os.path.join(lib.WORK, "c15_specdump.v")
    with open(path, "w") as f:
        f.write(DUMP_V)
    p = subprocess.run(["timeout", "300", "coqc", "-Q", COQ, "GB", path], capture_output=True, text=True,
                       cwd=lib.WORK)
    if p.returncode != 0:
        raise RuntimeError("cannot dump the specification from Coq (Model/Stress.v not built?): "
                           + (p.stderr or p.stdout)[-800:])
    txt = p.stdout
    body = txt[txt.index("=") + 1: txt.rindex(":")]
    body = body.replace("%Z", "").replace(";", ",")
    if not re.fullmatch(r"[\s\d\[\]\(\),\-]*", body):
        raise RuntimeError("unexpected characters in the Coq dump")
    tup = ast.literal_eval(body.strip())
    if len(tup) != len(SPEC_NAMES):
        raise RuntimeError("unexpected dump arity")
    spec = {}
    for name, comps in zip(SPEC_NAMES, tup):
        out = []
        for comp in comps:
            terms = []
            for t in comp:
                if len(t) != 12:
                    raise RuntimeError("bad term in dump")
                c = (Fraction(t[0], t[1]), Fraction(t[2], t[3]), Fraction(t[4], t[5]))
                terms.append((c, tuple(t[6:9]), tuple(t[9:12])))
            out.append(terms)
        spec[name] = out
    if [len(spec[n]) for n in SPEC_NAMES] != [9, 3, 9, 9, 3, 9]:
        raise RuntimeError("unexpected number of components in the dump")
    _SPEC = spec
    return spec


def trace_vs_spec(spec):
    """Python-side diagnosis (the verdict is Coq's): which traced components differ from the spec."""
    if not os.path.exists(TRACE_JSON):
        return {"ok": False, "error": "no trace file"}, []
    with open(TRACE_JSON) as f:
        tr = json.load(f)
    if not tr.get("ok"):
        return tr, []
    bad = []
    for case in tr["cases"]:
        a = None if case["alpha"] is None else Fraction(case["alpha"])
        b = None if case["beta"] is None else Fraction(case["beta"])
        for name in ("stress", "force", "hess", "hess_symm"):
            for ci, (tcomp, scomp) in enumerate(zip(case[name], spec[name])):
                want = {}
                for (c, o1, o2) in scomp:
                    c1, ca, cb = c
                    if a is not None:
                        c1, ca = c1 + ca * a, Fraction(0)
                    if b is not None:
                        c1, cb = c1 + cb * b, Fraction(0)
                    k = (o1, o2) if o1 <= o2 else (o2, o1)
                    old = want.get(k, (0, 0, 0))
                    want[k] = (old[0] + c1, old[1] + ca, old[2] + cb)
                want = {k: v for k, v in want.items() if v != (0, 0, 0)}
                got = {(tuple(t[1]), tuple(t[2])): tuple(Fraction(x) for x in t[0]) for t in tcomp}
                if got != want:
                    diff = {str(k): {"traced": [str(x) for x in got.get(k, (0, 0, 0))],
                                     "documented": [str(x) for x in want.get(k, (0, 0, 0))]}
                            for k in set(got) | set(want) if got.get(k) != want.get(k)}
                    bad.append({"alpha": case["alpha"], "beta": case["beta"], "function": name, "component": ci,
                                "coefficients [1, alpha, beta] of G(o1,o2) that differ": diff})
    return tr, bad


# ------------------------------------------------------------------------------------------------
# independent evaluation of the basis-function derivatives
# ------------------------------------------------------------------------------------------------
def df2(n):
    """(2n-1)!!"""
    r = 1
    for k in range(1, n + 1):
        r *= 2 * k - 1
    return r


def cart_comps(l):
    """gbasis order of Cartesian components (contractions.py angmom_components_cart)."""
    return [(x, y, l - x - y) for x in range(l, -1, -1) for y in range(l - x, -1, -1)]


def poly_table(l, a, nmax):
    """p_n for n = 0..nmax: d^n/dt^n [t^l exp(-a t^2)] = p_n(t) exp(-a t^2); dict degree -> Fraction."""
    p = {l: Fraction(1)}
    out = [p]
    for _ in range(nmax):
        q = {}
        for d, c in p.items():
            if d > 0:
                q[d - 1] = q.get(d - 1, 0) + d * c
            q[d + 1] = q.get(d + 1, 0) - 2 * a * c
        p = q
        out.append(p)
    return out


def peval(p, t):
    v = Fraction(0)
    s = Fraction(0)
    at = abs(t)
    for d, c in p.items():
        v += c * t ** d
        s += abs(c) * at ** d
    return float(v), float(s)


NMAX = 4
ORDERS = [o for o in itertools.product(range(NMAX + 1), repeat=3) if sum(o) <= NMAX]
ORD_IDX = {o: i for i, o in enumerate(ORDERS)}


def shell_values(sh, pts):
    """(values, scales): arrays (n_orders, nfun_of_shell, N) for one shell (exact description `sh`)."""
    from gbasis.spherical import generate_transformation

    mp = mpmath.mp
    l, K, M = sh.l, len(sh.exps), len(sh.coeffs[0])
    comps = cart_comps(l)
    N = len(pts)
    # 1-D tables: tab[k][ax][lc][n][pt] = (value, scale) of p_n(t)
    onedv = np.zeros((K, 3, l + 1, NMAX + 1, N))
    oneds = np.zeros((K, 3, l + 1, NMAX + 1, N))
    gauss = np.zeros((K, N))
    for k, a in enumerate(sh.exps):
        for lc in range(l + 1):
            tab = poly_table(lc, a, NMAX)
            for ax in range(3):
                for ip, pt in enumerate(pts):
                    t = pt[ax] - sh.coord[ax]
                    for n in range(NMAX + 1):
                        onedv[k, ax, lc, n, ip], oneds[k, ax, lc, n, ip] = peval(tab[n], t)
        for ip, pt in enumerate(pts):
            r2 = sum((pt[ax] - sh.coord[ax]) ** 2 for ax in range(3))
            gauss[k, ip] = float(mp.exp(-lib.mpf_of(a * r2)))
    # normalisation constants from their closed forms
    nprim = np.zeros((K, len(comps)))
    for k, a in enumerate(sh.exps):
        am = lib.mpf_of(a)
        for ci, c in enumerate(comps):
            nprim[k, ci] = float((2 * am / mp.pi) ** (mp.mpf(3) / 4) * mp.sqrt((4 * am) ** l / (df2(c[0]) * df2(c[1]) * df2(c[2]))))
    ncont = np.zeros((M, len(comps)))
    for m in range(M):
        for ci, c in enumerate(comps):
            s = mp.mpf(0)
            for k1, a1 in enumerate(sh.exps):
                for k2, a2 in enumerate(sh.exps):
                    p = lib.mpf_of(a1 + a2)
                    integral = (mp.pi / p) ** (mp.mpf(3) / 2)
                    for ax in range(3):
                        integral *= df2(c[ax]) / (2 * p) ** c[ax]
                    s += (lib.mpf_of(sh.coeffs[k1][m]) * lib.mpf_of(sh.coeffs[k2][m])
                          * mp.mpf(nprim[k1, ci]) * mp.mpf(nprim[k2, ci]) * integral)
            ncont[m, ci] = float(1 / mp.sqrt(s))
    coef = np.array([[float(c) for c in row] for row in sh.coeffs])  # K x M
    vals = np.zeros((len(ORDERS), M, len(comps), N))
    scal = np.zeros((len(ORDERS), M, len(comps), N))
    for oi, o in enumerate(ORDERS):
        for ci, c in enumerate(comps):
            pv = np.ones((K, N))
            ps = np.ones((K, N))
            for ax in range(3):
                pv = pv * onedv[:, ax, c[ax], o[ax], :]
                ps = ps * oneds[:, ax, c[ax], o[ax], :]
            pv = pv * gauss * nprim[:, ci][:, None]
            ps = ps * gauss * nprim[:, ci][:, None]
            for m in range(M):
                vals[oi, m, ci] = ncont[m, ci] * np.sum(coef[:, m][:, None] * pv, axis=0)
                scal[oi, m, ci] = ncont[m, ci] * np.sum(np.abs(coef[:, m])[:, None] * ps, axis=0)
    probe = sh.to_gbasis()
    if [tuple(int(x) for x in r) for r in probe.angmom_components_cart] != comps:
        raise RuntimeError("unexpected Cartesian component order in gbasis")
    if sh.sph:
        tf = generate_transformation(l, probe.angmom_components_cart, probe.angmom_components_sph, "left")
        vals = np.einsum("sc,omcn->omsn", tf, vals)
        scal = np.einsum("sc,omcn->omsn", np.abs(tf), scal)
    nf = vals.shape[1] * vals.shape[2]
    return vals.reshape(len(ORDERS), nf, N), scal.reshape(len(ORDERS), nf, N)


def eval_spec(case):
    """Documented formulas on independently computed derivatives.
    Returns {name: (values, scales)} with arrays shaped like the implementation's outputs."""
    spec = load_spec()
    basis = [XShell.from_json(s) for s in case["basis"]]
    pts = [[Fraction(c) for c in p] for p in case["points"]]
    N = len(pts)
    parts = [shell_values(sh, pts) for sh in basis]
    phi = np.concatenate([p[0] for p in parts], axis=1)   # (orders, Kcont, N)
    sca = np.concatenate([p[1] for p in parts], axis=1)
    if case.get("transform") is not None:
        T = np.array([[float(Fraction(x)) for x in row] for row in case["transform"]])
        phi = np.einsum("ij,ojn->oin", T, phi)
        sca = np.einsum("ij,ojn->oin", np.abs(T), sca)
    P = np.array([[float(Fraction(x)) for x in row] for row in case["dm"]])
    al, be = float(Fraction(case["alpha"])), float(Fraction(case["beta"]))
    gcache = {}

    def G(o1, o2):
        k = (o1, o2)
        if k not in gcache:
            a, b = ORD_IDX[o1], ORD_IDX[o2]
            gcache[k] = (np.einsum("ab,an,bn->n", P, phi[a], phi[b]),
                         np.einsum("ab,an,bn->n", np.abs(P), sca[a], sca[b]))
        return gcache[k]

    out = {}
    for name in SPEC_NAMES:
        comps_v, comps_s = [], []
        for comp in spec[name]:
            v = np.zeros(N)
            s = np.zeros(N)
            for (c, o1, o2) in comp:
                cf = float(c[0]) + float(c[1]) * al + float(c[2]) * be
                cs = abs(float(c[0])) + abs(float(c[1]) * al) + abs(float(c[2]) * be)
                g, gs = G(o1, o2)
                v += cf * g
                s += cs * gs
            comps_v.append(v)
            comps_s.append(s)
        shape = (3,) if len(comps_v) == 3 else (3, 3)
        out[name] = (np.array(comps_v).T.reshape((N,) + shape), np.array(comps_s).T.reshape((N,) + shape))
    return out


# ------------------------------------------------------------------------------------------------
# comparison with the implementation
# ------------------------------------------------------------------------------------------------
def _param(txt, as_int):
    q = Fraction(txt)
    return int(q) if (as_int and q.denominator == 1) else float(q)


def eval_case(model, case):
    from gbasis.evals.stress_tensor import (evaluate_ehrenfest_force, evaluate_ehrenfest_hessian,
                                            evaluate_stress_tensor)

    basis = [XShell.from_json(s).to_gbasis() for s in case["basis"]]
    pts = np.array([[float(Fraction(c)) for c in p] for p in case["points"]])
    P = np.array([[float(Fraction(x)) for x in row] for row in case["dm"]])
    T = None if case.get("transform") is None else np.array(
        [[float(Fraction(x)) for x in row] for row in case["transform"]])
    al = _param(case["alpha"], case.get("int_params", False))
    be = _param(case["beta"], case.get("int_params", False))
    ref = eval_spec(case)
    calls = [("stress", "stress", evaluate_stress_tensor, {}),
             ("force", "force", evaluate_ehrenfest_force, {}),
             ("hess", "hess", evaluate_ehrenfest_hessian, {}),
             ("hess_symm", "hess_symm", evaluate_ehrenfest_hessian, {"symmetric": True}),
             ("force", "force_def", evaluate_ehrenfest_force, {}),
             ("hess", "hess_def", evaluate_ehrenfest_hessian, {})]
    tag = "n=%d %s%s a=%s b=%s" % (len(basis), "".join("s" if s["sph"] else "c" for s in case["basis"]),
                                  " T" if T is not None else "",
                                  case["alpha"] if Fraction(case["alpha"]) in (0, Fraction(1, 2), 1) else "*",
                                  "0" if Fraction(case["beta"]) == 0 else "*")
    done = {}
    nonzero = False
    for (fname, sname, fn, kw) in calls:
        if fname not in done:
            done[fname] = lib.call_impl(fn, P, basis, pts, alpha=al, beta=be, transform=T, **kw)
        st, impl = done[fname]
        if st != "ok":
            return {"detail": {"kind": "rejected", "call": fname, "impl": impl}, "tag": tag}
        val, sc = ref[sname]
        impl = np.asarray(impl)
        if impl.shape != val.shape:
            return {"detail": {"kind": "shape", "call": fname, "impl_shape": list(impl.shape),
                               "model_shape": list(val.shape)}, "tag": tag}
        if not np.all(np.isfinite(impl)):
            return {"detail": {"kind": "nonfinite", "call": fname}, "tag": tag}
        nonzero = nonzero or bool(np.any(impl != 0))
        tol = TOL_REL * sc + TOL_ABS
        ratio = np.abs(impl - val) / tol
        if ratio.max() > 1.0:
            idx = np.unravel_index(int(ratio.argmax()), ratio.shape)
            return {"detail": {"kind": "value", "call": fname + ("(symmetric=True)" if kw else ""),
                               "compared_with": {"stress": "documented sigma_ij", "force": "documented F_j",
                                                 "hess": "documented H_jk", "hess_symm": "(H_jk+H_kj)/2",
                                                 "force_def": "-sum_i d_i sigma_ij (formal divergence of the documented stress)",
                                                 "hess_def": "d_k F_j (formal derivative of the documented force)"}[sname],
                               "index [point, components]": [int(i) for i in idx],
                               "impl": repr(float(impl[idx])), "model": repr(float(val[idx])),
                               "abs_diff": float(abs(impl[idx] - val[idx])), "tol": float(tol[idx]),
                               "tol_rule": "1e-8 x sum of absolute values of the terms of the formula"},
                    "tag": tag}
    nontriv = nonzero and any(s["l"] > 0 or len(s["exps"]) > 1 or len(s["coeffs"][0]) > 1 for s in case["basis"])
    return {"detail": None, "nontrivial": bool(nontriv), "tag": tag}


# ------------------------------------------------------------------------------------------------
# generation, shrinking
# ------------------------------------------------------------------------------------------------
def nfun(sj):
    m = len(sj["coeffs"][0])
    return m * ((2 * sj["l"] + 1) if sj["sph"] else (sj["l"] + 1) * (sj["l"] + 2) // 2)


def gen_dm(rng, n):
    dm = [[Fraction(0)] * n for _ in range(n)]
    for i in range(n):
        for j in range(i, n):
            dm[i][j] = dm[j][i] = Fraction(rng.randint(-8, 8), 8)
    if all(x == 0 for r in dm for x in r):
        dm[0][0] = Fraction(1)
    return [[str(x) for x in r] for r in dm]


def gen_case(rng, idx, tier):
    nsh = 1 + idx % 3
    lmax = 3
    basis = []
    for s in range(nsh):
        l = (idx // 3 + s) % (lmax + 1) if s == 0 else rng.randint(0, lmax)
        sh = gen_shell(rng, l=l, kmax=3, mmax=3 if nsh < 3 else 2, exp_lo=0.05, exp_hi=200.0)
        if idx % 11 == 0:
            sh.sph = True
        if idx % 13 == 0:
            sh.sph = False
        basis.append(sh)
    bj = [s.to_json() for s in basis]
    ncont = sum(nfun(s) for s in bj)
    npts = [1, 2, 3, 5, 8, 13, 20][idx % 7] if tier == "thorough" else [1, 2, 3, 5, 20][idx % 5]
    pts = []
    for p in range(npts):
        r = rng.random()
        if r < 0.12:
            pt = list(basis[rng.randrange(nsh)].coord)           # on a centre
        elif r < 0.24:
            pt = [Fraction(rng.randint(-40, 40), 16) for _ in range(3)]
            pt[rng.randrange(3)] = Fraction(0)                   # on a coordinate plane
        else:
            pt = [Fraction(rng.randint(-40, 40), 16) for _ in range(3)]
        pts.append([str(c) for c in pt])
    transform = None
    norb = ncont
    if idx % 3 == 1:
        norb = max(1, min(ncont + 1, rng.randint(1, ncont + 1)))
        transform = [[str(Fraction(rng.randint(-4, 4), 4)) for _ in range(ncont)] for _ in range(norb)]
    specials_a = ["0", "1/2", "1"]
    amode = idx % 5
    alpha = specials_a[amode] if amode < 3 else str(Fraction(rng.randint(-16, 24), 8))
    if amode == 3 and Fraction(alpha) in (0, Fraction(1, 2), 1):
        alpha = "3/8"
    beta = "0" if (idx // 5) % 2 == 0 else str(Fraction(rng.choice([-12, -4, -1, 1, 2, 4, 8, 11]), 8))
    return {"basis": bj, "points": pts, "dm": gen_dm(rng, norb), "transform": transform,
            "alpha": alpha, "beta": beta, "int_params": bool(idx % 2)}


def gen_cases(tier, seed):
    rng = random.Random(1000003 * seed + 15)
    n = 60 if tier == "quick" else 600
    return [gen_case(rng, i, tier) for i in range(n)]


def _resize_dm(case, basis, transform):
    """density matrix / transform consistent with a changed basis: keep the leading block."""
    ncont = sum(nfun(s) for s in basis)
    c = dict(case)
    c["basis"] = basis
    if transform is not None:
        norb = len(transform)
        c["transform"] = [(row + ["0"] * ncont)[:ncont] for row in transform]
        if all(Fraction(x) == 0 for row in c["transform"] for x in row):
            c["transform"][0][0] = "1"
    else:
        norb = ncont
        c["transform"] = None
    dm = case["dm"]
    old = len(dm)
    c["dm"] = [[(dm[i][j] if i < old and j < old else ("1" if i == j else "0")) for j in range(norb)]
               for i in range(norb)]
    return c


def shrink_case(case):
    b = case["basis"]
    if len(b) > 1:
        for i in range(len(b)):
            yield _resize_dm(case, b[:i] + b[i + 1:], case["transform"])
    if case["transform"] is not None:
        yield _resize_dm(case, b, None)
    if len(case["points"]) > 1:
        for i in range(len(case["points"])):
            c = dict(case)
            c["points"] = [case["points"][i]]
            yield c
    for i, sj in enumerate(b):
        for t in shrink_shell_json(sj):
            yield _resize_dm(case, b[:i] + [t] + b[i + 1:], case["transform"])
    n = len(case["dm"])
    if any(case["dm"][i][j] != ("1" if i == j else "0") for i in range(n) for j in range(n)):
        c = dict(case)
        c["dm"] = [["1" if i == j else "0" for j in range(n)] for i in range(n)]
        yield c
    for key, simple in (("beta", ["0", "1"]), ("alpha", ["1", "0", "1/2", "2"])):
        cur = simple.index(case[key]) if case[key] in simple else len(simple)
        for v in simple[:cur]:
            c = dict(case)
            c[key] = v
            yield c
    if any(x != "0" for p in case["points"] for x in p):
        for i, p in enumerate(case["points"]):
            for ax in range(3):
                if p[ax] != "0":
                    c = dict(case)
                    c["points"] = [list(q) for q in case["points"]]
                    c["points"][i][ax] = "0"
                    yield c


def _worker(case):
    try:
        return (case, eval_case(None, case), None)
    except Exception:  # noqa: BLE001
        import traceback

        return (case, None, traceback.format_exc()[-2000:])


def run_pool(rep, cases):
    """Like lib.run_cases but without the extracted-model co-process (not needed here, and the Coq
    build may be broken precisely when this search matters)."""
    import multiprocessing as mp

    load_spec()  # before forking
    if len(cases) < 4:
        results = [_worker(c) for c in cases]
    else:
        with mp.get_context("fork").Pool(min(16, len(cases))) as pool:
            results = list(pool.imap_unordered(_worker, cases, chunksize=1))
    results.sort(key=lambda r: json.dumps(r[0], sort_keys=True, default=str))
    for case, out, err in results:
        if err is not None:
            raise RuntimeError("harness error on case %s:\n%s" % (json.dumps(case, default=str)[:400], err))
        rep.count(case, nontrivial=out.get("nontrivial", True), tag=out.get("tag"))
        detail = out.get("detail")
        if detail is not None:
            if len(rep.violations) < 3:
                case, detail = lib.shrink(None, case, detail, eval_case, shrink_case, budget=120)
            if len(rep.violations) < 20:
                rep.violation(case, detail)


def run(rep, tier, seed, model, replay):
    spec = load_spec()
    trace, bad = trace_vs_spec(spec)
    EXTRA["trace"] = {"ok": bool(trace.get("ok")), "error": trace.get("error"),
                      "level": trace.get("level"), "note": trace.get("note"),
                      "parameter_cases": len(trace.get("cases", [])),
                      "components_traced": sum(len(c[k]) for c in trace.get("cases", [])
                                               for k in ("stress", "force", "hess", "hess_symm")),
                      "components_differing_from_documented": len(bad),
                      "generated_file": "coq/Gen/StressTrace.v", "checked_by": "Proofs/StressTraceP.v trace_matches_spec"}
    if replay is not None and replay.get("kind", "input") == "input":
        cases = [replay["case"]]
    else:
        cases = gen_cases(tier, seed)
        if (bad or not trace.get("ok")) and tier == "quick":
            cases += gen_cases("thorough", seed + 1)[:240]   # the proof is broken: search harder
    run_pool(rep, cases)
    if (bad or not trace.get("ok")) and not rep.violations:
        rep.violation({"translator": "coq/Gen/StressTrace.v", "theorem": "StressTraceP.trace_matches_spec"},
                      {"trace_error": trace.get("error"), "differing_components": bad[:12],
                       "note": "the formula found in the current source is not the documented one (or the source "
                               "could not be interpreted); the numeric search found no failing input"},
                      kind="translator")
