"""C08 — momentum and angular-momentum integrals exact and Hermitian.
Correspondence: MomentumIntegral / AngularMomentumIntegral construct_array_contraction and the public
momentum_integral / angular_momentum_integral vs the exact Coq model (commands 10-13; the model carries the real
matrix R of the value -i R and assembles it Hermitian, as the property demands). Additionally every returned
component is checked to be purely imaginary and antisymmetric (Hermitian) for every ordering of the shells.
Stream "hp": both construct_array_contraction routines (differential-operator and moment recursions, norm_prim_cart,
contraction, the factor -1j) replayed in 260-bit arithmetic on object arrays (harness/hpnum.py) and compared with
commands 10 / 12 at 1e-18 x sum|primitive terms|; the real part of the replay must vanish to the same tolerance."""
import itertools
import random

import numpy as np

import hpnum
import twoindex
from lib import XShell, call_impl, run_cases

RULE = ("block level: (l_a, l_b) in 0..4 x 0..4 enumerated for both operators; basis level 1-4 shells, cart/sph/mixed, "
        "with/without transform, plus every ordering of 2-3 shells; tolerance 1e-8 of max(1, largest element); "
        "Hermiticity: |M + M^T| (imaginary part) and |real part| below the same tolerance; distinct by input hash; "
        "hp stream: per operator 5 (quick) / 50 (thorough) shell pairs l<=2 / l<=4, K,M<=2, replayed at 260 bits, "
        "tolerance 1e-18 x sum|primitive terms|")
RULE += " HISTORY stream (the returned value depends only on the arguments): basis-level shells carry the atom index (icenter; shells sharing a centre share it); every 2nd generated basis (quick; every 4th thorough; with a transform only bases of 1-2 shells) and every 5th same-centre pair is a GEOMETRY SCAN evaluated in one process: the same shells (exponents, coefficients, types, icenter) with the atoms displaced rigidly by k/16 bohr (one atom, or every atom by its own vector) at 1-2 further geometries, then the first geometry again; every call is compared with the exact model at its own geometry with the same tolerance (detail kind \"history\", the replay case contains the geometries; shrinking and replay evaluate every candidate sequence in a fresh process)"
ASSUMPTIONS = ["rounding of the NumPy pipeline is not modelled: exactness is decided to 1e-8 on the generated inputs"]


def mk_kernel(op):
    if op == "momentum":
        bc, ic = 10, 11

        def ib(case, ga, gb):
            from gbasis.integrals.momentum import MomentumIntegral
            return MomentumIntegral.construct_array_contraction(ga, gb)

        def ii(case, gbasis, T):
            from gbasis.integrals.momentum import momentum_integral
            return momentum_integral(gbasis, transform=T)
    else:
        bc, ic = 12, 13

        def ib(case, ga, gb):
            from gbasis.integrals.angular_momentum import AngularMomentumIntegral
            return AngularMomentumIntegral.construct_array_contraction(ga, gb)

        def ii(case, gbasis, T):
            from gbasis.integrals.angular_momentum import angular_momentum_integral
            return angular_momentum_integral(gbasis, transform=T)

    def tol(model, case, res, level, *args):
        arr = np.array(res, dtype=object)
        scale = max(1.0, max((abs(float(x)) for x in arr.flat), default=1.0))
        return 1e-8 * scale, None

    def hp_block(case, ha, hb):
        return ib(case, ha, hb)

    def extra_check(case, impl, res, level):
        impl = np.asarray(impl)
        arr = np.array(res, dtype=object)
        scale = max(1.0, max((abs(float(x)) for x in arr.flat), default=1.0))
        if np.abs(impl.real).max() > 1e-8 * scale:
            return {"kind": "not-imaginary", "max_real": float(np.abs(impl.real).max())}
        if level == "basis":
            for c in range(3):
                M = impl[:, :, c]
                dev = np.abs(M - M.conj().T).max()
                if dev > 1e-8 * scale:
                    i = np.unravel_index(np.argmax(np.abs(M - M.conj().T)), M.shape)
                    return {"kind": "not-hermitian", "component": c, "index": list(map(int, i)),
                            "M_ij": repr(complex(M[i])), "M_ji": repr(complex(M[i[1], i[0]])), "dev": float(dev)}
        return None

    return dict(name=op,
                block_cmd=lambda case, sa, sb: "(%d %s %s)" % (bc, sa.sx(), sb.sx()),
                int_cmd=lambda case, basis, T: "(%d %s %s)" % (ic, twoindex.basis_sx(basis), twoindex.t_sx(T)),
                impl_block=ib, impl_int=ii, post=lambda a: -np.asarray(a).imag, tol=tol, extra_check=extra_check,
                hp_block=hp_block, hp_post=hpnum.minus_imag)


EVALS = {op: twoindex.make_eval(mk_kernel(op)) for op in ("momentum", "angmom")}


def eval_case(model, case):
    return EVALS[case["op"]](model, case)


def known(case, detail):
    return None


def gen_cases(tier, seed):
    cases = []
    for k, op in enumerate(("momentum", "angmom")):
        for c in twoindex.hp_cases(tier, seed, salt=80 + k, n_quick=5, n_thorough=50):
            c["op"] = op
            cases.append(c)
    for k, op in enumerate(("momentum", "angmom")):
        cs = twoindex.gen_cases(tier, seed, salt=80 + k, lmax_block=4, lmax_basis=3,
                                nb_quick=30, nb_thorough=200, block_reps_thorough=3)
        for c in cs:
            c["op"] = op
        cases += cs
    # every ordering of 2-3 shells
    rng = random.Random(1000003 * seed + 88)
    from lib import gen_shell
    nperm = 2 if tier == "quick" else 8
    for _ in range(nperm):
        for n in (2, 3):
            from lib import gen_basis
            basis = gen_basis(rng, n, lmax=2, kmax=2, mmax=2)
            for perm in itertools.permutations(range(n)):
                for op in ("momentum", "angmom"):
                    cases.append({"kind": "basis", "op": op, "T": None,
                                  "basis": [basis[i].to_json() for i in perm]})
    return cases


def run(rep, tier, seed, model, replay):
    cases = [replay["case"]] if replay is not None else gen_cases(tier, seed)
    run_cases(rep, cases, eval_case, shrinkfn=twoindex.shrink_case, known=known, isolate=True)
