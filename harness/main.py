"""Entry point: ./check <ID> [--tier quick|thorough] [--replay file]"""
import argparse
import importlib
import json
import os
import sys
import traceback

sys.path.insert(0, os.path.dirname(os.path.abspath(__file__)))
import coqaudit  # noqa: E402
import lib  # noqa: E402


def main():
    ap = argparse.ArgumentParser()
    ap.add_argument("pid")
    ap.add_argument("--tier", default=os.environ.get("VERIF_TIER", "quick"))
    ap.add_argument("--replay", default=None)
    args = ap.parse_args()
    pid = args.pid.upper()
    tier = args.tier if args.tier in ("quick", "thorough") else "quick"
    seed = int(os.environ.get("VERIF_SEED", "0") or 0)
    rep = lib.Report(pid, tier, seed)

    ok, log = coqaudit.build()
    proof = coqaudit.audit(pid) if ok else {
        "obligations": 1, "discharged": 0, "theorems": [], "axioms": [],
        "broken": ["build failed: " + log[-1500:]], "checker_cmd": "/verif/build.sh", "trusted_base": coqaudit.TRUSTED_BASE}
    mod = importlib.import_module(pid.lower())
    model = None
    try:
        if ok:
            model = lib.ModelProc()
        replay = None
        if args.replay:
            with open(args.replay) as f:
                replay = json.load(f)
        mod.run(rep, tier, seed, model, replay)
    except Exception:  # noqa: BLE001  a crash of the harness is not a verdict: fail loudly
        traceback.print_exc()
        print("HARNESS-ERROR property=%s" % pid)
        if model:
            model.close()
        sys.exit(2)
    if model:
        model.close()
    # the same commands evaluated by the extracted OCaml runner and inside Coq (vm_compute)
    xc = getattr(mod, "xcheck_cmds", None)
    extra = dict(getattr(mod, "EXTRA", None) or {})
    if ok and xc is not None and replay is None:
        n, bad = lib.coq_crosscheck(pid, xc(seed))
        extra["extraction_crosscheck"] = {"commands": n, "mismatches": len(bad)}
        if bad:
            rep.violation({"crosscheck": bad[:3]}, {"note": "extracted runner and vm_compute disagree"},
                          kind="extraction-crosscheck")
    if proof["broken"] and not rep.violations:
        rep.violation({"proof": proof["broken"]}, {"theorems": proof["theorems"], "note":
                      "a proof obligation / the build no longer checks; the numeric search found no failing input"},
                      kind="proof-obligation")
    rc = rep.finish(proof, getattr(mod, "RULE", ""), extra=extra,
                    assumptions=getattr(mod, "ASSUMPTIONS", []))
    sys.exit(rc)


if __name__ == "__main__":
    main()
