"""Entry point: ./check <ID> [--tier quick|thorough] [--replay file]"""
import argparse
import importlib
import json
import os
import sys
import traceback

sys.path.insert(0, os.path.dirname(os.path.abspath(__file__)))
import coqaudit  # noqa: E402
import lib  # noqa: E402


def main():
    ap = argparse.ArgumentParser()
    ap.add_argument("pid")
    ap.add_argument("--tier", default=os.environ.get("VERIF_TIER", "quick"))
    ap.add_argument("--replay", default=None)
    args = ap.parse_args()
    pid = args.pid.upper()
    tier = args.tier if args.tier in ("quick", "thorough") else "quick"
    seed = int(os.environ.get("VERIF_SEED", "0") or 0)
    rep = lib.Report(pid, tier, seed)

    mod = importlib.import_module(pid.lower())
    # Hook: a property module may regenerate Coq sources from the working tree (trace translator /
    # table extractor, coq/Gen/*.v) BEFORE the build.  pregen() must write a file that fails to check
    # (never a stale or default one) when it cannot interpret the source, and must not raise for that.
    pregen_err = None
    if hasattr(mod, "pregen"):
        try:
            pregen_err = mod.pregen()   # None, or a description of why the translator failed (fail-closed)
        except Exception:  # noqa: BLE001
            traceback.print_exc()
            print("HARNESS-ERROR property=%s (pregen)" % pid)
            sys.exit(2)
    ok, log = coqaudit.build()
    if ok:
        proof = coqaudit.audit(pid)
    else:
        # build.sh keeps going (make -k): a file that belongs to another property may be what failed.
        # Props/<pid>.v compiles only if every one of its dependencies was rebuilt from the current
        # sources (failed targets are deleted), so a clean audit means this property's proofs stand.
        proof = coqaudit.audit(pid)
        if proof["broken"] or not os.path.exists(os.path.join(coqaudit.VERIF, "ocaml", "driver")) \
                or not coqaudit.extraction_current():
            proof["broken"] = ["build failed: " + log[-1500:]] + proof["broken"]
            proof["discharged"] = 0
        else:
            ok = True
            rep.notes.append("another part of the Coq build failed; this property's files and the extraction built")
    if pregen_err:
        proof["broken"].insert(0, "translator: " + str(pregen_err))
        proof["discharged"] = min(proof["discharged"], max(0, proof["obligations"] - 1))
    model = None
    try:
        if ok:
            model = lib.ModelProc()
        replay = None
        if args.replay:
            with open(args.replay) as f:
                replay = json.load(f)
        mod.run(rep, tier, seed, model, replay)
    except Exception:  # noqa: BLE001  a crash of the harness is not a verdict: fail loudly
        traceback.print_exc()
        print("HARNESS-ERROR property=%s" % pid)
        if model:
            model.close()
        sys.exit(2)
    if model:
        model.close()
    # the same commands evaluated by the extracted OCaml runner and inside Coq (vm_compute)
    xc = getattr(mod, "xcheck_cmds", None)
    extra = dict(getattr(mod, "EXTRA", None) or {})
    if ok and xc is not None and replay is None:
        n, bad = lib.coq_crosscheck(pid, xc(seed))
        extra["extraction_crosscheck"] = {"commands": n, "mismatches": len(bad)}
        if bad:
            rep.violation({"crosscheck": bad[:3]}, {"note": "extracted runner and vm_compute disagree"},
                          kind="extraction-crosscheck")
    if tier == "thorough" and ok and replay is None and not os.environ.get("VERIF_NO_COQCHK"):
        chk = coqaudit.coqchk(pid)
        extra["coqchk"] = chk
        if not chk.get("ok"):
            proof["broken"].append("coqchk did not accept the compiled Props files: " + str(chk)[:800])
            proof["discharged"] = min(proof["discharged"], max(0, proof["obligations"] - 1))
    if proof["broken"] and not rep.violations:
        rep.violation({"proof": proof["broken"]}, {"theorems": proof["theorems"], "note":
                      "a proof obligation / the build no longer checks; the numeric search found no failing input"},
                      kind="translator" if pregen_err else "proof-obligation")
    rc = rep.finish(proof, getattr(mod, "RULE", ""), extra=extra,
                    assumptions=getattr(mod, "ASSUMPTIONS", []))
    sys.exit(rc)


if __name__ == "__main__":
    main()
