"""Entry point: ./check <ID> [--tier quick|thorough] [--replay file]"""
import argparse
import importlib
import json
import os
import sys
import traceback

sys.path.insert(0, os.path.dirname(os.path.abspath(__file__)))
import coqaudit  # noqa: E402
import lib  # noqa: E402


def main():
    ap = argparse.ArgumentParser()
    ap.add_argument("pid")
    ap.add_argument("--tier", default=os.environ.get("VERIF_TIER", "quick"))
    ap.add_argument("--replay", default=None)
    args = ap.parse_args()
    pid = args.pid.upper()
    tier = args.tier if args.tier in ("quick", "thorough") else "quick"
    seed = int(os.environ.get("VERIF_SEED", "0") or 0)
    rep = lib.Report(pid, tier, seed)

    mod = importlib.import_module(pid.lower())
    # optional hook: a property module may regenerate Coq sources (coq/Gen/*.v) from the tree under test
    # BEFORE the build; it returns None or a description of why the translator failed (fail-closed)
    pregen_err = None
    if hasattr(mod, "pregen"):
        try:
            pregen_err = mod.pregen()
        except Exception:  # noqa: BLE001
            pregen_err = "pregen crashed: " + traceback.format_exc()[-1500:]
    ok, log = coqaudit.build()
    if not ok and coqaudit.target_uptodate(pid):
        ok = True   # the build failed in files this property does not depend on (another property's obligation)
    proof = coqaudit.audit(pid) if ok else {
        "obligations": 1, "discharged": 0, "theorems": [], "axioms": [],
        "broken": ["build failed: " + log[-1500:]], "checker_cmd": "/verif/build.sh", "trusted_base": coqaudit.TRUSTED_BASE}
    if pregen_err:
        proof["broken"].insert(0, "translator: " + pregen_err)
        proof["discharged"] = min(proof["discharged"], max(0, proof["obligations"] - 1))
    model = None
    try:
        if ok:
            model = lib.ModelProc()
        replay = None
        if args.replay:
            with open(args.replay) as f:
                replay = json.load(f)
        mod.run(rep, tier, seed, model, replay)
    except Exception:  # noqa: BLE001  a crash of the harness is not a verdict: fail loudly
        traceback.print_exc()
        print("HARNESS-ERROR property=%s" % pid)
        if model:
            model.close()
        sys.exit(2)
    if model:
        model.close()
    if proof["broken"] and not rep.violations:
        rep.violation({"proof": proof["broken"]}, {"theorems": proof["theorems"], "note":
                      "a proof obligation / the build no longer checks; the numeric search found no failing input"},
                      kind="translator" if pregen_err else "proof-obligation")
    rc = rep.finish(proof, getattr(mod, "RULE", ""), extra=getattr(mod, "EXTRA", None),
                    assumptions=getattr(mod, "ASSUMPTIONS", []))
    sys.exit(rc)


if __name__ == "__main__":
    main()
