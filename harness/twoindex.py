"""Shared correspondence code for the two-index (shell-pair) integral properties C02, C07, C08, C03.

A kernel is described by a dict:
  name, block_cmd(case, sa, sb) -> model command string, int_cmd(case, basis, T) -> command string,
  impl_block(case, ga, gb) -> ndarray, impl_int(case, gbasis, T) -> ndarray,
  post(impl_array) -> real ndarray to compare with the model (e.g. -imag for momentum type),
  tol(case, model_nested, level) -> (tol_abs or None, tol_fn or None), extra_check(case, impl, model) -> detail|None
  hp_block(case, ha, hb) -> object ndarray (optional: the block routine replayed on HP shells, cases with "hp": 1;
  hp_seg(case) -> the two axes of the block that index the segments (default (0, 2)); hp_post / hp_floor: see
  hpnum.compare_hp)

History streams (hidden state / "the value depends only on the arguments"): basis-level shells are built WITH the atom
index (icenter); a basis-level case may carry case["hist"] = further geometries (per-shell centres): the same shells are
then evaluated, in the same process, at every geometry in turn and at the first geometry again, each call against the
exact model at that geometry (add_history, run_history, shrink_history; detail kind "history").
"""
import itertools
import os
import random
from fractions import Fraction

import numpy as np

from lib import XShell, call_impl, compare, gen_shell, shrink_shell_json, sx


def basis_sx(basis):
    return "(%s)" % " ".join(s.sx() for s in basis)


def t_sx(T):
    return "()" if T is None else "(%s)" % sx(T)


def gen_transform(rng, nrows, ncols):
    """Mostly dense dyadic matrices; one in four is a structured matrix for which an implementation might take a
    shortcut: a (signed) permutation / selection matrix with entries 0, +1, -1 (rows distinct unit vectors when
    nrows <= ncols), or the identity."""
    r = rng.random()
    if r < 0.25 and nrows <= ncols:
        cols = rng.sample(range(ncols), nrows) if r >= 0.05 else list(range(nrows))
        signed = r >= 0.12
        T = [[Fraction(0)] * ncols for _ in range(nrows)]
        for i, c in enumerate(cols):
            T[i][c] = Fraction(rng.choice([-1, 1]) if signed else 1)
        return T
    return [[Fraction(rng.randint(-8, 8), 8) for _ in range(ncols)] for _ in range(nrows)]


# ----------------------------------------------------------------------------------------------
# history streams (geometry scans): sequences of calls inside ONE case, in ONE process
# ----------------------------------------------------------------------------------------------
def case_geometries(case):
    """the geometries of a basis-level case: [first geometry] + case["hist"], each a list of per-shell centres"""
    g0 = [[Fraction(x) for x in s["coord"]] for s in case["basis"]]
    return [g0] + [[[Fraction(x) for x in c] for c in g] for g in (case.get("hist") or [])]


def atom_ids(geoms):
    """per-shell atom index: shells that share their centre in EVERY geometry of the sequence are one atom (numbered
    in order of first appearance, as gbasis.parsers.make_contractions numbers the atoms of a molecule)"""
    keys, ids = [], []
    for i in range(len(geoms[0])):
        k = tuple(tuple(g[i]) for g in geoms)
        if k not in keys:
            keys.append(k)
        ids.append(keys.index(k))
    return ids


def add_history(rng, case, ngeo):
    """Append a geometry scan to a basis-level case: `ngeo` further geometries in which the atoms (shells sharing a
    centre move together) are displaced rigidly, atom by atom, by k/16 bohr per axis (one atom only, or every atom
    by its own vector); exponents, coefficients, types and atom indices stay the same.  Every coordinate stays a
    double (full-mantissa centres are rounded after the shift)."""
    g0 = [[Fraction(x) for x in s["coord"]] for s in case["basis"]]
    atoms = []
    for c in g0:
        if c not in atoms:
            atoms.append(c)
    hist = []
    for _ in range(ngeo):
        movers = list(range(len(atoms)))
        if len(atoms) > 1 and rng.random() < 0.5:
            movers = [rng.randrange(len(atoms))]
        new = []
        for ia, c in enumerate(atoms):
            if ia not in movers:
                new.append(list(c))
                continue
            d = [0, 0, 0]
            while d == [0, 0, 0]:
                d = [rng.randint(-24, 24) for _ in range(3)]
            new.append([Fraction(float(x + Fraction(k, 16))) for x, k in zip(c, d)])
        hist.append([[str(x) for x in new[atoms.index(c)]] for c in g0])
    case["hist"] = hist
    return case


def cost_proxy(case):
    """rough size of the exact model's work on a basis-level case: sum over shell pairs of Ka Kb Ma Mb (la+lb+1)^3"""
    b = case["basis"]
    return sum(len(x["exps"]) * len(y["exps"]) * len(x["coeffs"][0]) * len(y["coeffs"][0]) * (x["l"] + y["l"] + 1) ** 3
               for i, x in enumerate(b) for y in b[i:])


HISTORY_NOTE = ("sequence of calls in one process: the same shells (exponents, coefficients, types, atom indices "
                "icenter) at the geometries of case['hist'] in turn, then the first geometry again; every call is "
                "compared with the exact model AT ITS OWN geometry")


def run_history(case, basis0, eval_at):
    """The further calls of a history case.  eval_at(shells, ids, step, repeat) -> detail | None evaluates the
    implementation on `shells` carrying the atom indices `ids` (repeat = the first geometry again: the model value of
    the first call is reused).  Returns (detail of kind 'history' | None, stats)."""
    hist = case.get("hist")
    if not hist:
        return None, {}
    geoms = case_geometries(case)
    ids = atom_ids(geoms)
    ncalls = len(geoms) + 1
    stats = {"history-sequences": 1, "history-calls": 0,
             "history-sequences-with-2+-atoms": 1 if len(set(ids)) > 1 else 0}
    for step, g in enumerate(geoms[1:] + [geoms[0]], start=1):
        repeat = step == len(geoms)
        shells = [s.moved(c) for s, c in zip(basis0, g)]
        d = eval_at(shells, ids, step, repeat)
        stats["history-calls"] += 1
        if d is not None:
            return {"kind": "history", "call": step + 1, "calls": ncalls,
                    "what": ("the first geometry again, after %d other geometries" % (len(geoms) - 1)) if repeat
                    else "geometry %d of the scan" % step,
                    "geometry": [[str(x) for x in c] for c in g], "icenter": ids, "failure": d,
                    "note": HISTORY_NOTE}, stats
    return None, stats


class _Memo:
    """the model co-process with the answers of this case remembered (the exact model is a function of the command)"""

    def __init__(self, model):
        self.model, self.memo = model, {}

    def call(self, cmd):
        if cmd not in self.memo:
            self.memo[cmd] = self.model.call(cmd)
        return self.memo[cmd]


def make_eval(kernel):
    def eval_case(model, case):
        kind = case["kind"]
        if kind == "block" and case.get("hp"):
            # high-precision replay of the block routine on object arrays (harness/hpnum.py): kernel["hp_block"]
            import hpnum
            sa, sb = XShell.from_json(case["a"]), XShell.from_json(case["b"])
            return hpnum.eval_pair(model, case, kernel["block_cmd"](case, sa, sb),
                                   lambda ha, hb: kernel["hp_block"](case, ha, hb), kernel["name"],
                                   seg_axes=kernel["hp_seg"](case) if "hp_seg" in kernel else (0, 2),
                                   post=kernel.get("hp_post"), floor_rel=kernel.get("hp_floor", 1e-3))
        if kind == "block":
            sa, sb = XShell.from_json(case["a"]), XShell.from_json(case["b"])
            res = model.call(kernel["block_cmd"](case, sa, sb))
            st, impl = call_impl(kernel["impl_block"], case, sa.to_gbasis(), sb.to_gbasis())
            tag = "%s block l=%d,%d" % (kernel["name"], sa.l, sb.l)
            if st != "ok":
                return {"detail": {"kind": "rejected", "impl": impl}, "tag": tag}
            implr = kernel["post"](impl)
            ta, tf = kernel["tol"](model, case, res, "block", sa, sb)
            d = compare(implr, res, tol_abs=ta, tol_fn=tf)
            if d is None and kernel.get("extra_check"):
                d = kernel["extra_check"](case, impl, res, "block")
            nontriv = bool(np.any(implr != 0)) and (sa.l + sb.l > 0 or len(sa.exps) > 1 or len(sb.exps) > 1)
            return {"detail": d, "nontrivial": nontriv, "tag": tag}
        if kind == "basis":
            model = _Memo(model)       # a tolerance rule may ask for the very command that is being compared
            basis0 = [XShell.from_json(s) for s in case["basis"]]
            T = case.get("T")
            Tq = None if T is None else [[Fraction(x) for x in row] for row in T]
            Tf = None if Tq is None else np.array([[float(x) for x in row] for row in Tq])
            # basis-level shells carry the atom index (icenter), shells sharing a centre share it
            ids = atom_ids(case_geometries(case))
            types = "".join("s" if s.sph else "c" for s in basis0)
            tag = "%s basis n=%d %s%s%s" % (kernel["name"], len(basis0), types, " T" if T is not None else "",
                                            " hist" if case.get("hist") else "")
            first = {}

            def one(basis, step=0, repeat=False):
                """one call of the public function on `basis`, compared with the model at that geometry"""
                cse = case if step == 0 else dict(case, basis=[s.to_json() for s in basis], hist=None)
                res = first["res"] if repeat else model.call(kernel["int_cmd"](cse, basis, Tq))
                st, impl = call_impl(kernel["impl_int"], cse, [s.to_gbasis(icenter=a) for s, a in zip(basis, ids)], Tf)
                if st != "ok":
                    return {"kind": "rejected", "impl": impl}
                implr = kernel["post"](impl)
                ta, tf = first["tol"] if repeat else kernel["tol"](model, cse, res, "basis", basis, Tq)
                if step == 0:
                    first.update(res=res, tol=(ta, tf), implr=np.array(implr, copy=True))
                d = compare(implr, res, tol_abs=ta, tol_fn=tf)
                if d is None and kernel.get("extra_check"):
                    d = kernel["extra_check"](cse, impl, res, "basis")
                if repeat and d is None:
                    first["bit-identical"] = bool(np.array_equal(np.asarray(implr), first["implr"]))
                return d

            d = one(basis0)
            if d is not None:
                return {"detail": d, "nontrivial": True, "tag": tag}
            d, stats = run_history(case, basis0, lambda shells, _ids, step, repeat: one(shells, step, repeat))
            if "bit-identical" in first:
                stats["history-repeat-bit-identical"] = 1 if first["bit-identical"] else 0
            return {"detail": d, "nontrivial": True, "tag": tag, "stats": stats}
        raise ValueError(kind)

    return eval_case


def shrink_history(case):
    """simpler history: one geometry of the scan less (a history case keeps >= 1 further geometry, i.e. >= 3 calls);
    no scan at all - a candidate that only a failure of the FIRST call survives (candidates are evaluated in fresh
    processes, lib.shrink_isolated)"""
    hist = case.get("hist")
    if not hist:
        return
    c = dict(case)
    c["hist"] = None
    yield c
    if len(hist) > 1:
        for i in range(len(hist)):
            c = dict(case)
            c["hist"] = hist[:i] + hist[i + 1:]
            yield c


def shrink_case(case):
    kind = case["kind"]
    if kind == "block":
        for key in ("a", "b"):
            for t in shrink_shell_json(case[key]):
                c = dict(case)
                c[key] = t
                yield c
    else:
        for c in shrink_history(case):
            yield c
        hist = case.get("hist") or None
        if case.get("T") is not None:
            c = dict(case)
            c["T"] = None
            yield c
        lst = case["basis"]
        if len(lst) > 1 and case.get("T") is None:
            for i in range(len(lst)):
                c = dict(case)
                c["basis"] = lst[:i] + lst[i + 1:]
                if hist:
                    c["hist"] = [g[:i] + g[i + 1:] for g in hist]
                yield c
        if case.get("T") is None:
            for i, sj in enumerate(lst):
                for t in shrink_shell_json(sj):
                    c = dict(case)
                    c["basis"] = lst[:i] + [t] + lst[i + 1:]
                    yield c
    for extra in case.get("_shrink_extra", []):
        yield extra


def full_mantissa(rng, sh, near=None):
    """Rewrite a generated shell with 53-bit exponents, coefficients and coordinates (the short dyadic inputs of the
    other streams make most double operations exact and would hide cancellation-sensitive rewrites); with `near`, put
    the centre a hair (1e-3 .. 1e-7 bohr) off that point."""
    sh.exps = [Fraction(float(e) * rng.uniform(0.75, 1.25)) for e in sh.exps]
    sh.coeffs = [[Fraction(float(c) * rng.uniform(0.75, 1.25)) for c in row] for row in sh.coeffs]
    if near is not None:
        w = 10.0 ** -rng.randint(3, 7)
        sh.coord = [Fraction(float(x) + rng.uniform(-w, w)) for x in near]
    else:
        sh.coord = [Fraction(float(x) + rng.uniform(-0.03, 0.03)) for x in sh.coord]
    return sh


def far_tight(rng, sa, sb):
    """A tight pair (exponents within a factor 4 of the cap of published sets for that l: 1e5 for s, 1e4 for p, ...)
    on nearly coincident centres, 100-150 bohr away (per axis) from the coordinate origin ("any centres"), full-mantissa
    coordinates: translation-invariant formulas are insensitive to this, algebraically identical rewrites through
    absolute coordinates (exp(p P^2 - a A^2 - b B^2), |r|^2 - 2 r.R + |R|^2) lose 7-9 digits here."""
    import math
    from lib import exp_cap
    for sh in (sa, sb):
        cap = float(exp_cap(sh.l))
        sh.exps = [Fraction(math.exp(rng.uniform(math.log(cap / 4), math.log(cap)))) for _ in sh.exps]
    t = [rng.choice([-1, 1]) * rng.uniform(100, 150) for _ in range(3)]
    w = 1.0 / float(min(min(sa.exps), min(sb.exps))) ** 0.5
    sa.coord = [Fraction(x) for x in t]
    sb.coord = [Fraction(x + rng.uniform(-w, w)) for x in t]
    return sa, sb


def hp_cases(tier, seed, salt, lmax_quick=2, lmax_thorough=4, n_quick=6, n_thorough=60, extra=None):
    """block cases of the high-precision replay stream ("hp": 1): small l and K, M <= 2 (object arithmetic is ~1000 x
    slower than double); see hpnum.gen_pairs for the geometries"""
    import hpnum
    if os.environ.get("VERIF_NO_HP"):        # timing comparisons only
        return []
    rng = random.Random(1000003 * seed + 7919 * salt + 13)
    quick = tier == "quick"
    out = []
    for sa, sb in hpnum.gen_pairs(rng, n_quick if quick else n_thorough, lmax_quick if quick else lmax_thorough):
        c = {"kind": "block", "hp": 1, "a": sa.to_json(), "b": sb.to_json()}
        if extra:
            c.update(extra(rng, "block", [sa, sb]))
        out.append(c)
    return out


def gen_cases(tier, seed, salt, lmax_block=5, lmax_basis=3, extra=None, nb_quick=40, nb_thorough=300,
              block_reps_thorough=4, with_T=True, exp_hi=None, kcap_big=None, lmax_pairs=None, hist_every=None):
    """Every (la, lb) pair at block level (K 1-4, M 1-3; coincident / collinear / far-apart-compact geometries);
    atom-structured bases of 1-4 shells with mixed types (and transforms).  HISTORY: every `hist_every`-th generated
    basis (default: every 2nd in quick, every 4th in thorough) and every 5th same-centre pair carries a geometry scan
    (add_history; 1-2 further geometries + the first one again), drawn from a PRNG of its own so that the first calls
    are the cases the check generated before the history streams existed."""
    from lib import gen_basis, gen_window_pair
    rng = random.Random(1000003 * seed + salt)
    hrng = random.Random(1000003 * seed + salt + 7919)
    if hist_every is None:
        hist_every = 2 if tier == "quick" else 4
    npair = 0
    cases = []
    # thorough tier: VERIF_THOROUGH_SCALE (default 3) multiplies the number of block repetitions and generated bases
    scale = max(1, int(os.environ.get("VERIF_THOROUGH_SCALE", "3") or 3))
    reps = 1 if tier == "quick" else block_reps_thorough * scale
    for rep_i in range(reps):
        for la, lb in itertools.product(range(lmax_block + 1), range(lmax_block + 1)):
            big = la + lb >= 7
            kmax = 3 if big else 4
            if kcap_big is not None and big:
                kmax = kcap_big
            mmax = 2 if big else 3
            r = rng.random()
            if r < 0.2:
                sa, sb = gen_window_pair(rng, la, lb)
            else:
                sa = gen_shell(rng, l=la, kmax=kmax, mmax=mmax, sph=False, exp_hi=exp_hi)
                sb = gen_shell(rng, l=lb, kmax=kmax, mmax=mmax, sph=False, exp_hi=exp_hi)
                if r < 0.32:
                    sb.coord = list(sa.coord)  # coincident centres
                elif r < 0.42:
                    sb.coord = [sa.coord[0], sa.coord[1], sb.coord[2]]  # same x, y
                elif r < 0.5:
                    sa.coord = [Fraction(0)] * 3
            r2 = rng.random()
            if r2 < 0.12:
                full_mantissa(rng, sa)
                full_mantissa(rng, sb)
            elif r2 < 0.18:
                full_mantissa(rng, sa)
                full_mantissa(rng, sb, near=sa.coord)      # nearly coincident centres
            c = {"kind": "block", "a": sa.to_json(), "b": sb.to_json()}
            if extra:
                c.update(extra(rng, "block", [sa, sb]))
            cases.append(c)
    # tight pairs far from the origin (8 in quick, 40 x scale in thorough), l <= 3
    for i in range(8 if tier == "quick" else 40 * scale):
        la, lb = rng.choice([0, 0, 0, 1, 1, 2]), rng.choice([0, 0, 0, 1, 1, 2])
        sa = gen_shell(rng, l=la, kmax=2, mmax=2, sph=False, exp_hi=exp_hi)
        sb = gen_shell(rng, l=lb, kmax=2, mmax=2, sph=False, exp_hi=exp_hi)
        far_tight(rng, sa, sb)
        c = {"kind": "block", "a": sa.to_json(), "b": sb.to_json()}
        if extra:
            c.update(extra(rng, "block", [sa, sb]))
        cases.append(c)
    # two DISTINCT centres 1e-4 .. 1e-7 bohr apart, tens of bohr from the origin (coordinates equal to a relative 1e-5):
    # anything that decides "same centre" with a relative tolerance treats them as one
    for i in range(4 if tier == "quick" else 16 * scale):
        la, lb = rng.choice([(0, 1), (1, 0), (1, 2), (2, 1), (0, 3), (1, 1)])
        la, lb = min(la, lmax_block), min(lb, lmax_block)
        sa = gen_shell(rng, l=la, kmax=2, mmax=2, sph=False, exp_hi=exp_hi)
        sb = gen_shell(rng, l=lb, kmax=2, mmax=2, sph=False, exp_hi=exp_hi)
        t = [rng.choice([-1, 1]) * rng.uniform(15, 60) for _ in range(3)]
        w = 10.0 ** -rng.randint(4, 7)
        sa.coord = [Fraction(x) for x in t]
        sb.coord = [Fraction(x + rng.choice([-1, 1]) * w * rng.uniform(0.5, 1.0)) for x in t]
        c = {"kind": "block", "a": sa.to_json(), "b": sb.to_json()}
        if extra:
            c.update(extra(rng, "block", [sa, sb]))
        cases.append(c)
    # enumerated: two shells on ONE (off-origin) centre, every (la, lb) and every type assignment
    if lmax_pairs is None:
        lmax_pairs = min(lmax_block, 4)
    for la, lb in itertools.product(range(lmax_pairs + 1), range(lmax_pairs + 1)):
        if tier == "quick" and (la + lb) % 2 == 1 and rng.random() < 0.5:
            continue
        centre = [Fraction(rng.randint(-24, 24), 16) for _ in range(3)]
        for ta, tb in ((False, False), (False, True), (True, False), (True, True)):
            if tier == "quick" and rng.random() < 0.5:
                continue
            sa = gen_shell(rng, l=la, kmax=2, mmax=2, sph=ta, exp_hi=exp_hi, coord=list(centre))
            sb = gen_shell(rng, l=lb, kmax=2, mmax=2, sph=tb, exp_hi=exp_hi, coord=list(centre))
            c = {"kind": "basis", "basis": [sa.to_json(), sb.to_json()], "T": None}
            if extra:
                c.update(extra(rng, "basis", [sa, sb]))
            npair += 1
            if hist_every and npair % 5 == 0:
                add_history(hrng, c, 1)
            cases.append(c)
    nb = nb_quick if tier == "quick" else nb_thorough * scale
    for i in range(nb):
        n = 1 + i % 4
        lm = lmax_basis if n <= 2 else min(lmax_basis, 3)
        basis = gen_basis(rng, n, lmax=lm, kmax=3 if n > 2 else 4, mmax=2 if n > 2 else 3, exp_hi=exp_hi)
        if i % 6 == 4:
            for sh in basis:
                full_mantissa(rng, sh)
        c = {"kind": "basis", "basis": [s.to_json() for s in basis], "T": None}
        if with_T and i % 3 == 2:
            nf = sum(s.nfun() for s in basis)
            nr = rng.choice([1, 2, nf, nf + 1])
            c["T"] = [[str(x) for x in row] for row in gen_transform(rng, nr, nf)]
        if extra:
            c.update(extra(rng, "basis", basis))
        # all of n = 1..4; with a transform only n <= 2 and one further geometry (the exact model of a transformed
        # 3-4 shell basis is the most expensive case of the quick tier: a scan of it would set the wall time)
        if hist_every and (i // 4 + i) % hist_every == 1 and (c["T"] is None or n <= 2):
            add_history(hrng, c, 1 if c["T"] is not None else 1 + (i // 3) % 2)
        cases.append(c)
    return cases
