"""Shared correspondence code for the two-index (shell-pair) integral properties C02, C07, C08, C03.

A kernel is described by a dict:
  name, block_cmd(case, sa, sb) -> model command string, int_cmd(case, basis, T) -> command string,
  impl_block(case, ga, gb) -> ndarray, impl_int(case, gbasis, T) -> ndarray,
  post(impl_array) -> real ndarray to compare with the model (e.g. -imag for momentum type),
  tol(case, model_nested, level) -> (tol_abs or None, tol_fn or None), extra_check(case, impl, model) -> detail|None
"""
import itertools
import random
from fractions import Fraction

import numpy as np

from lib import XShell, call_impl, compare, gen_shell, shrink_shell_json, sx


def basis_sx(basis):
    return "(%s)" % " ".join(s.sx() for s in basis)


def t_sx(T):
    return "()" if T is None else "(%s)" % sx(T)


def gen_transform(rng, nrows, ncols):
    return [[Fraction(rng.randint(-8, 8), 8) for _ in range(ncols)] for _ in range(nrows)]


def make_eval(kernel):
    def eval_case(model, case):
        kind = case["kind"]
        if kind == "block":
            sa, sb = XShell.from_json(case["a"]), XShell.from_json(case["b"])
            res = model.call(kernel["block_cmd"](case, sa, sb))
            st, impl = call_impl(kernel["impl_block"], case, sa.to_gbasis(), sb.to_gbasis())
            tag = "%s block l=%d,%d" % (kernel["name"], sa.l, sb.l)
            if st != "ok":
                return {"detail": {"kind": "rejected", "impl": impl}, "tag": tag}
            implr = kernel["post"](impl)
            ta, tf = kernel["tol"](model, case, res, "block", sa, sb)
            d = compare(implr, res, tol_abs=ta, tol_fn=tf)
            if d is None and kernel.get("extra_check"):
                d = kernel["extra_check"](case, impl, res, "block")
            nontriv = bool(np.any(implr != 0)) and (sa.l + sb.l > 0 or len(sa.exps) > 1 or len(sb.exps) > 1)
            return {"detail": d, "nontrivial": nontriv, "tag": tag}
        if kind == "basis":
            basis = [XShell.from_json(s) for s in case["basis"]]
            T = case.get("T")
            Tq = None if T is None else [[Fraction(x) for x in row] for row in T]
            res = model.call(kernel["int_cmd"](case, basis, Tq))
            Tf = None if Tq is None else np.array([[float(x) for x in row] for row in Tq])
            st, impl = call_impl(kernel["impl_int"], case, [s.to_gbasis() for s in basis], Tf)
            types = "".join("s" if s.sph else "c" for s in basis)
            tag = "%s basis n=%d %s%s" % (kernel["name"], len(basis), types, " T" if T is not None else "")
            if st != "ok":
                return {"detail": {"kind": "rejected", "impl": impl}, "tag": tag}
            implr = kernel["post"](impl)
            ta, tf = kernel["tol"](model, case, res, "basis", basis, Tq)
            d = compare(implr, res, tol_abs=ta, tol_fn=tf)
            if d is None and kernel.get("extra_check"):
                d = kernel["extra_check"](case, impl, res, "basis")
            return {"detail": d, "nontrivial": True, "tag": tag}
        raise ValueError(kind)

    return eval_case


def shrink_case(case):
    kind = case["kind"]
    if kind == "block":
        for key in ("a", "b"):
            for t in shrink_shell_json(case[key]):
                c = dict(case)
                c[key] = t
                yield c
    else:
        if case.get("T") is not None:
            c = dict(case)
            c["T"] = None
            yield c
        lst = case["basis"]
        if len(lst) > 1 and case.get("T") is None:
            for i in range(len(lst)):
                c = dict(case)
                c["basis"] = lst[:i] + lst[i + 1:]
                yield c
        if case.get("T") is None:
            for i, sj in enumerate(lst):
                for t in shrink_shell_json(sj):
                    c = dict(case)
                    c["basis"] = lst[:i] + [t] + lst[i + 1:]
                    yield c
    for extra in case.get("_shrink_extra", []):
        yield extra


def gen_cases(tier, seed, salt, lmax_block=5, lmax_basis=3, extra=None, nb_quick=12, nb_thorough=100,
              block_reps_thorough=3, with_T=True, exp_hi=None):
    """Every (la, lb) pair at block level; bases of 1-4 shells with mixed types (and transforms)."""
    rng = random.Random(1000003 * seed + salt)
    cases = []
    reps = 1 if tier == "quick" else block_reps_thorough
    for _ in range(reps):
        for la, lb in itertools.product(range(lmax_block + 1), range(lmax_block + 1)):
            big = la + lb >= 7
            kmax = (2 if big else 3) if tier == "quick" else (3 if big else 4)
            mmax = 2 if (tier == "quick" or big) else 3
            sa = gen_shell(rng, l=la, kmax=kmax, mmax=mmax, sph=False, exp_hi=exp_hi)
            sb = gen_shell(rng, l=lb, kmax=kmax, mmax=mmax, sph=False, exp_hi=exp_hi)
            r = rng.random()
            if r < 0.12:
                sb.coord = list(sa.coord)  # coincident centres
            elif r < 0.24:
                sb.coord = [sa.coord[0], sa.coord[1], sb.coord[2]]  # same x, y
            c = {"kind": "block", "a": sa.to_json(), "b": sb.to_json()}
            if extra:
                c.update(extra(rng, "block"))
            cases.append(c)
    nb = nb_quick if tier == "quick" else nb_thorough
    for i in range(nb):
        n = 1 + i % 4
        lm = lmax_basis if n <= 2 else min(lmax_basis, 2 if tier == "quick" else 3)
        basis = [gen_shell(rng, lmax=lm, kmax=3 if tier == "quick" else 4, mmax=2 if n > 2 else 3, exp_hi=exp_hi)
                 for _ in range(n)]
        if i % 5 == 0:
            for s in basis:
                s.sph = True
        if i % 7 == 0:
            for s in basis:
                s.sph = False
        c = {"kind": "basis", "basis": [s.to_json() for s in basis], "T": None}
        if with_T and i % 3 == 2:
            nf = sum(s.nfun() for s in basis)
            nr = rng.choice([1, 2, nf, nf + 1])
            c["T"] = [[str(x) for x in row] for row in gen_transform(rng, nr, nf)]
        if extra:
            c.update(extra(rng, "basis"))
        cases.append(c)
    return cases
