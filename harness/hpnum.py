"""High-precision replay of the recursion kernels of the working tree ("hp" streams of C01-C05, C07, C08).

WHY.  The ordinary correspondence streams run the public functions in double precision and compare with the exact
Coq model at the property's tolerance (1e-8 .. 1e-6 of a natural scale).  A formula change of relative size 1e-10,
or one hidden below float noise, is invisible there, and an algebraically identical but numerically unstable
rewrite cannot be told from a wrong formula.  Here the ACTUAL functions of `$GBASIS_REPO/gbasis` (the kernels
`integrals/_moment_int.py`, `_diff_operator_int.py`, `_one_elec_int.py`, `_two_elec_int.py`, `evals/_deriv.py`,
the property `GeneralizedContractionShell.norm_prim_cart` and the thin `construct_array_contraction` wrappers) are
executed unchanged on NumPy OBJECT arrays whose elements are `HP` numbers (mpmath, >= 200 bits ~ 60 digits), and
the result is compared with the exact model at 1e-18 relative to the sum of the absolute values of the primitive
terms of each element.  Rounding of the replay is ~1e-60 per operation, so a disagreement beyond 1e-18 cannot be
floating-point rounding: the implementation's FORMULA differs from the model's (detail kind "hp-formula").  Conversely an
unstable-but-identical rewrite passes this stream and fails only the float streams.

HOW.
 * `HP`        a number: wraps `mpmath.mpf` (or `mpc` after multiplication by a complex constant such as -1j).  All
               arithmetic dunders incl. reflected ones; floats / ints / Fractions met on the way are converted
               EXACTLY (every float is a dyadic rational: 0.5, 0.75, l/2 as exponents are exact); the methods NumPy's
               object ufunc loops call (`exp`, `sqrt`, `log`, `conjugate`, ..., further ones from mpmath by name);
               comparisons; `__float__` (refused while a replay is running: no silent fall-back to doubles).
 * `NPProxy`   stands in for the module-level name `np` of a gbasis module: every attribute is real NumPy's except
               `pi` (HP), the float-array constructors `zeros/ones/empty/full/zeros_like/ones_like` (object arrays of
               HP unless an integer/bool dtype is asked for), the transcendental ufuncs `sqrt/exp/log/power/abs`
               (numeric arrays such as the float result of `factorial2` are first promoted exactly to HP; HP
               scalars are handled), the predicates `isfinite/isnan/isinf`, and `sum/prod` (NumPy refuses a tuple of
               axes for object arrays: reduced one axis at a time).  Nothing else of NumPy is re-implemented: indexing, broadcasting, `tensordot`,
               `transpose`, `squeeze`, `arange`, `maximum`, `linalg.norm` are NumPy's own code on object arrays.
 * `hp_kernel()`  context manager: swaps `np` in every loaded `gbasis.*` module that has such a global (and, in
               `gbasis.evals._deriv`, the SciPy ufunc `eval_hermite`, which cannot take objects, for the three-term
               recurrence evaluated in HP; `factorial2`, `comb`, `perm` stay the code's / SciPy's, wrapped so that
               their integer values lose the 2^-51 noise of SciPy's gamma-function route: `_integer_valued`) and
               restores everything on exit, also on exceptions.
 * `hp_shell(xshell)`  a `GeneralizedContractionShell` created with `object.__new__` whose private attributes
               (`_angmom _coord _coeffs _exps _coord_type _icenter`) hold HP object arrays made from the harness's exact
               rationals - the validating setters and `assign_norm_cont` (einsum, float-only) are bypassed, but
               `norm_prim_cart`, `angmom_components_cart`, `coeffs`, ... are the REAL properties, replayed under the proxy.
 * `boys_hp(orders, T)`  the Boys function by mpmath (`lib.boys_mp`), handed to the kernels as their `boys_func` argument.
 * `prim_shell`, `contract_scale`  the same kernel replayed with identity contraction matrices gives every primitive
               term; `contract_scale` returns sum |c c ... term|, the tolerance scale.
 * `compare_hp(block, model_nested, scale, floor)`  element test |hp - model| <= HP_TOL * max(scale, floor).

TOLERANCE (why 1e-18 x sum|primitive terms| is sound).  The exact model evaluates every primitive term as
(product of oracle values pi, sqrt, exp, Boys - each a 72-bit rounding, relative <= 2^-73 = 1.1e-22) x (an exact
rational polynomial) and sums the terms exactly.  With at most ~20 oracle values per term the model's value differs
from the true value by at most ~3e-21 x sum over primitive terms of |term| - NOT relative to the (possibly
cancelling) contracted value, which is why the scale is computed from the primitive terms (same routine replayed with
identity contraction matrices, `prim_shell` + `contract_scale`) and not from the block itself.  Measured on the
1,336 hp cases of two thorough runs: |hp - model| <= 1.7e-21 x scale, i.e. a margin of ~600 to the tolerance.
 * separable kernels (moment, differential operator, and what is built from them): tolerance per element
   1e-18 x max(scale of the element, 1e-3 x largest scale of the block);
 * Boys-type kernels (one-electron, two-electron): a primitive term is a short sum over Boys orders with independent
   roundings, an element can vanish by symmetry while its Boys terms do not: 1e-18 x largest scale of the block;
 * evaluation kernel: the model's own exact scale (command 104: every monomial, coefficient with its absolute value);
 * absolute floor 1e-100 (`ABS_FLOOR`): the runner's field rounds primitive terms to multiples of 2^-400 before they
   are multiplied by norms and coefficients, and its exp oracle flushes values below 2^-1100 to 0, so model values of
   that size are not exact to 1e-18 relative (found on a d/f pair 4.4 bohr apart with exponents 20 and 46: values
   1e-112, model off by 2e-3 relative).  Blocks whose scale is below 1e-60 are counted as trivial.
The replay itself carries >= 60 digits (78 with lib.py's 260 bits).  Detection power:
a relative perturbation delta of a recursion coefficient moves an element by ~delta x |term|: reported down to ~1e-17.
FALSE-ALARM NOTES.  (1) A case must hand the SAME rational to model and replay: numbers that reach the code as float
arrays (the point charges of C03, whose wrapper checks the dtype) are snapped to doubles when the case is generated.
(2) SciPy's factorial2 / comb / perm return integers with 2^-51 noise (gamma-function route): snapped, see
`_integer_valued`.  (3) Code that starts to do float-only arithmetic on data the replay passes as floats (C03 points)
would show up here at the 1e-16 level although it is rounding; nothing on the unchanged tree does.

If the replay cannot EXECUTE the current source (a NumPy feature that fails on object arrays, or a value forced into
a double: `HP.__float__` raises while a replay is running), the eval function returns a detail of kind
"hp-replay-failed" (`try_replay`), which `lib.run_cases` reports as a broken correspondence (`kind="correspondence"`,
printed as no-failing-input-found, at most twice per run) after all cases of the run - float streams included - have
been evaluated; never as a value verdict.  On the unchanged tree every kernel replays.
Switch: VERIF_NO_HP=1 drops the hp cases (timing comparisons).
"""
import contextlib
import importlib
import sys
import traceback
from fractions import Fraction

import mpmath
import numpy as _np

if mpmath.mp.prec < 200:
    mpmath.mp.dps = 60            # lib.py sets 260 bits; never lower an existing setting

mpf = mpmath.mpf
mpc = mpmath.mpc
HP_TOL = 1e-18
# Absolute floor of every comparison.  The runner's field (QcK false) rounds primitive terms to multiples of
# 2^-400 = 3.9e-121 BEFORE they are multiplied by the primitive norms and coefficients (observed multiplier 4e6 for a
# d/f pair with exponents 20 and 46; <= ~1e15 over the published exponent range), and its exp oracle flushes values
# below 2^-1100 to 0: model values of size <= 1e-100 are not exact to 1e-18 relative.  Such blocks (shells tens of
# bohr apart) are counted as trivial.
ABS_FLOOR = 1e-100
NONTRIVIAL_SCALE = 1e-60
_ARR = _np.ndarray


def _conv(x):
    """exact conversion of a scalar met in an expression; None if it is not a scalar we understand"""
    if isinstance(x, HP):
        return x.v
    if isinstance(x, (bool, _np.bool_)):
        return mpf(int(x))
    if isinstance(x, (int, _np.integer)):
        return mpf(int(x))
    if isinstance(x, (float, _np.floating)):
        return mpf(float(x))                      # exact: a double is a dyadic rational
    if isinstance(x, Fraction):
        return mpf(x.numerator) / mpf(x.denominator)
    if isinstance(x, (mpmath.mpf, mpmath.mpc)):
        return x
    if isinstance(x, (complex, _np.complexfloating)):
        return mpc(mpf(float(x.real)), mpf(float(x.imag)))
    return None


_MP_UNARY = {
    "sin": mpmath.sin, "cos": mpmath.cos, "tan": mpmath.tan, "arcsin": mpmath.asin, "arccos": mpmath.acos,
    "arctan": mpmath.atan, "sinh": mpmath.sinh, "cosh": mpmath.cosh, "tanh": mpmath.tanh, "arcsinh": mpmath.asinh,
    "arccosh": mpmath.acosh, "arctanh": mpmath.atanh, "log2": lambda x: mpmath.log(x, 2), "log10": mpmath.log10,
    "log1p": mpmath.log1p, "expm1": mpmath.expm1, "exp2": lambda x: mpmath.power(2, x), "cbrt": mpmath.cbrt,
    "rint": mpmath.nint, "trunc": lambda x: mpmath.floor(x) if x >= 0 else mpmath.ceil(x),
}


PROXY = None       # set below, after NPProxy is defined


class HP:
    """A high-precision real (mpf) or complex (mpc) number that NumPy treats as an opaque object."""
    __slots__ = ("v",)

    def __init__(self, v=0):
        c = _conv(v)
        if c is None:
            raise TypeError("HP: cannot convert %r" % type(v))
        self.v = c

    # -- construction helper avoiding the conversion
    @staticmethod
    def _mk(v):
        h = object.__new__(HP)
        h.v = v
        return h

    # -- arithmetic ----------------------------------------------------------------------------
    def __add__(self, o):
        c = o.v if type(o) is HP else _conv(o)
        return NotImplemented if c is None else HP._mk(self.v + c)

    __radd__ = __add__

    def __sub__(self, o):
        c = o.v if type(o) is HP else _conv(o)
        return NotImplemented if c is None else HP._mk(self.v - c)

    def __rsub__(self, o):
        c = _conv(o)
        return NotImplemented if c is None else HP._mk(c - self.v)

    def __mul__(self, o):
        c = o.v if type(o) is HP else _conv(o)
        return NotImplemented if c is None else HP._mk(self.v * c)

    __rmul__ = __mul__

    def __truediv__(self, o):
        c = o.v if type(o) is HP else _conv(o)
        return NotImplemented if c is None else HP._mk(self.v / c)

    def __rtruediv__(self, o):
        c = _conv(o)
        return NotImplemented if c is None else HP._mk(c / self.v)

    def __floordiv__(self, o):
        c = _conv(o)
        return NotImplemented if c is None else HP._mk(mpmath.floor(self.v / c))

    def __mod__(self, o):
        c = _conv(o)
        return NotImplemented if c is None else HP._mk(self.v - c * mpmath.floor(self.v / c))

    def __neg__(self):
        return HP._mk(-self.v)

    def __pos__(self):
        return self

    def __abs__(self):
        return HP._mk(abs(self.v))

    @staticmethod
    def _pow(base, e):
        """base ** e with an exactly converted exponent; integer-valued exponents use exact repeated multiplication"""
        if isinstance(e, mpmath.mpf) and mpmath.isint(e):
            n = int(e)
            if n >= 0:
                return base ** n
            return mpf(1) / (base ** (-n))
        return mpmath.power(base, e)

    def __pow__(self, o, mod=None):
        c = o.v if type(o) is HP else _conv(o)
        return NotImplemented if c is None else HP._mk(HP._pow(self.v, c))

    def __rpow__(self, o):
        c = _conv(o)
        return NotImplemented if c is None else HP._mk(HP._pow(c, self.v))

    # -- comparisons (reals only) --------------------------------------------------------------
    def __eq__(self, o):
        c = _conv(o)
        return NotImplemented if c is None else bool(self.v == c)

    def __ne__(self, o):
        c = _conv(o)
        return NotImplemented if c is None else bool(self.v != c)

    def __lt__(self, o):
        c = _conv(o)
        return NotImplemented if c is None else bool(self.v < c)

    def __le__(self, o):
        c = _conv(o)
        return NotImplemented if c is None else bool(self.v <= c)

    def __gt__(self, o):
        c = _conv(o)
        return NotImplemented if c is None else bool(self.v > c)

    def __ge__(self, o):
        c = _conv(o)
        return NotImplemented if c is None else bool(self.v >= c)

    def __hash__(self):
        return hash(self.v)

    def __bool__(self):
        return bool(self.v != 0)

    def __float__(self):
        # Inside a replay nothing may silently fall back to double precision (NumPy calls float(elem) when an object
        # array is stored into a float array, e.g. one made by a NumPy the proxy did not see): fail loudly instead -
        # the run then reports a broken replay, not a bogus 1e-16 "formula" difference.
        if PROXY is not None and PROXY._on:
            raise TypeError("HP value forced into a double inside a high-precision replay (precision leak)")
        return float(self.v)

    def __int__(self):
        return int(self.v)

    def __complex__(self):
        return complex(self.v)

    def __repr__(self):
        return "HP(%s)" % mpmath.nstr(self.v, 30)

    # -- what NumPy's object loops look for ------------------------------------------------------
    def exp(self):
        return HP._mk(mpmath.exp(self.v))

    def sqrt(self):
        return HP._mk(mpmath.sqrt(self.v))

    def log(self):
        return HP._mk(mpmath.log(self.v))

    def conjugate(self):
        return HP._mk(mpmath.conj(self.v)) if isinstance(self.v, mpmath.mpc) else self

    conj = conjugate

    def square(self):
        return HP._mk(self.v * self.v)

    def reciprocal(self):
        return HP._mk(1 / self.v)

    def fabs(self):
        return HP._mk(abs(self.v))

    def floor(self):
        return HP._mk(mpmath.floor(self.v))

    def ceil(self):
        return HP._mk(mpmath.ceil(self.v))

    def erf(self):
        return HP._mk(mpmath.erf(self.v))

    def arctan2(self, o):
        return HP._mk(mpmath.atan2(self.v, _conv(o)))

    def hypot(self, o):
        return HP._mk(mpmath.hypot(self.v, _conv(o)))

    def __getattr__(self, name):
        # other unary math methods NumPy's object loops may look up (np.sin(obj_array) calls elem.sin()), from mpmath
        fn = _MP_UNARY.get(name)
        if fn is None:
            raise AttributeError(name)
        return lambda: HP._mk(fn(self.v))

    @property
    def real(self):
        return HP._mk(mpmath.re(self.v))

    @property
    def imag(self):
        return HP._mk(mpmath.im(self.v))


ZERO = HP(0)
ONE = HP(1)


def hp(x):
    """scalar -> HP (exact)"""
    return x if isinstance(x, HP) else HP(x)


def hp_array(a):
    """nested lists / numeric array of ints, floats, Fractions, HP -> object array of HP (exact)"""
    if isinstance(a, _ARR) and a.dtype != object:
        out = _np.empty(a.shape, dtype=object)
        flat = out.reshape(-1)
        for i, x in enumerate(a.reshape(-1).tolist()):
            flat[i] = HP(x)
        return out
    arr = _np.array(a, dtype=object)
    out = _np.empty(arr.shape, dtype=object)
    of = out.reshape(-1)
    for i, x in enumerate(arr.reshape(-1)):
        of[i] = hp(x)
    return out


def _filled(shape, value):
    out = _np.empty(shape, dtype=object)
    out.fill(value)              # HP is immutable: sharing one object is safe
    return out


def _is_float_request(dtype):
    if dtype is None:
        return True
    try:
        return _np.dtype(dtype).kind in "fc"
    except TypeError:
        return False


def _promote(x):
    """numeric arrays / scalars -> HP (exact); object arrays and HP pass through"""
    if isinstance(x, HP):
        return x
    if isinstance(x, _ARR):
        if x.dtype == object:
            return x
        return hp_array(x)
    if isinstance(x, (list, tuple)):
        return hp_array(x)
    c = _conv(x)
    return HP._mk(c) if c is not None else x


class NPProxy:
    """Module proxy for the global name `np` of a gbasis module (see the module docstring)."""

    def __init__(self):
        self._on = False

    def __getattr__(self, name):          # only called for names not defined below
        return getattr(_np, name)

    # constants
    @property
    def pi(self):
        return HP._mk(+mpmath.pi) if self._on else _np.pi

    @property
    def e(self):
        return HP._mk(+mpmath.e) if self._on else _np.e

    # constructors
    def zeros(self, shape, dtype=None, **kw):
        if self._on and _is_float_request(dtype):
            return _filled(shape, ZERO)
        return _np.zeros(shape, dtype=dtype if dtype is not None else float, **kw)

    def ones(self, shape, dtype=None, **kw):
        if self._on and _is_float_request(dtype):
            return _filled(shape, ONE)
        return _np.ones(shape, dtype=dtype if dtype is not None else float, **kw)

    def empty(self, shape, dtype=None, **kw):
        if self._on and _is_float_request(dtype):
            return _filled(shape, ZERO)
        return _np.empty(shape, dtype=dtype if dtype is not None else float, **kw)

    def full(self, shape, fill_value, dtype=None, **kw):
        if self._on and _is_float_request(dtype) and not isinstance(fill_value, (bool, int, _np.integer)):
            return _filled(shape, hp(fill_value))
        return _np.full(shape, fill_value, dtype=dtype, **kw)

    def zeros_like(self, a, dtype=None, **kw):
        if self._on and dtype is None and isinstance(a, _ARR) and a.dtype.kind in "fcO":
            return _filled(a.shape, ZERO)
        return _np.zeros_like(a, dtype=dtype, **kw)

    def ones_like(self, a, dtype=None, **kw):
        if self._on and dtype is None and isinstance(a, _ARR) and a.dtype.kind in "fcO":
            return _filled(a.shape, ONE)
        return _np.ones_like(a, dtype=dtype, **kw)

    def empty_like(self, a, dtype=None, **kw):
        return self.zeros_like(a, dtype=dtype, **kw)

    # transcendental / float-producing ufuncs: promote exact numeric input to HP first
    def _unary(self, name, x, *a, **kw):
        if not self._on:
            return getattr(_np, name)(x, *a, **kw)
        x = _promote(x)
        if isinstance(x, HP):
            return getattr(x, name)()
        return getattr(_np, name)(x, *a, **kw)

    def sqrt(self, x, *a, **kw):
        return self._unary("sqrt", x, *a, **kw)

    def exp(self, x, *a, **kw):
        return self._unary("exp", x, *a, **kw)

    def log(self, x, *a, **kw):
        return self._unary("log", x, *a, **kw)

    def abs(self, x, *a, **kw):
        if self._on and isinstance(x, HP):
            return abs(x)
        return _np.abs(x, *a, **kw)

    absolute = abs

    def power(self, x, y, *a, **kw):
        if not self._on:
            return _np.power(x, y, *a, **kw)
        x = _promote(x)
        if isinstance(x, HP) and not isinstance(y, _ARR):
            return x ** y
        return _np.power(x, y, *a, **kw)

    def float_power(self, x, y, *a, **kw):
        return self.power(x, y, *a, **kw)

    # predicates NumPy has no object loop for
    def _pred(self, name, fn, x, *a, **kw):
        if self._on and (isinstance(x, HP) or (isinstance(x, _ARR) and x.dtype == object)):
            out = _np.frompyfunc(lambda e: bool(fn(_conv(e))), 1, 1)(x)
            return bool(out) if isinstance(x, HP) else out.astype(bool)
        return getattr(_np, name)(x, *a, **kw)

    def isfinite(self, x, *a, **kw):
        return self._pred("isfinite", mpmath.isfinite, x, *a, **kw)

    def isnan(self, x, *a, **kw):
        return self._pred("isnan", mpmath.isnan, x, *a, **kw)

    def isinf(self, x, *a, **kw):
        return self._pred("isinf", mpmath.isinf, x, *a, **kw)

    # reductions: NumPy refuses several axes at once for object arrays ("not reorderable")
    def _reduce(self, name, a, axis=None, **kw):
        fn = getattr(_np, name)
        if self._on and isinstance(a, _ARR) and a.dtype == object and isinstance(axis, tuple):
            keep = kw.pop("keepdims", False)
            axes = sorted((ax % a.ndim for ax in axis), reverse=True)
            out = a
            for ax in axes:
                out = fn(out, axis=ax, keepdims=True, **kw)
            if not keep:
                out = _np.squeeze(out, axis=tuple(sorted(axes)))
            return out
        return fn(a, axis=axis, **kw)

    def sum(self, a, axis=None, **kw):
        return self._reduce("sum", a, axis=axis, **kw)

    def prod(self, a, axis=None, **kw):
        return self._reduce("prod", a, axis=axis, **kw)


PROXY = NPProxy()


def hermite_hp(n, x):
    """physicists' Hermite polynomial H_n(x) for broadcastable integer array n and HP array x (replaces the SciPy
    ufunc `eval_hermite` of gbasis.evals._deriv under `hp_kernel`): H_0 = 1, H_1 = 2x, H_{k+1} = 2x H_k - 2k H_{k-1}"""
    n_arr = _np.asarray(n)
    x_arr = x if isinstance(x, _ARR) else _np.asarray(_promote(x), dtype=object)
    nb, xb = _np.broadcast_arrays(n_arr, x_arr)
    out = _np.empty(nb.shape, dtype=object)
    of = out.reshape(-1)
    for i, (k, xv) in enumerate(zip(nb.reshape(-1).tolist(), xb.reshape(-1))):
        xv = hp(xv).v
        k = int(k)
        if k < 0:
            of[i] = ZERO
            continue
        h0, h1 = mpf(1), 2 * xv
        if k == 0:
            of[i] = ONE
            continue
        for j in range(1, k):
            h0, h1 = h1, 2 * xv * h1 - 2 * j * h0
        of[i] = HP._mk(h1)
    return out


def boys_hp(orders, weighted_dist):
    """Boys function F_m(T) by mpmath on broadcastable (orders, T): the `boys_func` argument of the kernels"""
    from lib import boys_mp
    o_arr = _np.asarray(orders)
    t_arr = weighted_dist if isinstance(weighted_dist, _ARR) else _np.asarray(_promote(weighted_dist), dtype=object)
    ob, tb = _np.broadcast_arrays(o_arr, t_arr)
    out = _np.empty(ob.shape, dtype=object)
    of = out.reshape(-1)
    cache = {}
    for i, (m, t) in enumerate(zip(ob.reshape(-1).tolist(), tb.reshape(-1))):
        tv = hp(t).v
        key = (int(m), tv)
        if key not in cache:
            cache[key] = HP._mk(boys_mp(int(m), tv))
        of[i] = cache[key]
    return out


def _integer_valued(fn):
    """SciPy evaluates factorial2 / comb / perm of ARRAYS through the gamma function in double precision: the results
    are integers by definition but come back as 1.0000000000000004, 2.9999999999999996 (that 2^-51 is float noise of
    the implementation, not part of its formula).  The wrapper calls the real function and snaps every value that is
    within 1e-9 relative of an integer onto it; anything else (a changed formula) is passed on untouched."""
    def wrapped(*a, **kw):
        out = fn(*a, **kw)
        arr = _np.asarray(out)
        if arr.dtype.kind != "f":
            return out
        r = _np.rint(arr)
        snapped = _np.where(_np.abs(arr - r) <= 1e-9 * _np.maximum(1.0, _np.abs(r)), r, arr)
        return snapped if isinstance(out, _ARR) else snapped[()]
    wrapped.__name__ = getattr(fn, "__name__", "fn")
    wrapped._hp_wrapped = fn
    return wrapped


_EXTRA_SWAPS = {"gbasis.evals._deriv": {"eval_hermite": lambda old: hermite_hp}}
_INTEGER_VALUED = ("factorial2", "factorial", "comb", "perm")
_MODULES = ("gbasis.utils", "gbasis.contractions", "gbasis.integrals._moment_int", "gbasis.integrals._diff_operator_int",
            "gbasis.integrals._one_elec_int", "gbasis.integrals._two_elec_int", "gbasis.evals._deriv",
            "gbasis.integrals.overlap", "gbasis.integrals.moment", "gbasis.integrals.kinetic_energy",
            "gbasis.integrals.momentum", "gbasis.integrals.angular_momentum", "gbasis.integrals.point_charge",
            "gbasis.integrals.electron_repulsion", "gbasis.evals.eval_deriv", "gbasis.evals.eval")


@contextlib.contextmanager
def hp_kernel(*modules):
    """Run the body with the global `np` of the gbasis kernel modules (the listed ones, given as modules or dotted
    names, plus every module of `_MODULES` that imports) replaced by the HP proxy; restore on exit.  `gbasis.utils`
    (factorial2 on integer arrays) is deliberately left on real NumPy; its callers see it through `_integer_valued`."""
    mods = []
    for m in list(modules) + list(_MODULES):
        if isinstance(m, str):
            try:
                m = importlib.import_module(m)
            except Exception:  # noqa: BLE001   an optional module that does not import is simply not swapped
                continue
        if m.__name__ == "gbasis.utils" or m in mods:
            continue
        mods.append(m)
    saved = []
    try:
        for m in mods:
            if getattr(m, "np", None) is _np:
                saved.append((m, "np", _np))
                m.np = PROXY
            for name, mk in _EXTRA_SWAPS.get(m.__name__, {}).items():
                if hasattr(m, name):
                    saved.append((m, name, getattr(m, name)))
                    setattr(m, name, mk(getattr(m, name)))
            for name in _INTEGER_VALUED:
                f = m.__dict__.get(name)
                if callable(f) and not hasattr(f, "_hp_wrapped"):
                    saved.append((m, name, f))
                    setattr(m, name, _integer_valued(f))
        PROXY._on = True
        yield PROXY
    finally:
        PROXY._on = False
        for m, name, val in reversed(saved):
            setattr(m, name, val)


# ----------------------------------------------------------------------------------------------
# shells
# ----------------------------------------------------------------------------------------------
def hp_shell(xs, coeffs=None):
    """lib.XShell -> GeneralizedContractionShell holding HP object arrays (validating setters and assign_norm_cont
    bypassed; every property, norm_prim_cart included, is the real code).  `coeffs`: replacement K x M' matrix."""
    from gbasis.contractions import GeneralizedContractionShell
    sh = object.__new__(GeneralizedContractionShell)
    sh._angmom = int(xs.l)
    sh._coord = hp_array(list(xs.coord))
    sh._exps = hp_array(list(xs.exps))
    sh._coeffs = hp_array([list(r) for r in (coeffs if coeffs is not None else xs.coeffs)])
    sh._coord_type = "spherical" if xs.sph else "cartesian"
    sh._icenter = None
    return sh


def prim_shell(xs):
    """the shell with the identity as contraction matrix: segment k is primitive k alone (coefficient 1)"""
    k = len(xs.exps)
    return hp_shell(xs, coeffs=[[Fraction(1 if i == j else 0) for j in range(k)] for i in range(k)])


def absf(v):
    """|value| of an HP / number as a Python float (only used to size tolerances)"""
    if isinstance(v, HP):
        return float(abs(v.v))
    return float(abs(v))


def contract_scale(prim, shells, seg_axes):
    """prim: HP block computed with `prim_shell`s, whose axes `seg_axes[i]` index the primitives of shell i.
    Returns the float array sum_k |c_1[k1,m1] ... c_n[kn,mn]| |prim[.. k1 .. kn ..]| with the segment axes in the
    same positions (now of sizes M_i): the sum of the absolute values of the primitive terms of every element."""
    a = _np.frompyfunc(absf, 1, 1)(prim).astype(float)
    for xs, ax in zip(shells, seg_axes):
        c = _np.abs(_np.array([[float(x) for x in row] for row in xs.coeffs]))       # K x M
        a = _np.moveaxis(_np.tensordot(a, c, axes=(ax, 0)), -1, ax)
    return a


# ----------------------------------------------------------------------------------------------
# comparison
# ----------------------------------------------------------------------------------------------
LAST = {"ratio": 0.0}      # diagnostics: worst |hp - model| / tolerance of the last comparison


def _mp_of_fraction(q):
    return mpf(q.numerator) / mpf(q.denominator)


def compare_hp(block, model_nested, scale, floor_rel=1e-3, post=None, tol=HP_TOL):
    """block: object array from the replay; model_nested: exact nested lists from the runner; scale: float array
    (broadcastable to the block) = sum |primitive terms| of each element.  An element passes when
    |hp - model| <= tol * max(scale, floor_rel * max(scale over the block)).  `post(x)` maps a replay element (mpf or
    mpc) to the real number the model reports (momentum operators: the model carries R of the value -i R).
    Returns None or a detail dict of kind "hp-formula" (or "shape")."""
    from lib import shape_of
    block = _np.asarray(block)
    mshape = shape_of(model_nested)
    if tuple(block.shape) != tuple(mshape):
        return {"kind": "shape", "stream": "hp", "impl_shape": list(block.shape), "model_shape": list(mshape)}
    marr = _np.array(model_nested, dtype=object)
    sc = _np.broadcast_to(_np.asarray(scale, dtype=float), block.shape)
    smax = float(sc.max()) if sc.size else 0.0
    worst = None
    for idx in _np.ndindex(*block.shape):
        x = block[idx]
        xv = x.v if isinstance(x, HP) else _conv(x)
        if xv is None:
            return {"kind": "hp-formula", "index": list(idx), "note": "replay element of type %s" % type(x).__name__}
        if post is not None:
            xv, bad = post(xv)
        else:
            bad = mpf(0)
            if isinstance(xv, mpmath.mpc):
                xv, bad = xv.real, abs(xv.imag)
        if not (mpmath.isfinite(xv)):
            return {"kind": "hp-formula", "index": list(idx), "impl_hp": str(xv), "note": "non-finite replay value"}
        mv = _mp_of_fraction(marr[idx])
        diff = max(abs(xv - mv), bad)
        t = tol * max(float(sc[idx]), floor_rel * smax) + ABS_FLOOR
        ratio = float(diff / t) if t > 0 else (0.0 if diff == 0 else float("inf"))
        if worst is None or ratio > worst[0]:
            worst = (ratio, idx, xv, mv, t, diff)
    LAST["ratio"] = worst[0] if worst is not None else 0.0
    if worst is not None and worst[0] > 1.0:
        return {"kind": "hp-formula", "index": [int(i) for i in worst[1]],
                "impl_hp": mpmath.nstr(worst[2], 40), "model": mpmath.nstr(worst[3], 40),
                "abs_diff": float(worst[5]), "tol": worst[4], "rel_to_scale": (float(worst[5]) / (worst[4] / tol)) if worst[4] > 0 else float("inf"),
                "note": "the working tree's kernel, replayed in %d-bit arithmetic on the exact inputs, differs from the "
                        "exact model by more than 1e-18 x sum|primitive terms|: this cannot be floating-point "
                        "rounding - the implementation's formula differs from the model's" % mpmath.mp.prec}
    return None


def replay_failed(exc_text):
    """detail for a replay that could not execute the source (reported as a broken correspondence)"""
    return {"kind": "hp-replay-failed", "trace": exc_text[-2500:],
            "note": "the high-precision replay could not execute the kernel source of the working tree on object "
                    "arrays (on the unchanged tree it does): the tie between model and code is broken at this point"}


# ----------------------------------------------------------------------------------------------
# the "hp" stream of a check: case generation, evaluation of shell pairs, tags
# ----------------------------------------------------------------------------------------------
def try_replay(fn):
    """run the replay body; (True, value) or (False, detail 'hp-replay-failed')"""
    try:
        with hp_kernel():
            return True, fn()
    except Exception:  # noqa: BLE001
        return False, replay_failed(traceback.format_exc())


def gen_pairs(rng, n, lmax, kmax=2, mmax=2, far=1):
    """n shell pairs (lib.XShell, Cartesian) for the hp streams: l in 0..lmax, K <= kmax, M <= mmax; geometries general /
    coincident / same x,y; a third with full-mantissa (53-bit) exponents, coefficients and coordinates; the last `far`
    pairs tight and 100-150 bohr from the origin (twoindex.far_tight: where absolute-coordinate rewrites lose digits
    in double precision and must NOT lose any here)."""
    import twoindex
    from lib import gen_shell
    out = []
    for i in range(n):
        la, lb = rng.randint(0, lmax), rng.randint(0, lmax)
        if i < 2:
            la, lb = (lmax, max(0, lmax - 1)) if i == 0 else (rng.randint(0, 1), lmax)
        r = rng.random()
        hi = None if r < 0.25 else 40.0            # far-apart tight pairs underflow to an all-zero block
        sa = gen_shell(rng, l=la, kmax=kmax, mmax=mmax, sph=False, exp_hi=hi)
        sb = gen_shell(rng, l=lb, kmax=kmax, mmax=mmax, sph=False, exp_hi=hi)
        if r < 0.25:
            sb.coord = list(sa.coord)
        elif r < 0.4:
            sb.coord = [sa.coord[0], sa.coord[1], sb.coord[2]]
        if i >= n - far:
            twoindex.far_tight(rng, sa, sb)
        elif rng.random() < 0.35:
            twoindex.full_mantissa(rng, sa)
            twoindex.full_mantissa(rng, sb, near=sa.coord if r < 0.25 and rng.random() < 0.5 else None)
        out.append((sa, sb))
    return out


def eval_pair(model, case, cmd, call, name, seg_axes=(0, 2), post=None, floor_rel=1e-3):
    """One hp case of a two-index kernel.  cmd: runner command whose meaning is exactly what `call(ha, hb)` returns
    (ha, hb: HP shells); the same call on identity-contracted shells gives the primitive terms for the scale;
    seg_axes: the axes of the block that index the segments of shell a and of shell b."""
    from lib import XShell
    sa, sb = XShell.from_json(case["a"]), XShell.from_json(case["b"])
    tag = "hp %s l=%d,%d" % (name, sa.l, sb.l)
    res = model.call(cmd)
    ok, out = try_replay(lambda: (call(hp_shell(sa), hp_shell(sb)), call(prim_shell(sa), prim_shell(sb))))
    if not ok:
        return {"detail": out, "nontrivial": True, "tag": tag}
    blk, prim = out
    sc = contract_scale(prim, [sa, sb], list(seg_axes))
    d = compare_hp(blk, res, sc, floor_rel=floor_rel, post=post)
    nontriv = bool(sc.size and sc.max() > NONTRIVIAL_SCALE) and (sa.l + sb.l > 0 or len(sa.exps) > 1 or len(sb.exps) > 1)
    return {"detail": d, "nontrivial": nontriv, "tag": tag, "stats": {"hp_elements": int(_np.asarray(blk).size)}}


def minus_imag(z):
    """momentum-type operators return -i R: the model carries R; the real part of the replay must vanish"""
    if isinstance(z, mpmath.mpc):
        return -z.imag, abs(z.real)
    return mpf(0), abs(z)
