"""Trace translator for gbasis/evals/density.py (DESIGN.md "C06", section 8 "trusted base").

Every run executes the CURRENT functions of <repo>/gbasis/evals/density.py with `evaluate_basis` and
`evaluate_deriv_basis` replaced (in this process only) by stubs that return formal symbols
phi(order, a, n, back-end) and with the density matrix replaced by formal symbols P(a,b).  The NumPy code then
builds polynomials in these symbols; each result entry is normalised into a linear combination of

        G((o1,b1),(o2,b2)) = sum_ab P_ab * d^o1 phi_a [back-end b1] * d^o2 phi_b [back-end b2]

(checked by re-expansion: the traced polynomial must be EXACTLY that combination, at every point, with no
cross-point terms) and written to coq/Gen/DensityTrace.v (definitions only).  coq/Proofs/DensityTraceP.v
proves by computation that the traces are the model's formulas.  Fail-closed: anything this file does not
understand raises TraceError; nothing is defaulted.

Back-end tags: 0 = evaluate_basis, 1 = evaluate_deriv_basis(deriv_type="general"), 2 = ...("direct").
P is NOT assumed symmetric by the tracer (P(a,b), P(b,a) are different symbols): symmetry is used in Coq.
"""
import importlib
import itertools
import os
import sys
from fractions import Fraction

import numpy as np

VERIF = os.path.dirname(os.path.dirname(os.path.abspath(__file__)))
GEN = os.path.join(VERIF, "coq", "Gen", "DensityTrace.v")
K = 2        # formal basis functions
N = 2        # formal points
BACKENDS = {"basis": 0, "general": 1, "direct": 2}


class TraceError(Exception):
    pass


# ------------------------------------------------------------------------------------------------
# polynomials in formal atoms
# ------------------------------------------------------------------------------------------------
EVENTS = []
BRANCH = {"neg": False, "big": False}


class Poly:
    __slots__ = ("d",)
    __array_priority__ = 1000

    def __init__(self, d=None):
        self.d = {k: v for k, v in (d or {}).items() if v != 0}

    @staticmethod
    def atom(a):
        return Poly({(a,): Fraction(1)})

    @staticmethod
    def const(c):
        return Poly({(): num(c)})

    def __add__(self, o):
        o = as_poly(o)
        r = dict(self.d)
        for k, v in o.d.items():
            r[k] = r.get(k, 0) + v
        return Poly(r)

    __radd__ = __add__

    def __neg__(self):
        return Poly({k: -v for k, v in self.d.items()})

    def __sub__(self, o):
        return self + (-as_poly(o))

    def __rsub__(self, o):
        return as_poly(o) + (-self)

    def __mul__(self, o):
        o = as_poly(o)
        r = {}
        for k1, v1 in self.d.items():
            for k2, v2 in o.d.items():
                k = tuple(sorted(k1 + k2))
                r[k] = r.get(k, 0) + v1 * v2
        return Poly(r)

    __rmul__ = __mul__

    def __eq__(self, o):
        raise TraceError("equality test on a symbolic value")

    def __hash__(self):
        return id(self)

    def __bool__(self):
        raise TraceError("truth value of a symbolic value requested")

    # order comparisons are only understood in the threshold / clip pattern
    def __ge__(self, o):                      # np.maximum(x, 0.0) of ndarray.clip(min=0.0)
        if isinstance(o, float) and not isinstance(o, SymF) and o == 0.0:
            EVENTS.append(("clip", self))
            return True
        raise TraceError("unsupported comparison >= %r on a symbolic value" % (o,))

    def __lt__(self, o):
        raise TraceError("unsupported comparison < on a symbolic value")

    __gt__ = __lt__
    __le__ = __lt__

    def __float__(self):
        raise TraceError("float() of a symbolic value")

    def same(self, o):
        return self.d == o.d

    def __repr__(self):
        return "Poly(%r)" % (self.d,)


def num(c):
    if isinstance(c, bool):
        raise TraceError("boolean used as a number")
    if isinstance(c, SymF):
        raise TraceError("symbolic scalar used as a plain number")
    if isinstance(c, (int, np.integer)):
        return Fraction(int(c))
    if isinstance(c, (float, np.floating)):
        f = float(c)
        if f != f or f in (float("inf"), float("-inf")):
            raise TraceError("non-finite constant")
        return Fraction(f)
    if isinstance(c, Fraction):
        return c
    raise TraceError("cannot interpret %r as a number" % (type(c),))


def as_poly(o):
    if isinstance(o, Poly):
        return o
    if isinstance(o, SymF):
        return o.poly
    if isinstance(o, np.ndarray):
        raise TraceError("array where a scalar was expected")
    return Poly.const(o)


class SymF(float):
    """A float that carries a formal symbol (passes isinstance(x, float))."""

    def __new__(cls, name):
        o = float.__new__(cls, 0.3141592653589793)
        o.poly = Poly.atom((name,))
        o.name = name
        return o

    def __eq__(self, o):
        EVENTS.append(("sym_eq", self.name, o))
        return False

    def __ne__(self, o):
        EVENTS.append(("sym_ne", self.name, o))
        return True

    def __hash__(self):
        return 7

    def _arr(self, o, f):
        if isinstance(o, np.ndarray):
            out = np.empty(o.shape, dtype=object)
            for idx in np.ndindex(o.shape):
                out[idx] = f(as_poly(o[idx]))
            return out.view(SymArr)
        return f(as_poly(o))

    def __mul__(self, o):
        return self._arr(o, lambda p: p * self.poly)

    __rmul__ = __mul__

    def __add__(self, o):
        return self._arr(o, lambda p: p + self.poly)

    __radd__ = __add__

    def __sub__(self, o):
        return self._arr(o, lambda p: self.poly - p)

    def __rsub__(self, o):
        return self._arr(o, lambda p: p - self.poly)

    def __neg__(self):
        raise TraceError("negated symbolic scalar")

    def __lt__(self, o):
        raise TraceError("comparison on symbolic scalar")

    __gt__ = __le__ = __ge__ = __lt__

    def __float__(self):
        raise TraceError("float() of a symbolic scalar")

    def __bool__(self):
        raise TraceError("truth value of symbolic scalar")


class ThrF(float):
    """The threshold argument: a float whose identity is tracked."""

    def __new__(cls):
        return float.__new__(cls, 1.0)


class SymArr(np.ndarray):
    """object array that claims dtype float (evaluate_density_using_evaluated_orbs checks `.dtype == float`)."""

    dtype = property(lambda self: np.dtype(float))


def symarr(shape, fill):
    out = np.empty(shape, dtype=object)
    for idx in np.ndindex(out.shape):
        out[idx] = fill(idx)
    return out.view(SymArr)


class MinOf:
    """np.min(array of symbolic values)."""

    def __init__(self, arr):
        self.arr = arr

    def __lt__(self, o):
        if not (isinstance(o, float) and o == 0.0):
            raise TraceError("minimum compared with %r" % (o,))
        EVENTS.append(("min_lt_0", [p for p in np.asarray(self.arr).reshape(-1)]))
        return BRANCH["neg"]

    def __abs__(self):
        return AbsMin(self)

    def __format__(self, spec):
        return "<min>"

    def __str__(self):
        return "<min>"


class AbsMin:
    def __init__(self, m):
        self.m = m

    def __gt__(self, o):
        if isinstance(o, ThrF):
            EVENTS.append(("absmin_gt_thr", "param"))
        elif type(o) is float and o == 1.0e-8:
            EVENTS.append(("absmin_gt_thr", "default"))
        else:
            raise TraceError("|minimum| compared with something that is not the threshold argument: %r" % (o,))
        return BRANCH["big"]


# ------------------------------------------------------------------------------------------------
# numpy proxy used inside density.py
# ------------------------------------------------------------------------------------------------
def is_sym(a):
    return isinstance(a, np.ndarray) and (type(a) is SymArr or np.ndarray.dtype.__get__(a) == object)


class NPProxy:
    ndarray = np.ndarray

    def __getattr__(self, name):
        if name in ("array", "identity", "swapaxes", "int64", "float64", "newaxis", "asarray"):
            return getattr(np, name)
        raise TraceError("density.py uses numpy.%s, which the translator does not know" % name)

    @staticmethod
    def zeros(shape, *a, **k):
        if a or k:
            raise TraceError("np.zeros with dtype/extra arguments")
        return symarr(shape if isinstance(shape, tuple) else (int(shape),), lambda idx: Poly())

    @staticmethod
    def full(shape, fill, *a, **k):
        if a or k or not is_sym(fill):
            raise TraceError("np.full not in the understood form")
        out = np.empty(shape, dtype=object)
        out[...] = np.broadcast_to(np.asarray(fill.view(np.ndarray)), shape)
        return out.view(SymArr)

    @staticmethod
    def array_equal(a, b):
        if is_sym(a) or is_sym(b):
            raise TraceError("array_equal on symbolic arrays")
        return np.array_equal(a, b)

    @staticmethod
    def allclose(a, b, *r, **k):
        if r or k or not (is_sym(a) and is_sym(b)):
            raise TraceError("allclose not in the understood form")
        pa, pb = a.view(np.ndarray), b.view(np.ndarray)
        if pa.shape != pb.shape or pa.ndim != 2:
            raise TraceError("allclose on unexpected shapes")
        for i in range(pa.shape[0]):
            for j in range(pa.shape[1]):
                if not pa[i, j].same(Poly.atom(("P", i, j))) or not pb[i, j].same(Poly.atom(("P", j, i))):
                    raise TraceError("allclose compares something else than P with its transpose")
        EVENTS.append(("symmetry_checked",))
        return True

    @staticmethod
    def sum(a, axis=None, **k):
        if k or not is_sym(a):
            raise TraceError("np.sum not in the understood form")
        return np.add.reduce(a.view(np.ndarray), axis=axis).view(SymArr) if axis is not None else \
            np.add.reduce(a.view(np.ndarray).reshape(-1))

    @staticmethod
    def min(a, *r, **k):
        if r or k or not is_sym(a):
            raise TraceError("np.min not in the understood form")
        return MinOf(a)

    @staticmethod
    def tensordot(a, b, axes):
        return np.tensordot(np.asarray(a.view(np.ndarray)), np.asarray(b.view(np.ndarray)), axes).view(SymArr)

    @staticmethod
    def triu(m, k=0):
        a = m.view(np.ndarray)
        if a.ndim < 2:
            raise TraceError("triu on a vector")
        out = np.empty(a.shape, dtype=object)
        for idx in np.ndindex(a.shape):
            out[idx] = a[idx] if idx[-1] - idx[-2] >= k else Poly()
        return out.view(SymArr)

    @staticmethod
    def einsum(spec, *ops):
        spec = spec.replace(" ", "")
        if "->" not in spec:
            raise TraceError("implicit einsum")
        ins, out = spec.split("->")
        ins = ins.split(",")
        if len(ins) != len(ops):
            raise TraceError("einsum operand count")
        arrs = [np.asarray(o.view(np.ndarray)) for o in ops]
        dims = {}
        for sub, a in zip(ins, arrs):
            if len(sub) != a.ndim or len(set(sub)) != len(sub):
                raise TraceError("einsum subscripts")
            for ch, n in zip(sub, a.shape):
                if dims.setdefault(ch, n) != n:
                    raise TraceError("einsum dimension mismatch")
        if len(set(out)) != len(out) or any(ch not in dims for ch in out):
            raise TraceError("einsum output subscripts")
        summed = [ch for ch in dims if ch not in out]
        res = np.empty(tuple(dims[ch] for ch in out), dtype=object)
        for oidx in np.ndindex(res.shape):
            env = dict(zip(out, oidx))
            acc = Poly()
            for sidx in itertools.product(*[range(dims[ch]) for ch in summed]):
                env.update(zip(summed, sidx))
                term = Poly.const(1)
                for sub, a in zip(ins, arrs):
                    term = term * as_poly(a[tuple(env[ch] for ch in sub)])
                acc = acc + term
            res[oidx] = acc
        return res.view(SymArr)


# ------------------------------------------------------------------------------------------------
# running density.py on the stubs
# ------------------------------------------------------------------------------------------------
class Ctx:
    def __init__(self):
        self.basis = [object()]
        self.points = np.zeros((N, 3))
        self.transform = object()
        self.P = symarr((K, K), lambda idx: Poly.atom(("P", idx[0], idx[1])))
        self.calls = []

    def check_common(self, basis, points, transform):
        if basis is not self.basis or points is not self.points or transform is not self.transform:
            raise TraceError("basis / points / transform not passed through unchanged to the basis evaluation")

    def evaluate_basis(self, basis, points, transform=None):
        self.check_common(basis, points, transform)
        self.calls.append(("basis", (0, 0, 0)))
        return symarr((K, N), lambda idx: Poly.atom(("phi", (0, 0, 0), idx[0], idx[1], 0)))

    def evaluate_deriv_basis(self, basis, points, orders, transform=None, deriv_type="general"):
        self.check_common(basis, points, transform)
        if deriv_type not in ("general", "direct"):
            raise TraceError("unknown deriv_type %r requested" % (deriv_type,))
        if not (isinstance(orders, np.ndarray) and orders.shape == (3,) and orders.dtype.kind in "iu"):
            raise TraceError("orders passed to evaluate_deriv_basis are not an integer array of shape (3,)")
        o = tuple(int(x) for x in orders)
        if min(o) < 0:
            raise TraceError("negative derivative order requested")
        tag = BACKENDS[deriv_type]
        self.calls.append((deriv_type, o))
        return symarr((K, N), lambda idx: Poly.atom(("phi", o, idx[0], idx[1], tag)))


def load_density():
    """A private copy of the current density.py with the stubs installed."""
    import gbasis.evals.density as real

    path = real.__file__
    spec = importlib.util.spec_from_file_location("_c06_traced_density", path)
    mod = importlib.util.module_from_spec(spec)
    spec.loader.exec_module(mod)
    return mod, path


def normalise(poly, n, allow_alpha=False):
    """Poly at point n -> {alpha_power: {((o1,b1),(o2,b2)): Fraction}} ; verified by re-expansion."""
    out = {}
    for mono, c in poly.d.items():
        ps = [a for a in mono if a[0] == "P"]
        phis = [a for a in mono if a[0] == "phi"]
        als = [a for a in mono if a[0] == "alpha"]
        if len(ps) + len(phis) + len(als) != len(mono):
            raise TraceError("unknown symbol in result: %r" % (mono,))
        if len(ps) != 1 or len(phis) != 2:
            raise TraceError("result term is not P x phi x phi: %r" % (mono,))
        if als and not allow_alpha:
            raise TraceError("alpha in a result that should not depend on it")
        if len(als) > 1:
            raise TraceError("alpha to a power > 1")
        if any(p[3] != n for p in phis):
            raise TraceError("result at point %d uses basis values at another point" % n)
        (_, a, b) = ps[0]
        if (a, b) != (0, 1):
            continue
        first = [p for p in phis if p[2] == 0]
        second = [p for p in phis if p[2] == 1]
        if len(first) != 1 or len(second) != 1:
            raise TraceError("index structure is not P_ab phi_a phi_b: %r" % (mono,))
        key = ((first[0][1], first[0][4]), (second[0][1], second[0][4]))
        grp = out.setdefault(len(als), {})
        grp[key] = grp.get(key, 0) + c
    # re-expansion
    re = Poly()
    for apow, grp in out.items():
        for ((o1, b1), (o2, b2)), c in grp.items():
            for a in range(K):
                for b in range(K):
                    t = Poly.atom(("P", a, b)) * Poly.atom(("phi", o1, a, n, b1)) * Poly.atom(("phi", o2, b, n, b2))
                    t = t * Poly.const(c)
                    if apow:
                        t = t * Poly.atom(("alpha",))
                    re = re + t
    if not re.same(poly):
        raise TraceError("result is not a linear combination of sum_ab P_ab d^o1 phi_a d^o2 phi_b")
    return {k: {kk: vv for kk, vv in v.items() if vv != 0} for k, v in out.items()}


def norm_all_points(arr, shape_tail, allow_alpha=False):
    """arr: array (N, *shape_tail) of Poly -> nested lists (over shape_tail) of normal forms, identical at every
    point."""
    a = np.asarray(arr.view(np.ndarray) if isinstance(arr, np.ndarray) else arr)
    if a.shape != (N,) + tuple(shape_tail):
        raise TraceError("result has shape %r, expected %r" % (a.shape, (N,) + tuple(shape_tail)))
    res = {}
    for idx in np.ndindex(tuple(shape_tail)):
        forms = [normalise(as_poly(a[(n,) + idx]), n, allow_alpha) for n in range(N)]
        if any(f != forms[0] for f in forms[1:]):
            raise TraceError("different formulas at different points")
        res[idx] = forms[0]
    return res


def run_fn(mod, name, ctx, *args, **kw):
    del EVENTS[:]
    ctx.calls = []
    try:
        out = getattr(mod, name)(*args, **kw)
    except TraceError:
        raise
    except ValueError as exc:
        return ("raised", str(exc)[:80], list(EVENTS))
    except Exception as exc:  # noqa: BLE001
        raise TraceError("%s raised %s: %s" % (name, type(exc).__name__, str(exc)[:300]))
    return ("ok", out, list(EVENTS))


def trace_all():
    mod, path = load_density()
    ctx = Ctx()
    mod.np = NPProxy()
    mod.evaluate_basis = ctx.evaluate_basis
    mod.evaluate_deriv_basis = ctx.evaluate_deriv_basis
    tr = {"source": path}
    P, B, X, T = ctx.P, ctx.basis, ctx.points, ctx.transform
    thr = ThrF()

    def only0(form):
        if set(form) - {0}:
            raise TraceError("unexpected alpha dependence")
        return form.get(0, {})

    # --- density, with the three control-flow branches of the threshold rule
    def thresholded(name, args, kw, label):
        BRANCH.update(neg=False, big=False)
        st, out, ev = run_fn(mod, name, ctx, *args, threshold=thr, **kw)
        if st != "ok":
            raise TraceError(label + ": raised on the non-negative branch")
        kinds = [e[0] for e in ev]
        want_sym = ["symmetry_checked"] if name == "evaluate_density" else []
        if kinds != want_sym + ["min_lt_0"] + ["clip"] * N:
            raise TraceError(label + ": control flow on the non-negative branch not understood: %r" % (kinds,))
        tested = [e for e in ev if e[0] == "min_lt_0"][0][1]
        if len(tested) != N:
            raise TraceError(label + ": the minimum is not taken over the N point values")
        clipped = [e[1] for e in ev if e[0] == "clip"]
        ret = norm_all_points(out, ())[()]
        arr = np.asarray(out.view(np.ndarray))
        if not all(arr[n] is clipped[n] for n in range(N)):
            raise TraceError(label + ": the clipped values are not the returned ones")
        tforms = [normalise(tested[n], n) for n in range(N)]
        if any(f != tforms[0] for f in tforms):
            raise TraceError(label + ": tested quantity differs between points")
        BRANCH.update(neg=True, big=False)
        st2, out2, ev2 = run_fn(mod, name, ctx, *args, threshold=thr, **kw)
        kinds2 = [e[0] for e in ev2]
        if st2 != "ok" or kinds2 != want_sym + ["min_lt_0", "absmin_gt_thr"] + ["clip"] * N or \
                [e for e in ev2 if e[0] == "absmin_gt_thr"][0][1] != "param":
            raise TraceError(label + ": control flow on the small-negative branch not understood: %r" % (kinds2,))
        if norm_all_points(out2, ())[()] != ret:
            raise TraceError(label + ": different formula on the small-negative branch")
        BRANCH.update(neg=True, big=True)
        st3, _, ev3 = run_fn(mod, name, ctx, *args, threshold=thr, **kw)
        kinds3 = [e[0] for e in ev3]
        if st3 != "raised" or kinds3 != want_sym + ["min_lt_0", "absmin_gt_thr"]:
            raise TraceError(label + ": no error raised on the large-negative branch: %r" % (kinds3,))
        BRANCH.update(neg=False, big=False)
        return only0(tforms[0]), only0(ret)

    tr["density_tested"], tr["density_returned"] = thresholded("evaluate_density", (P, B, X), {"transform": T},
                                                               "evaluate_density")
    triples = list(itertools.product(range(5), repeat=3))
    for dt in ("general", "direct"):
        kw = {"transform": T, "deriv_type": dt}
        lst = []
        for L in triples:
            st, out, ev = run_fn(mod, "evaluate_deriv_density", ctx, np.array(L), P, B, X, **kw)
            if st != "ok" or ev:
                raise TraceError("evaluate_deriv_density%r: unexpected control flow" % (L,))
            lst.append((L, only0(norm_all_points(out, ())[()])))
        tr["deriv_" + dt] = lst
        st, out, ev = run_fn(mod, "evaluate_density_gradient", ctx, P, B, X, **kw)
        if st != "ok" or ev:
            raise TraceError("gradient: unexpected control flow")
        g = norm_all_points(out, (3,))
        tr["grad_" + dt] = [only0(g[(i,)]) for i in range(3)]
        st, out, ev = run_fn(mod, "evaluate_density_laplacian", ctx, P, B, X, **kw)
        if st != "ok" or ev:
            raise TraceError("laplacian: unexpected control flow")
        tr["lap_" + dt] = only0(norm_all_points(out, ())[()])
        st, out, ev = run_fn(mod, "evaluate_density_hessian", ctx, P, B, X, **kw)
        if st != "ok" or ev:
            raise TraceError("hessian: unexpected control flow")
        h = norm_all_points(out, (3, 3))
        tr["hess_" + dt] = [[only0(h[(i, j)]) for j in range(3)] for i in range(3)]
        tr["ked_%s_tested" % dt], tr["ked_%s_returned" % dt] = thresholded(
            "evaluate_posdef_kinetic_energy_density", (P, B, X), kw, "posdef KED (%s)" % dt)
        # general KED: symbolic alpha, and the special value 0 (int and float)
        alpha = SymF("alpha")
        st, out, ev = run_fn(mod, "evaluate_general_kinetic_energy_density", ctx, P, B, X, alpha, **kw)
        kinds = [e[0] for e in ev]
        if st != "ok" or kinds != ["min_lt_0"] + ["clip"] * N + ["sym_ne"] or ev[-1][2] != 0:
            raise TraceError("general KED: control flow not understood: %r" % (kinds,))
        f = norm_all_points(out, (), allow_alpha=True)[()]
        tr["gked_%s_a0" % dt] = f.get(0, {})
        tr["gked_%s_a1" % dt] = f.get(1, {})
        for zero in (0, 0.0):
            st, out, ev = run_fn(mod, "evaluate_general_kinetic_energy_density", ctx, P, B, X, zero, **kw)
            if st != "ok":
                raise TraceError("general KED with alpha=0 raised")
            f0 = only0(norm_all_points(out, ())[()])
            if "gked_%s_zero" % dt in tr and tr["gked_%s_zero" % dt] != f0:
                raise TraceError("general KED: alpha=0 and alpha=0.0 give different formulas")
            tr["gked_%s_zero" % dt] = f0
    return tr


# ------------------------------------------------------------------------------------------------
# Coq output
# ------------------------------------------------------------------------------------------------
def coq_ord(o):
    return "(%d,%d,%d)" % o


def coq_jet(form):
    items = []
    for ((o1, b1), (o2, b2)), c in sorted(form.items()):
        items.append("(((%d)%%Z,(%d)%%Z),(%s,%d),(%s,%d))" % (c.numerator, c.denominator, coq_ord(o1), b1,
                                                              coq_ord(o2), b2))
    return "[" + "; ".join(items) + "]"


def render(tr):
    lines = ["(* GENERATED by harness/trace_density.py from gbasis/evals/density.py of the tree under test.",
             "   Definitions only.  A term ((n,d),(o1,b1),(o2,b2)) is  n/d * sum_ab P_ab d^o1 phi_a d^o2 phi_b  with the",
             "   basis derivatives obtained from back-end b (0 evaluate_basis, 1 general, 2 direct).",
             "   Regenerated before every Coq build; do not edit. *)",
             "From Coq Require Import List ZArith.",
             "Import ListNotations.",
             "Definition tr_ord := (nat * nat * nat)%type.",
             "Definition tr_term := ((Z * Z) * (tr_ord * nat) * (tr_ord * nat))%type.",
             "Definition tr_jet := list tr_term.", ""]

    def d(name, typ, body):
        lines.append("Definition %s : %s :=\n  %s." % (name, typ, body))

    jet = coq_jet

    d("tr_density_tested", "tr_jet", jet(tr["density_tested"]))
    d("tr_density_returned", "tr_jet", jet(tr["density_returned"]))
    for dt in ("general", "direct"):
        body = "[" + ";\n   ".join("(%s, %s)" % (coq_ord(L), jet(f)) for L, f in tr["deriv_" + dt]) + "]"
        d("tr_deriv_" + dt, "list (tr_ord * tr_jet)", body)
        d("tr_grad_" + dt, "list tr_jet", "[" + ";\n   ".join(jet(f) for f in tr["grad_" + dt]) + "]")
        d("tr_lap_" + dt, "tr_jet", jet(tr["lap_" + dt]))
        d("tr_hess_" + dt, "list (list tr_jet)",
          "[" + ";\n   ".join("[" + ";\n    ".join(jet(f) for f in row) + "]" for row in tr["hess_" + dt]) + "]")
        d("tr_ked_%s_tested" % dt, "tr_jet", jet(tr["ked_%s_tested" % dt]))
        d("tr_ked_%s_returned" % dt, "tr_jet", jet(tr["ked_%s_returned" % dt]))
        d("tr_gked_%s_a0" % dt, "tr_jet", jet(tr["gked_%s_a0" % dt]))
        d("tr_gked_%s_a1" % dt, "tr_jet", jet(tr["gked_%s_a1" % dt]))
        d("tr_gked_%s_zero" % dt, "tr_jet", jet(tr["gked_%s_zero" % dt]))
    return "\n".join(lines) + "\n"


def regenerate():
    """Returns None on success, else a string describing the translator failure (Gen file left untouched)."""
    try:
        text = render(trace_all())
    except TraceError as exc:
        return "trace translator cannot interpret the current density.py: %s" % (exc,)
    except Exception as exc:  # noqa: BLE001
        import traceback

        return "trace translator crashed on the current density.py: %s\n%s" % (exc, traceback.format_exc()[-1200:])
    old = None
    if os.path.exists(GEN):
        with open(GEN) as f:
            old = f.read()
    if old != text:
        os.makedirs(os.path.dirname(GEN), exist_ok=True)
        tmp = GEN + ".tmp%d" % os.getpid()
        with open(tmp, "w") as f:
            f.write(text)
        os.replace(tmp, GEN)
    return None


if __name__ == "__main__":
    repo = os.environ.get("GBASIS_REPO", "/repo")
    if sys.path[0] != repo:
        sys.path.insert(0, repo)
    err = regenerate()
    print(err or ("wrote " + GEN))
    sys.exit(1 if err else 0)
