"""C10 — the Cartesian-to-spherical matrix is the set of real regular solid harmonics.

Correspondence of `gbasis.spherical.generate_transformation` (and of the default component orders of
`GeneralizedContractionShell`) with the EXACT Coq model `Model/SphExact.v`, in which every matrix entry is a
pair (r, q) denoting r*sqrt(q) with r, q rational.  The model is evaluated by the extracted runner (commands
170 = generate_transformation, 171 = default conventions, 172 = check_l); a seeded subset of the same commands
is re-evaluated inside Coq by `vm_compute` from a generated `_work/cases_c10.v` (one `coqc` call) and must give
the same S-expression, which checks the extraction.  Labels travel as lists of character codes.

Streams: default conventions for every l <= 10 (both `apply_from` values, list and tuple); every permutation of
the Cartesian order for l <= 2 (l = 3: a seeded sample in the quick tier, all 10! in the thorough tier, walked in
blocks) and random ones above; every order/sign pattern of the labels for l <= 2 and random ones above; a
malformed stream (labels that are not one of the four documented forms, wrong count, repeated / missing
functions, wrong index, Cartesian lists that are not a rearrangement of the components) on which model and
implementation must both reject (any exception = rejected); most requests are SEQUENCES of calls on one pair of
caller-owned convention objects (list or tuple of labels, component array) that must come back unchanged, each
result compared with the model ("right" then "left", twice "left", ...); the overlap matrix of one spherical shell
(implementation only) must be the identity to 1e-8; once per run the generic-field model `Model/Spherical.v`
(command 4, used by the integral checks) is compared with the exact model for l <= 4.  The component array is
handed over in every signed integer width (int8 .. int64; key "cart_dtype") and as plain Python sequences."""
import itertools
import json
import math
import os
import random
import subprocess
from fractions import Fraction

import mpmath
import numpy as np

import lib
from lib import call_impl, gen_shell, run_cases

RULE = ("generate_transformation vs exact r*sqrt(q) model: default conventions for every l in 0..10 x {left,right}; "
        "Cartesian orders: all permutations for l<=2, l=3 sampled (quick) / all 10! in blocks (thorough), random above; "
        "label order/sign patterns: all (2l+1)! * 2^(2l+1) for l<=2, random above; malformed stream (bad label syntax, "
        "count, repeats, index, bad Cartesian lists) where both sides must reject; default orders of the shell class "
        "for every l<=10; identity overlap of one spherical shell (l<=4 quick, l<=6 thorough). REUSED OBJECTS (tag "
        "'reused-objects'; every case of the default, label-pattern, random-convention, malformed and l<=2 cart-perm "
        "streams, every 5th l=3 sample): ONE labels object (a list, or a tuple when as_tuple) and ONE component array "
        "are handed to a sequence of 2-3 calls ('right','left','left' / 'left','left','right' / ...); after every call, "
        "returning or raising, the objects must be element-wise what the caller built, and EVERY result of the sequence "
        "is compared with the exact model for its side. DTYPE of the caller's component array: stream 'dtype-sweep' = the "
        "default convention for every l in 0..10 with cartesian_order as int8 / int16 / int32 / int64 ndarray and as a "
        "plain list of lists / list of tuples; the random-convention stream (l 3..10) cycles int8, int16, int32, int64, "
        "list, tuples over its cases (components never exceed 10; unsigned arrays are not generated: 2a-1 wraps for a=0 "
        "and HEAD returns NaN for them at every l); an ndarray of any signed width must give the model's matrix, a plain "
        "Python sequence may be rejected (documented TypeError) or must give the model's matrix; evidence counters "
        "'cartesian_order as <dtype>'. A case is non-trivial "
        "when l>=1 (more than one function) or when it belongs to the malformed stream; distinct by the hash of the "
        "exact request; a block of permutations counts as one distinct case")
ASSUMPTIONS = [
    "relative tolerance 1e-12 on every non-zero entry (entries the model gives as exactly 0 must be below 1e-12 in "
    "magnitude); floating-point rounding of the NumPy pipeline is not modelled",
    "the identification of a row with a function of (x,y,z) uses the normalisation constant of unit-normalised "
    "Cartesian Gaussians of one shell (analytic bridge B1 of DESIGN.md 2.6), documented in Model/SphExact.v",
    "Python str handling (str.replace, int(), format) is not modelled: label strings are compared through the "
    "model's own parser of the four documented forms",
]
EXTRA = {"exhaustive": False}
TOL = 1e-12

SIDES = ("left", "right")
# sequences of calls made with ONE pair of convention objects ("right" then "left"; twice "left"; ...)
REUSE = (["right", "left", "left"], ["left", "left", "right"], ["left", "right"], ["right", "right", "left"])


# dtype of the caller's Cartesian component array (components never exceed 10, so every signed integer width holds them;
# the docstring asks for "np.ndarray(L, 3)" only).  Absent key = the platform default of np.array(list of ints).
# "list" / "tuples" are plain Python sequences: the function documents a TypeError for them, so a rejection is
# accepted; if they are ever accepted the matrix must be the model's (nothing else is demanded).
# Unsigned arrays are NOT generated: 2*a-1 wraps for a = 0 and generate_transformation of /repo HEAD returns NaN
# rows for them at every l (noted in the round-d report to the lead).
CART_DTYPES = ("int8", "int16", "int32", "int64", "uint8", "uint16", "uint64", "int8", "int16", "list", "tuples")
ARRAY_DTYPES = ("int8", "int16", "int32", "int64", "uint8", "uint16", "uint32", "uint64")   # unsigned: defect repaired by fix e0b85db


def with_dtype(case, k):
    """cycle the dtype of the component array deterministically over the cases of a stream"""
    case["cart_dtype"] = CART_DTYPES[k % len(CART_DTYPES)]
    return case


def build_carts(case):
    """the caller-owned component object of a request and an independent copy of what the caller built"""
    dt = case.get("cart_dtype")
    rows = [[int(x) for x in c] for c in case["carts"]]
    if dt == "list":
        return [list(c) for c in rows], [list(c) for c in rows]
    if dt == "tuples":
        return [tuple(c) for c in rows], [tuple(c) for c in rows]
    npdt = np.dtype(dt) if dt else np.dtype(int)
    ok = all(len(c) == 3 for c in rows)
    a = np.array(rows, dtype=npdt).reshape(len(rows), 3) if (rows and ok) else (
        np.array(rows, dtype=npdt) if rows else np.zeros((0, 3), npdt))
    return a, a.copy()


def carts_unchanged(carts, carts0):
    if isinstance(carts0, np.ndarray):
        return (isinstance(carts, np.ndarray) and carts.shape == carts0.shape and carts.dtype == carts0.dtype
                and bool(np.array_equal(carts, carts0)))
    return (type(carts) is type(carts0) and len(carts) == len(carts0)
            and all(type(a) is type(b) and a == b for a, b in zip(carts, carts0)))


def with_reuse(case, k):
    """turn a single request into a sequence on the same objects; the first side stays the case's own"""
    seqs = [q for q in REUSE if q[0] == case["side"]]
    case["reuse"] = list(seqs[k % len(seqs)])
    return case


# ----------------------------------------------------------------------------------------------
# conventions
# ----------------------------------------------------------------------------------------------
def default_comps(l):
    return [[x, y, l - x - y] for x in range(l, -1, -1) for y in range(l - x, -1, -1)]


def default_labels(l):
    if l == 1:
        return ["c1", "s1", "c0"]
    return ["s%d" % m for m in range(l, 0, -1)] + ["c%d" % m for m in range(l + 1)]


def enc_labels(labels):
    return "(" + " ".join("(" + " ".join(str(min(ord(ch), 255)) for ch in s) + ")" for s in labels) + ")"


def enc_comps(carts):
    return "(" + " ".join("(%d %d %d)" % tuple(c) for c in carts) + ")"


def cmd170(case):
    return "(170 %d %s %s %d)" % (case["l"], enc_comps(case["carts"]), enc_labels(case["labels"]),
                                  0 if case["side"] == "left" else 1)


# ----------------------------------------------------------------------------------------------
# exact value r*sqrt(q) against a float
# ----------------------------------------------------------------------------------------------
_SURD = {}


def surd_value(r, q):
    key = (r, q)
    v = _SURD.get(key)
    if v is None:
        mv = lib.mpf_of(r) * mpmath.sqrt(lib.mpf_of(q))
        v = (mv, float(mv))
        if len(_SURD) < 200000:
            _SURD[key] = v
    return v


def entry_ok(x, r, q, tol=TOL):
    """|x - r sqrt q| <= tol * |r sqrt q|  (exact zero expected: |x| <= tol). Decided exactly near the boundary."""
    if not math.isfinite(x):
        return False
    if r == 0:
        return abs(x) <= tol
    mv, fv = surd_value(r, q)
    d = abs(x - fv)
    if d <= 0.9 * tol * abs(fv):
        return True
    if d > 1.1 * tol * abs(fv):
        return False
    return abs(mpmath.mpf(x) - mv) <= mpmath.mpf(tol) * abs(mv)


def compare_matrix(impl, model_mat):
    impl = np.asarray(impl)
    shape = (len(model_mat), len(model_mat[0]) if model_mat else 0)
    if tuple(impl.shape) != shape:
        return {"kind": "shape", "impl_shape": list(impl.shape), "model_shape": list(shape)}
    for i, row in enumerate(model_mat):
        for j, (r, q) in enumerate(row):
            x = float(impl[i, j])
            if not entry_ok(x, r, q):
                mv, fv = surd_value(r, q) if r != 0 else (mpmath.mpf(0), 0.0)
                return {"kind": "value", "index": [i, j], "impl": repr(x), "model": "%.17g" % fv,
                        "model_exact": "%s*sqrt(%s)" % (r, q), "tol": "rel %g" % TOL}
    return None


# ----------------------------------------------------------------------------------------------
# evaluation of one case
# ----------------------------------------------------------------------------------------------
def eval_gen(model, case):
    """One request, or (case["reuse"] = list of sides) a SEQUENCE of requests made with the SAME convention objects:
    one list (or tuple) of labels and one component array are built once and handed to every call of the sequence.
    After every call, returning or raising, the objects must still hold exactly what the caller put there (same
    length, every element the same str / the same integers), and every result must agree with the exact model for
    its side - so a call that edits the caller's convention, or remembers something from an earlier call, shows."""
    from gbasis.spherical import generate_transformation

    labels0 = list(case["labels"])
    labels = tuple(labels0) if case.get("as_tuple") else list(labels0)
    carts, carts0 = build_carts(case)
    plain = case.get("cart_dtype") in ("list", "tuples")
    sides = case.get("reuse") or [case["side"]]
    models = {}
    for k, side in enumerate(sides):
        if side not in models:
            models[side] = model.call(cmd170(dict(case, side=side)))
        res = models[side]
        st, impl = call_impl(generate_transformation, case["l"], carts, labels, side)
        d = None
        same_labels = (len(labels) == len(labels0)
                       and all(type(a) is type(b) and a == b for a, b in zip(labels, labels0)))
        if not same_labels:
            d = {"kind": "convention-object-changed", "object": "spherical_order (%s)" % type(labels).__name__,
                 "impl": "after the call: %r" % (list(labels),), "model": "as passed: %r" % (labels0,)}
        elif not carts_unchanged(carts, carts0):
            d = {"kind": "convention-object-changed", "object": "cartesian_order (%s)" % (case.get("cart_dtype") or "int"),
                 "impl": "after the call: %r" % (np.asarray(carts).tolist(),),
                 "model": "as passed: %r" % (np.asarray(carts0).tolist(),)}
        elif plain and st != "ok":
            d = None        # a plain Python sequence instead of an array: documented TypeError (any exception = rejected)
        else:
            d = compare_outcome(st, impl, res)
            if d is not None and case.get("cart_dtype"):
                d["cartesian_order_dtype"] = case["cart_dtype"]
        if d is not None:
            if len(sides) > 1:
                d["call"] = "call %d of %d with the same objects, apply_from=%r (sequence %r)" % (k + 1, len(sides), side, sides)
            return d
    return None


def compare_outcome(st, impl, res):
    m_ok = len(res) == 1
    i_ok = st == "ok"
    if m_ok != i_ok:
        if i_ok:
            return {"kind": "accepted-invalid-convention",
                    "impl": "returned a matrix of shape %s: %s" % (np.shape(impl), repr(np.round(impl, 6).tolist())[:300]),
                    "model": "rejected (not a valid convention: labels must be 2l+1 distinct functions written "
                             "c{m}, s{m}, -c{m} or -s{m}; Cartesian order must be a rearrangement of the components)"}
        return {"kind": "rejected-valid-convention", "impl": "rejected: " + str(impl), "model": "accepted"}
    if not m_ok:
        return None
    return compare_matrix(impl, res[0])


def perm_unrank(items, k):
    items = list(items)
    out = []
    n = len(items)
    for i in range(n, 0, -1):
        f = math.factorial(i - 1)
        out.append(items.pop(k // f))
        k %= f
    return out


def block_cases(case):
    l = case["l"]
    comps = default_comps(l)
    labels = default_labels(l)
    for k in range(case["start"], case["start"] + case["count"]):
        yield {"kind": "gen", "l": l, "carts": perm_unrank(comps, k), "labels": labels,
               "side": SIDES[k % 2], "stream": "cart-perm"}


def eval_case(model, case):
    kind = case["kind"]
    if kind == "gen":
        d = eval_gen(model, case)
        nontriv = case["l"] >= 1 or case.get("stream") == "malformed"
        return {"detail": d, "nontrivial": nontriv,
                "stats": {"cartesian_order as %s" % (case.get("cart_dtype") or "default int array"): 1},
                "tag": "%s%s l=%d" % (case.get("stream", "gen"), " reused-objects" if case.get("reuse") else "", case["l"])}
    if kind == "permblock":
        fails = []
        n = 0
        for sub in block_cases(case):
            n += 1
            d = eval_gen(model, sub)
            if d is not None and len(fails) < 3:
                fails.append((sub, d))
        return {"detail": None, "nontrivial": True, "tag": "cart-perm-block l=%d" % case["l"], "n": n, "fails": fails}
    if kind == "defaults":
        from gbasis.contractions import GeneralizedContractionShell

        l = case["l"]
        comps, labs = model.call("(171 %d)" % l)
        m_comps = [[int(x) for x in c] for c in comps]
        m_labs = ["".join(chr(int(x)) for x in s) for s in labs]
        sh = GeneralizedContractionShell(l, np.zeros(3), np.ones((1, 1)), np.ones(1), "spherical")
        i_comps = np.asarray(sh.angmom_components_cart).tolist()
        i_labs = list(sh.angmom_components_sph)
        d = None
        if i_comps != m_comps:
            d = {"kind": "default-cartesian-order", "impl": str(i_comps)[:300], "model": str(m_comps)[:300]}
        elif i_labs != m_labs:
            d = {"kind": "default-spherical-order", "impl": str(i_labs), "model": str(m_labs)}
        else:
            # the extracted checker agrees with the theorem C10_all
            if l <= 10 and int(model.call("(172 %d)" % l)) != 1:
                d = {"kind": "check_l", "impl": "-", "model": "extracted check_l %d = false" % l}
        return {"detail": d, "nontrivial": l >= 1, "tag": "defaults"}
    if kind == "ovl":
        from gbasis.integrals.overlap import overlap_integral

        sh = lib.XShell.from_json(case["shell"])
        st, impl = call_impl(overlap_integral, [sh.to_gbasis()])
        if st != "ok":
            return {"detail": {"kind": "rejected", "impl": impl}, "tag": "shell-overlap"}
        nseg = len(sh.coeffs[0])
        L = 2 * sh.l + 1
        d = None
        if impl.shape != (nseg * L, nseg * L):
            d = {"kind": "shape", "impl_shape": list(impl.shape), "model_shape": [nseg * L, nseg * L]}
        else:
            blk = impl.reshape(nseg, L, nseg, L)
            for a in range(nseg):
                for b in range(nseg):
                    B = blk[a, :, b, :]
                    # same segment: identity; two segments of one shell: a multiple of the identity
                    ref = np.eye(L) * (1.0 if a == b else B[0, 0])
                    err = np.abs(B - ref).max()
                    if not err <= 1e-8:
                        d = {"kind": "shell-overlap-not-identity", "segments": [a, b], "max_dev": float(err),
                             "impl": repr(B.tolist())[:400], "tol": 1e-8}
        return {"detail": d, "nontrivial": sh.l >= 1, "tag": "shell-overlap l=%d" % sh.l}
    if kind == "xmodel":
        l = case["l"]
        comps = default_comps(l)
        labs = default_labels(l)
        trip = [[0, 1 if s[0] == "s" else 0, int(s[1:])] for s in labs]
        gen = model.call("(4 %d %s %s)" % (l, enc_comps(comps), lib.sx(trip)))
        ex = model.call(cmd170({"l": l, "carts": comps, "labels": labs, "side": "left"}))[0]
        d = None
        for i, row in enumerate(ex):
            for j, (r, q) in enumerate(row):
                g = gen[i][j]
                v = lib.mpf_of(r) * mpmath.sqrt(lib.mpf_of(q))
                if abs(lib.mpf_of(g) - v) > mpmath.mpf(10) ** -18 * max(1, abs(v)):
                    d = {"kind": "generic-vs-exact-model", "index": [i, j], "impl": "-",
                         "model": "generic %s vs exact %s*sqrt(%s)" % (float(g), r, q)}
        return {"detail": d, "nontrivial": l >= 1, "tag": "generic-vs-exact-model"}
    raise ValueError(kind)


# ----------------------------------------------------------------------------------------------
# generators
# ----------------------------------------------------------------------------------------------
def valid_label_set(l):
    return ["c%d" % m for m in range(l + 1)] + ["s%d" % m for m in range(1, l + 1)]


def malformed_cases(rng, tier):
    cases = []

    def add(l, carts, labels, why, side=None):
        cases.append(with_reuse({"kind": "gen", "l": l, "carts": carts, "labels": labels,
                                 "side": side or SIDES[len(cases) % 2], "stream": "malformed", "why": why},
                                len(cases) // 2))

    lmax = 3 if tier == "quick" else 5
    for l in list(range(lmax + 1)) + [10]:
        base = default_labels(l)
        comps = default_comps(l)
        positions = range(len(base)) if l <= 2 else sorted(rng.sample(range(len(base)), 3))
        for k in positions:
            lab = base[k]
            t, m = lab[0], lab[1:]
            muts = ["%s-%s" % (t, m), "-%s-%s" % (t, m), "--%s%s" % (t, m), "%s%s-" % (t, m), "%s--%s" % (t, m),
                    "-%s%s-" % (t, m), "%s+%s" % (t, m), "+%s%s" % (t, m), " %s%s" % (t, m), "%s%s " % (t, m),
                    "%s %s" % (t, m), t.upper() + m, "%s0%s" % (t, m), "%s%s.0" % (t, m), "%s%s_0" % (t, m), "", "-",
                    t, "-" + t, "x" + m, "%s%d" % (t, l + 1), "-%s%d" % (t, l + 1), m, "%s\u0661" % t,
                    "%s%s\n" % (t, m), "- %s%s" % (t, m), "%s-" % t, "%s%s%s" % (t, m, m) if l < 11 else "q"]
            if t == "c":
                muts += ["s0", "-s0", "s-0"]
            for mu in muts:
                labs = list(base)
                labs[k] = mu
                add(l, comps, labs, "label %r in place of %r" % (mu, lab))
        # count / repeats / index sets of another shell
        add(l, comps, base[:-1], "one label missing")
        add(l, comps, base + [base[-1]], "one label too many")
        add(l, comps, base + ["-" + base[-1]], "one label too many (negated copy)")
        add(l, comps, [], "no labels")
        add(l, comps, default_labels(l + 1), "labels of l+1")
        if l >= 1:
            add(l, comps, default_labels(l - 1), "labels of l-1")
            labs = list(base)
            labs[0] = labs[1]
            add(l, comps, labs, "repeated label")
            labs = list(base)
            labs[0] = "-" + labs[1]
            add(l, comps, labs, "repeated label, one negated")
            labs = list(base)
            labs[-1] = labs[0].replace("s", "c") if labs[0][0] == "s" else labs[1]
            add(l, comps, labs, "repeated function")
        # Cartesian lists that are not a rearrangement of the components
        if l >= 1:
            c2 = [list(c) for c in comps]
            c2[0] = list(c2[1])
            add(l, c2, base, "repeated Cartesian component")
            add(l, comps[:-1], base, "Cartesian component missing")
            add(l, comps + [comps[0]], base, "Cartesian component too many")
            c3 = [list(c) for c in comps]
            c3[-1] = [c3[-1][0], c3[-1][1], c3[-1][2] + 1]
            add(l, c3, base, "Cartesian component of degree l+1")
            add(l, default_comps(l + 1), base, "components of l+1")
            add(l, default_comps(l - 1), base, "components of l-1")
    return cases


def gen_cases(tier, seed):
    rng = random.Random(1000003 * seed + 10)
    quick = tier == "quick"
    cases = []
    # default conventions, every l <= 10, both forms, list and tuple
    for l in range(11):
        cases.append({"kind": "defaults", "l": l})
        for side in SIDES:
            cases.append(with_reuse({"kind": "gen", "l": l, "carts": default_comps(l), "labels": default_labels(l),
                                     "side": side, "as_tuple": side == "right", "stream": "default"}, l))
        # the same request with the component array in every integer width (and as plain Python sequences)
        for k, dt in enumerate(ARRAY_DTYPES + ("list", "tuples")):
            cases.append({"kind": "gen", "l": l, "carts": default_comps(l), "labels": default_labels(l),
                          "side": SIDES[(l + k) % 2], "as_tuple": k % 2 == 1, "stream": "dtype-sweep", "cart_dtype": dt})
    # Cartesian orders: all permutations l <= 2
    for l in (0, 1, 2):
        for k, p in enumerate(itertools.permutations(default_comps(l))):
            cases.append(with_reuse({"kind": "gen", "l": l, "carts": [list(c) for c in p], "labels": default_labels(l),
                                     "side": SIDES[k % 2], "stream": "cart-perm"}, k // 2))
    if quick:
        for k in range(5000):
            p = default_comps(3)
            rng.shuffle(p)
            c = {"kind": "gen", "l": 3, "carts": p, "labels": default_labels(3), "side": SIDES[k % 2],
                 "stream": "cart-perm"}
            cases.append(with_reuse(c, k // 20) if k % 10 < 2 else c)
    else:
        total = math.factorial(10)
        step = 5040
        for start in range(0, total, step):
            cases.append({"kind": "permblock", "l": 3, "start": start, "count": min(step, total - start)})
    # label order / sign patterns: all for l <= 2
    for l in (0, 1, 2):
        base = default_labels(l)
        k = 0
        for p in itertools.permutations(base):
            for signs in itertools.product((False, True), repeat=len(base)):
                labs = [("-" + s) if n else s for s, n in zip(p, signs)]
                cases.append(with_reuse({"kind": "gen", "l": l, "carts": default_comps(l), "labels": labs,
                                         "side": SIDES[k % 2], "as_tuple": k % 3 == 0, "stream": "label-pattern"},
                                        k // 2))
                k += 1
    # random conventions above (both orders shuffled, random signs)
    nrand = 30 if quick else 150
    for l in range(3, 11):
        for k in range(nrand if l <= 8 else max(3, nrand // 4)):
            comps = default_comps(l)
            labs = default_labels(l)
            if k % 3 != 1:
                rng.shuffle(comps)
            if k % 3 != 2:
                rng.shuffle(labs)
                labs = [("-" + s) if rng.random() < 0.4 else s for s in labs]
            cases.append(with_dtype(with_reuse({"kind": "gen", "l": l, "carts": comps, "labels": labs,
                                                "side": SIDES[k % 2], "as_tuple": k % 4 == 0,
                                                "stream": "random-convention"}, k // 2), k + l))
    cases += malformed_cases(rng, tier)
    # overlap of one spherical shell
    lmax = 4 if quick else 6
    for l in range(lmax + 1):
        for k in range(2 if quick else 6):
            sh = gen_shell(rng, l=l, kmax=1 if k == 0 else 3, mmax=1 if k % 2 == 0 else 2, sph=True)
            cases.append({"kind": "ovl", "shell": sh.to_json()})
    for l in range(5):
        cases.append({"kind": "xmodel", "l": l})
    return cases


def shrink_case(case):
    if case.get("kind") != "gen":
        return
    l = case["l"]
    if case.get("cart_dtype"):
        c = dict(case)
        del c["cart_dtype"]
        yield c
    if case["carts"] != default_comps(l) and len(case["carts"]) == len(default_comps(l)):
        c = dict(case)
        c["carts"] = default_comps(l)
        yield c
    base = default_labels(l)
    if len(case["labels"]) == len(base):
        for k, (a, b) in enumerate(zip(case["labels"], base)):
            if a != b:
                c = dict(case)
                c["labels"] = list(case["labels"])
                c["labels"][k] = b
                yield c
    if case.get("reuse"):
        seq = case["reuse"]
        for k in range(len(seq)):
            c = dict(case)
            c["reuse"] = seq[:k] + seq[k + 1:]
            if c["reuse"]:
                c["side"] = c["reuse"][0]
            else:
                del c["reuse"]
            yield c
    elif case["side"] != "left":
        c = dict(case)
        c["side"] = "left"
        yield c


# ----------------------------------------------------------------------------------------------
# in-Coq re-evaluation of a seeded subset (checks the extraction)
# ----------------------------------------------------------------------------------------------
def coq_of_sx(s):
    out = []
    first = [True]
    for tokn in s.replace("(", " ( ").replace(")", " ) ").split():
        if tokn == "(":
            if not first[-1]:
                out.append("; ")
            first[-1] = False
            out.append("SL [")
            first.append(True)
        elif tokn == ")":
            out.append("]")
            first.pop()
        else:
            if not first[-1]:
                out.append("; ")
            first[-1] = False
            if "/" in tokn:
                a, b = tokn.split("/")
                out.append("SQ (%s)%%Z %s%%positive" % (a, b))
            else:
                out.append("SZ (%s)%%Z" % tokn)
    return "".join(out)


def coq_crosscheck(rep, model, cases, rng):
    gens = [c for c in cases if c["kind"] == "gen" and c["l"] <= 6]
    if not gens:
        return
    pick = rng.sample(gens, min(len(gens), max(40, len(gens) // 200)))
    pick += [c for c in gens if c.get("stream") == "malformed"][:25]
    lines = ["From Coq Require Import ZArith QArith Qcanon List.",
             "From GB Require Import Base.Field Extract.Sx Extract.RunC10.",
             "Import ListNotations.",
             "Definition K0 : Fops Qc := QcK true (Q2Qc 0) (fun x => x) (fun x => x) (fun x => x) (fun _ x => x).",
             "Definition same (c : Z) (args : list sx) (expected : sx) : bool :=",
             "  match run_c10 K0 c args with Some r => sx_eqb r expected | None => false end.",
             "Definition all_same : bool := forallb (fun b : bool => b) ["]
    items = []
    for c in pick:
        cmd = cmd170(c)
        raw = model.call_raw(cmd).strip()
        args = coq_of_sx(cmd)  # SL [SZ 170; a; b; c; d]
        assert args.startswith("SL [SZ (170)%Z; ")
        items.append("  same 170%%Z [%s (%s)" % (args[len("SL [SZ (170)%Z; "):], coq_of_sx(raw)))
    lines.append(";\n".join(items))
    lines.append("].")
    lines.append("Eval vm_compute in all_same.")
    path = os.path.join(lib.WORK, "cases_c10.v")
    with open(path, "w") as f:
        f.write("\n".join(lines) + "\n")
    p = subprocess.run(["timeout", "600", "coqc", "-Q", os.path.join(lib.VERIF, "coq"), "GB", path],
                       cwd=lib.WORK, capture_output=True, text=True)
    ok = p.returncode == 0 and "= true" in p.stdout
    EXTRA["in_coq_vm_compute_crosscheck"] = {"cases": len(pick), "agree": bool(ok)}
    if not ok:
        rep.violation({"kind": "extraction-crosscheck", "file": path},
                      {"note": "extracted runner and in-Coq vm_compute disagree (or the generated file does not compile)",
                       "coqc": (p.stdout + p.stderr)[-1500:]}, kind="translator")


# ----------------------------------------------------------------------------------------------
def run(rep, tier, seed, model, replay):
    if replay is not None:
        case = replay["case"]
        if case.get("kind") in ("gen", "defaults", "ovl", "xmodel", "permblock"):
            run_cases(rep, [case], eval_case, shrinkfn=None)
        return
    cases = gen_cases(tier, seed)
    blocks = [c for c in cases if c["kind"] == "permblock"]
    singles = [c for c in cases if c["kind"] != "permblock"]
    run_cases(rep, singles, eval_case, shrinkfn=shrink_case)
    if blocks:
        run_blocks(rep, blocks)
    if model is not None:
        coq_crosscheck(rep, model, singles, random.Random(1000003 * seed + 11))
    EXTRA["exhaustive"] = False
    EXTRA["enumerated_completely"] = (
        "l in 0..10 (default conventions, Coq theorem C10_all and correspondence); Cartesian permutations for l<=2"
        + ("" if tier == "quick" else " and l=3 (all 3628800)") + "; label order/sign patterns for l<=2")


def run_blocks(rep, blocks):
    import multiprocessing as mp

    ctx = mp.get_context("fork")
    with ctx.Pool(min(16, len(blocks)), initializer=lib._worker_init, initargs=(eval_case,)) as pool:
        for case, out, err in pool.imap_unordered(lib._worker_run, blocks, chunksize=1):
            if err is not None:
                raise RuntimeError("harness error on block %s:\n%s" % (json.dumps(case), err))
            rep.count(case, nontrivial=True, tag=out["tag"])
            rep.evaluations += out["n"] - 1
            for sub, d in out["fails"]:
                if len(rep.violations) < 20:
                    rep.violation(sub, d)
