"""C20 — overlap screening follows the documented cutoff and is conservative.

Correspondence: overlap_integral(basis, transform, tol_screen) and
Overlap.construct_array_contraction(sa, sb, tol_screen) of /repo against the exact Coq model
(coq/Model/Screening.v; runner commands 230-233, evaluated by the extracted model at exact rationals,
ln / sqrt / exp / pi by the mpmath oracle).  A seeded subset of the decision commands is re-evaluated inside
Coq by vm_compute (generated _work/cases_c20.v) and must agree exactly with the extracted model.

The model decides a pair by comparing squares, d^2 > -(a+b)/(ab) ln tol (exact up to the 72-bit
logarithm); the code compares floating-point square roots.  A pair whose centre distance lies within
a relative 1e-9 of the cutoff is an "either answer" pair: its block must be exactly zero or equal to
the unscreened block, nothing else is demanded.  Everywhere else the decision must be the model's.

Case kinds
  basis : one basis, a sorted list of tolerances (plus None), optionally a transform.  Checks
          (iii) tol=None == default call == unscreened model; per tolerance the block pattern (i),
          kept blocks == unscreened implementation blocks (bitwise or 1e-12) and == exact model (1e-8) (ii),
          (iv) zeroed-block sets nested for increasing tolerance, (vi) the s-type bound on every removed
          s-s element, transform = T S T^t of the screened matrix.
  block : construct_array_contraction(sa, sb, tol_screen) against command 232 (shape, exact zeros, values).
  bool  : tol_screen=True/False must be rejected.
Streams (tag prefix): rand (cutoff-scaled random geometry), grid (generic grid geometry), near (pairs
placed at the cutoff to 1 ulp: either answer), edge (pairs at cutoff*(1 +- 2^-20 / 2^-27): definite),
minmax (the largest / first / last exponent would give the other decision) (v), history (kind "history": a sequence
of screened calls on the SAME shell objects with exponent changes - setter or in place, then assign_norm_cont() - in
between; every call judged by the model for the shells as they are at that call; see eval_history)."""
import math
import random
from fractions import Fraction

import mpmath
import numpy as np

from lib import XShell, call_impl, compare, gen_shell, run_cases, short_float, shrink_shell_json, tok

RULE = ("bases of 2-5 shells, l 0..3, 1-4 primitives with exponents log-uniform in 0.05..500 (8-bit mantissas; a "
        "53-bit stream in thorough), 1-3 segments, every shell Cartesian or spherical; centres collinear along an "
        "integer-norm direction with gaps = (0.3..3) x a pair cutoff rounded to 1/16 bohr (all pair distances exactly "
        "representable, 0..30 bohr) or on a 1/16 grid; tolerances 2^-k (k=1..53), decimal doubles 1e-16..0.5 and "
        "log-uniform doubles, always with None; with/without transform; separate streams: pairs at the cutoff to "
        "1 ulp (either answer accepted), pairs at cutoff*(1 +- 2^-20), (1 +- 2^-27) (definite answer demanded), "
        "min-vs-max-exponent discriminating pairs, bool tolerance. HISTORY stream (tag 'history', detail kind "
        "'history'; 36 quick / 400 thorough): ONE list of 2-3 shell objects (l 0..2) lives through three calls: screened "
        "call -> the exponents of shell 0 (40%: also shell 1) are changed so that the smallest one moves by a factor "
        "4..50 down (tight->diffuse) or up (all exponents scaled, or only the smallest moved; through the setter "
        "shell.exps = array or in place shell.exps[...] = array, alternating), then shell.assign_norm_cont() -> screened "
        "call with pair (0,1) at a distance strictly between the old and the new cutoff (5% margins) -> exponents "
        "restored by the other mechanism -> screened call; level overlap_integral (2/3) or construct_array_contraction "
        "for every ordered pair (1/3); EVERY call is compared with the exact model of the rule for the shells as they "
        "are at that call (removed blocks exactly zero, kept blocks = unscreened call on the same objects and = exact "
        "model); a history case is non-trivial when the previous exponents would decide some pair the other way; "
        "shrinking keeps >= 2 calls and runs every candidate in a fresh process. A basis case is non-trivial when at least one "
        "block is removed and one off-diagonal block is kept over its tolerances (or it belongs to a special "
        "stream and the stream's premise holds); distinct by hash of the exact input")
ASSUMPTIONS = [
    "floating-point rounding of np.linalg.norm / np.sqrt / np.log in the comparison is not modelled: pairs within "
    "a relative 1e-9 of the cutoff accept either decision",
    "ln(tol) in the executable model is a 72-bit dyadic rounding of mpmath's value; the theorems use the real ln",
    "the 1e-8 agreement of kept blocks with the exact value is decided on the generated inputs only",
    "rejection of a bool tolerance is the code's documented behaviour (TypeError), not part of the property text; "
    "any exception counts as rejected",
]
TOL = 1e-8
EPS = Fraction(1, 10**9)
DIRS = [(1, 0, 0), (0, 1, 0), (0, 0, 1), (1, 2, 2), (2, 1, 2), (2, 2, 1), (3, 4, 0), (0, 3, 4), (4, 0, 3),
        (2, 3, 6), (6, 2, 3), (1, 4, 8), (4, 4, 7), (2, 6, 9), (6, 6, 7)]


def dir_norm(u):
    n2 = sum(x * x for x in u)
    n = math.isqrt(n2)
    assert n * n == n2
    return n


def tol_sx(t):
    return "()" if t is None else "(%s)" % tok(t)


def parse_tol(t):
    return None if t is None else Fraction(t)


# ----------------------------------------------------------------------------------------------
# evaluation
# ----------------------------------------------------------------------------------------------
def decide(model, tol, sa, sb):
    """Model decision for one pair: (screened?, near?, d2, rad, min_a, min_b)."""
    bit, d2, rad, ma, mb = model.call("(230 %s %s %s)" % (tol_sx(tol), sa.sx(), sb.sx()))
    near = False
    if tol is not None and rad > 0:
        near = (1 - EPS) ** 2 * rad <= d2 <= (1 + EPS) ** 2 * rad
    return bool(bit), near, d2, rad, ma, mb


def is_zero(a):
    return bool(np.all(a == 0.0))


def same_block(a, b):
    return bool(np.array_equal(a, b) or (a.shape == b.shape and np.abs(a - b).max() <= 1e-12))


def coef_sums(model, s):
    """n_m * sum_i |d_im| for every segment m of an s shell (exact up to the oracle's sqrt)."""
    nc = model.call("(233 %s)" % s.sx())
    return [nc[m][0] * sum(abs(row[m]) for row in s.coeffs) for m in range(len(s.coeffs[0]))]


def eval_basis(model, case):
    from gbasis.integrals.overlap import overlap_integral

    basis = [XShell.from_json(s) for s in case["basis"]]
    tols = [parse_tol(t) for t in case["tols"]]
    n = len(basis)
    off = [0]
    for s in basis:
        off.append(off[-1] + s.nfun())
    nsph = sum(1 for s in basis if s.sph)
    tag = "%s basis n=%d %s%s" % (case.get("stream", "rand"), n, "cart" if nsph == 0 else ("sph" if nsph == n else "mix"),
                                 " T" if case.get("transform") is not None else "")
    stats = {"pairs removed": 0, "pairs kept": 0, "pairs at cutoff (either)": 0, "at cutoff: removed": 0,
             "s-s elements bound-checked": 0, "tolerances": len(tols)}

    def blk(mat, i, j):
        return mat[off[i]:off[i + 1], off[j]:off[j + 1]]

    def out(detail, nontrivial=True):
        return {"detail": detail, "nontrivial": nontrivial, "tag": tag, "stats": stats}

    st, gb = call_impl(lambda: [s.to_gbasis() for s in basis])
    if st != "ok":
        return out({"kind": "rejected", "impl": gb, "call": "GeneralizedContractionShell(...)"})
    # (iii) no tolerance == default == unscreened model
    st, r0 = call_impl(overlap_integral, gb)
    st2, r0b = call_impl(overlap_integral, gb, tol_screen=None)
    if st != "ok" or st2 != "ok":
        return out({"kind": "rejected", "impl": r0 if st != "ok" else r0b, "call": "tol_screen=None"})
    if not np.array_equal(r0, r0b):
        return out({"kind": "none-differs", "impl": "tol_screen=None differs from the default call"})
    m0 = model.call("(2 (%s) ())" % " ".join(s.sx() for s in basis))
    d = compare(r0, m0, tol_abs=TOL)
    if d is not None:
        d["call"] = "overlap_integral(basis) (unscreened)"
        return out(d)
    if case.get("model_none"):
        m0s = model.call("(231 (%s) () ())" % " ".join(s.sx() for s in basis))
        if m0s != m0:
            raise RuntimeError("model: tol=None differs from the unscreened model")
    m0a = np.array(m0, dtype=object)

    sums = {}
    zsets = []
    any_removed = any_kept = False
    premise = False
    results = {}
    for ti, tol in enumerate(tols):
        st, r = call_impl(overlap_integral, gb, tol_screen=float(tol))
        if st != "ok":
            return out({"kind": "rejected", "impl": r, "tol": str(tol)})
        if r.shape != r0.shape:
            return out({"kind": "shape", "impl_shape": list(r.shape), "model_shape": list(r0.shape), "tol": str(tol)})
        results[ti] = r
        zs = set()
        has_near = False
        mask = np.ones(r0.shape, dtype=bool)      # entries where the model value is the unscreened one
        undecided = np.zeros(r0.shape, dtype=bool)
        for i in range(n):
            for j in range(i, n):
                scr, near, d2, rad, ma, mb = decide(model, tol, basis[i], basis[j])
                if case.get("stream") == "minmax" and (i, j) == (0, 1) and ti == 0:
                    xa, xb = max(basis[0].exps), max(basis[1].exps)
                    premise = (not scr) and d2 > (Fraction(1) / xa + Fraction(1) / xb) * (rad / (1 / ma + 1 / mb))
                if case.get("stream") in ("near", "edge") and (i, j) == (0, 1) and ti == 0:
                    premise = near if case["stream"] == "near" else (not near)
                if i != j:
                    stats["pairs at cutoff (either)" if near else ("pairs removed" if scr else "pairs kept")] += 1
                for (p, q) in ((i, j), (j, i)) if i != j else ((i, j),):
                    b, b0 = blk(r, p, q), blk(r0, p, q)
                    z, z0 = is_zero(b), is_zero(b0)
                    info = {"pair": [p, q], "tol": str(tol), "d2": str(d2), "cutoff2": "%.17g" % float(rad),
                            "min_exps": [str(ma), str(mb)]}
                    if near:
                        has_near = True
                        if z and p <= q:
                            stats["at cutoff: removed"] += 1
                        undecided[off[p]:off[p + 1], off[q]:off[q + 1]] = True
                        if not (z or same_block(b, b0)):
                            return out(dict(info, kind="near-block", impl="block at the cutoff is neither exactly "
                                            "zero nor the unscreened block"))
                    elif scr:
                        mask[off[p]:off[p + 1], off[q]:off[q + 1]] = False
                        if not z:
                            k = np.unravel_index(np.abs(b).argmax(), b.shape)
                            return out(dict(info, kind="not-removed", impl=repr(float(b[k])), model="0 (screened)",
                                            index=[int(k[0]) + off[p], int(k[1]) + off[q]]))
                    else:
                        if not same_block(b, b0):
                            k = np.unravel_index(np.abs(b - b0).argmax(), b.shape)
                            return out(dict(info, kind="kept-block-changed", impl=repr(float(b[k])),
                                            model=repr(float(b0[k])) + " (unscreened implementation value)",
                                            index=[int(k[0]) + off[p], int(k[1]) + off[q]]))
                    if z and not z0:
                        zs.add((p, q))
                        any_removed = True
                        # (vi) conservative bound on removed s-s elements
                        if basis[p].l == 0 and basis[q].l == 0:
                            for sh in (p, q):
                                if sh not in sums:
                                    sums[sh] = coef_sums(model, basis[sh])
                            slack = (1 + Fraction(1, 10**6)) if near else 1
                            for ma_ in range(off[p + 1] - off[p]):
                                for mb_ in range(off[q + 1] - off[q]):
                                    stats["s-s elements bound-checked"] += 1
                                    val = abs(m0a[off[p] + ma_, off[q] + mb_])
                                    bound = tol * sums[p][ma_] * sums[q][mb_] * slack
                                    if not val < bound:
                                        return out(dict(info, kind="s-bound", index=[off[p] + ma_, off[q] + mb_],
                                                        model="%.17g" % float(val), bound="%.17g" % float(bound),
                                                        impl="removed element is not below tol * coefficient sums"))
                    elif (not z) and p != q:
                        any_kept = True
        zsets.append(zs)
        # exact model of the screened matrix (masked unscreened model; the assembled screened model itself
        # is run for one tolerance per case below)
        dd = compare_masked(r, m0a, mask, undecided)
        if dd is not None:
            dd["tol"] = str(tol)
            return out(dd)
        if ti == case.get("model_tol", -1) and not has_near:
            ms = model.call("(231 (%s) () %s)" % (" ".join(s.sx() for s in basis), tol_sx(tol)))
            d = compare(r, ms, tol_abs=TOL)
            if d is not None:
                d["tol"] = str(tol)
                d["call"] = "overlap_integral(basis, tol_screen=tol) vs assembled screened model"
                return out(d)
            T = case.get("transform")
            if T is not None:
                Tq = [[Fraction(x) for x in row] for row in T]
                Tf = np.array([[float(x) for x in row] for row in Tq])
                st, rt = call_impl(overlap_integral, gb, transform=Tf, tol_screen=float(tol))
                if st != "ok":
                    return out({"kind": "rejected", "impl": rt, "tol": str(tol), "call": "transform"})
                mt = model.call("(231 (%s) (%s) %s)" % (" ".join(s.sx() for s in basis),
                                                       "(" + " ".join("(" + " ".join(tok(x) for x in row) + ")"
                                                                      for row in Tq) + ")", tol_sx(tol)))
                scale = max(1.0, max(sum(abs(float(x)) for x in row) for row in Tq) ** 2)
                d = compare(rt, mt, tol_abs=TOL * scale)
                if d is not None:
                    d["tol"] = str(tol)
                    d["call"] = "overlap_integral(basis, transform, tol_screen)"
                    return out(d)
    # (iv) monotone in the tolerance (tols are sorted increasingly)
    for a in range(len(tols) - 1):
        if not zsets[a] <= zsets[a + 1]:
            extra = sorted(zsets[a] - zsets[a + 1])
            return out({"kind": "not-monotone", "tol_low": str(tols[a]), "tol_high": str(tols[a + 1]),
                        "pairs": [list(x) for x in extra],
                        "impl": "blocks removed at the lower tolerance are present at the higher one"})
    stream = case.get("stream", "rand")
    if stream in ("near", "edge", "minmax"):
        nontriv = bool(premise)
    else:
        nontriv = any_removed and any_kept
    return out(None, nontriv)


def compare_masked(r, m0a, mask, undecided):
    """impl vs (unscreened exact model where kept, 0 where removed); undecided entries skipped."""
    worst = None
    it = np.nditer(r, flags=["multi_index"])
    for x in it:
        idx = it.multi_index
        if undecided[idx]:
            continue
        xv = float(x)
        if not np.isfinite(xv):
            return {"kind": "nonfinite", "index": list(idx), "impl": repr(xv)}
        mv = m0a[idx] if mask[idx] else Fraction(0)
        diff = float(abs(Fraction(xv) - mv))
        if worst is None or diff > worst[0]:
            worst = (diff, idx, xv, mv)
    if worst is not None and worst[0] > TOL:
        return {"kind": "value", "index": list(worst[1]), "impl": repr(worst[2]), "model": "%.17g" % float(worst[3]),
                "abs_diff": worst[0], "tol_abs": TOL}
    return None


def block_scale(model, sa, sb):
    da = model.call("(1 %s %s)" % (sa.sx(), sa.sx()))
    db = model.call("(1 %s %s)" % (sb.sx(), sb.sx()))
    ma = max(float(da[m][c][m][c]) for m in range(len(da)) for c in range(len(da[0])))
    mb = max(float(db[m][c][m][c]) for m in range(len(db)) for c in range(len(db[0])))
    return max(1.0, (ma * mb) ** 0.5)


def eval_block(model, case):
    from gbasis.integrals.overlap import Overlap

    sa, sb = XShell.from_json(case["a"]), XShell.from_json(case["b"])
    tag = "%s block l=%d,%d" % (case.get("stream", "rand"), sa.l, sb.l)
    premise = False
    seen = set()
    stats = {"pairs removed": 0, "pairs kept": 0, "pairs at cutoff (either)": 0, "at cutoff: removed": 0}

    def out(detail, nontrivial=True):
        return {"detail": detail, "nontrivial": nontrivial, "tag": tag, "stats": stats}

    st, gg = call_impl(lambda: (sa.to_gbasis(), sb.to_gbasis()))
    if st != "ok":
        return out({"kind": "rejected", "impl": gg, "call": "GeneralizedContractionShell(...)"})
    ga, gb_ = gg
    st, r0 = call_impl(Overlap.construct_array_contraction, ga, gb_)
    if st != "ok":
        return out({"kind": "rejected", "impl": r0})
    m0 = model.call("(1 %s %s)" % (sa.sx(), sb.sx()))
    tolabs = TOL * block_scale(model, sa, sb)
    for ti, t in enumerate(case["tols"]):
        tol = parse_tol(t)
        kw = {"tol_screen": None if tol is None else float(tol)}
        st, r = call_impl(Overlap.construct_array_contraction, ga, gb_, **kw)
        if st != "ok":
            return out({"kind": "rejected", "impl": r, "tol": str(tol)})
        scr, near, d2, rad, ma, mb = decide(model, tol, sa, sb)
        info = {"tol": str(tol), "d2": str(d2), "cutoff2": "%.17g" % float(rad), "min_exps": [str(ma), str(mb)]}
        if ti == 0:
            if case.get("stream") == "near":
                premise = near
            elif case.get("stream") == "edge":
                premise = not near
            elif case.get("stream") == "minmax":
                xa, xb = max(sa.exps), max(sb.exps)
                premise = (not scr) and d2 > (Fraction(1) / xa + Fraction(1) / xb) * (rad / (1 / ma + 1 / mb))
        if tuple(r.shape) != tuple(r0.shape):
            return out(dict(info, kind="shape", impl_shape=list(r.shape), model_shape=list(r0.shape)))
        if tol is not None:
            stats["pairs at cutoff (either)" if near else ("pairs removed" if scr else "pairs kept")] += 1
        if near:
            if not (is_zero(r) or same_block(r, r0)):
                return out(dict(info, kind="near-block", impl="block at the cutoff is neither exactly zero nor the "
                                "unscreened block"))
            if is_zero(r):
                stats["at cutoff: removed"] += 1
            continue
        ms = model.call("(232 %s %s %s)" % (tol_sx(tol), sa.sx(), sb.sx()))
        d = compare(r, ms, tol_abs=tolabs)
        if d is not None:
            d.update(info)
            d["model_screened"] = scr
            return out(d)
        if scr and not is_zero(r):
            k = np.unravel_index(np.abs(r).argmax(), r.shape)
            return out(dict(info, kind="not-removed", impl=repr(float(r[k])), model="0 (screened)",
                            index=[int(x) for x in k]))
        if not scr:
            if ms != m0:
                raise RuntimeError("model: kept block differs from the unscreened block")
            if not same_block(r, r0):
                return out(dict(info, kind="kept-block-changed", impl="kept block differs from the unscreened call"))
        seen.add(scr)
    if case.get("stream") in ("near", "edge", "minmax"):
        return out(None, bool(premise))
    return out(None, len(seen) == 2)


def eval_bool(model, case):
    from gbasis.integrals.overlap import Overlap, overlap_integral

    basis = [XShell.from_json(s) for s in case["basis"]]
    tag = "bool %s" % case["call"]
    st, gb = call_impl(lambda: [s.to_gbasis() for s in basis])
    if st != "ok":
        return {"detail": {"kind": "rejected", "impl": gb, "call": "GeneralizedContractionShell(...)"}, "tag": tag}
    val = bool(case["value"])
    if case["call"] == "integral":
        st, r = call_impl(overlap_integral, gb, tol_screen=val)
    else:
        st, r = call_impl(Overlap.construct_array_contraction, gb[0], gb[1], tol_screen=val)
    d = None
    if st == "ok":
        d = {"kind": "accepted", "impl": "tol_screen=%r was accepted (a value was returned)" % val, "model": "rejected"}
    return {"detail": d, "nontrivial": True, "tag": tag}


def _hist_shells(case, upto):
    """The exact shells AS THEY ARE at call number `upto` (0-based): the case's basis with every exponent change of
    the steps 0..upto applied."""
    basis = [XShell.from_json(sj) for sj in case["basis"]]
    for st in case["steps"][:upto + 1]:
        for ch in st.get("set", []):
            basis[ch["shell"]].exps = [Fraction(e) for e in ch["exps"]]
    return basis


def eval_history(model, case):
    """HISTORY stream.  ONE list of GeneralizedContractionShell objects lives through a sequence of calls.  Step k:
    (a) optional exponent changes ("set": through the public setter `shell.exps = array`, or in place
    `shell.exps[...] = array`), each followed by `shell.assign_norm_cont()`; (b) a screened call with the step's
    tolerance - overlap_integral(basis, tol_screen=t) (level "integral") or Overlap.construct_array_contraction(a, b,
    tol_screen=t) for every pair (level "block").  Every call is judged against the exact model of the screening rule
    (commands 230 / 2) for the shells as they are AT THAT CALL: removed blocks exactly zero, kept blocks equal to the
    unscreened call on the same objects (bitwise or 1e-12) and to the exact unscreened model (1e-8), pairs within 1e-9
    of the cutoff either way.  Anything the implementation remembers about a shell from an earlier call shows."""
    from gbasis.integrals.overlap import Overlap, overlap_integral

    steps = case["steps"]
    level = case.get("level", "integral")
    basis0 = [XShell.from_json(sj) for sj in case["basis"]]
    n = len(basis0)
    tag = "history %s n=%d calls=%d" % (level, n, len(steps))
    stats = {"history: calls": 0, "history: pair decisions the previous exponents would give the other way": 0,
             "history: exponent changes (setter)": 0, "history: exponent changes (in place)": 0}
    flipped = False

    def out(detail, nontrivial=True):
        if detail is not None:
            detail = dict(detail)
            detail["history"] = "call %d of %d on the same shell objects" % (detail.pop("_call") + 1, len(steps))
            detail["kind"] = "history"
        return {"detail": detail, "nontrivial": nontrivial, "tag": tag, "stats": stats}

    st, gb = call_impl(lambda: [s.to_gbasis() for s in basis0])
    if st != "ok":
        return out({"what": "rejected", "impl": gb, "call": "GeneralizedContractionShell(...)", "_call": 0})
    off = [0]
    for s in basis0:
        off.append(off[-1] + s.nfun())
    for k, step in enumerate(steps):
        basis = _hist_shells(case, k)
        for ch in step.get("set", []):
            g = gb[ch["shell"]]
            new = np.array([float(Fraction(e)) for e in ch["exps"]])
            how = ch.get("how", "setter")

            def change(g=g, new=new, how=how):
                if how == "setter":
                    g.exps = new
                else:
                    g.exps[...] = new
                g.assign_norm_cont()
            st, r = call_impl(change)
            if st != "ok":
                return out({"what": "rejected", "impl": r, "call": "exps change (%s) + assign_norm_cont()" % how,
                            "_call": k})
            stats["history: exponent changes (%s)" % ("setter" if how == "setter" else "in place")] += 1
        tol = parse_tol(step["tol"])
        kw = {"tol_screen": None if tol is None else float(tol)}
        # the implementation's answers on the LIVE objects
        pairs = [(i, j) for i in range(n) for j in range(i, n)]
        if level == "integral":
            st, r = call_impl(overlap_integral, gb, **kw)
            st0, r0 = call_impl(overlap_integral, gb)
            if st != "ok" or st0 != "ok":
                return out({"what": "rejected", "impl": r if st != "ok" else r0, "tol": str(tol), "_call": k})
            if r.shape != (off[-1], off[-1]) or r0.shape != r.shape:
                return out({"what": "shape", "impl_shape": list(r.shape), "model_shape": [off[-1], off[-1]],
                            "_call": k})
            m0a = np.array(model.call("(2 (%s) ())" % " ".join(s.sx() for s in basis)), dtype=object)
            mask = np.ones(r.shape, dtype=bool)
            undecided = np.zeros(r.shape, dtype=bool)
        stats["history: calls"] += 1
        dec = {}
        for (i, j) in pairs:
            scr, near, d2, rad, ma, mb = decide(model, tol, basis[i], basis[j])
            dec[(i, j)] = None if near else scr
            for (p, q) in ((i, j), (j, i)) if i != j else ((i, j),):
                info = {"pair": [p, q], "tol": str(tol), "d2": str(d2), "cutoff2": "%.17g" % float(rad),
                        "min_exps": [str(ma), str(mb)], "_call": k}
                if level == "integral":
                    b = r[off[p]:off[p + 1], off[q]:off[q + 1]]
                    b0 = r0[off[p]:off[p + 1], off[q]:off[q + 1]]
                    o0 = [off[p], off[q]]
                else:
                    st, b = call_impl(Overlap.construct_array_contraction, gb[p], gb[q], **kw)
                    st0, b0 = call_impl(Overlap.construct_array_contraction, gb[p], gb[q])
                    if st != "ok" or st0 != "ok":
                        return out(dict(info, what="rejected", impl=b if st != "ok" else b0))
                    if tuple(b.shape) != tuple(b0.shape):
                        return out(dict(info, what="shape", impl_shape=list(b.shape), model_shape=list(b0.shape)))
                    o0 = None
                if near:
                    if level == "integral":
                        undecided[off[p]:off[p + 1], off[q]:off[q + 1]] = True
                    if not (is_zero(b) or same_block(b, b0)):
                        return out(dict(info, what="near-block", impl="block at the cutoff is neither exactly zero "
                                        "nor the unscreened block"))
                    continue
                if scr:
                    if level == "integral":
                        mask[off[p]:off[p + 1], off[q]:off[q + 1]] = False
                    if not is_zero(b):
                        kk = np.unravel_index(np.abs(b).argmax(), b.shape)
                        return out(dict(info, what="not-removed", impl=repr(float(b[kk])),
                                        model="0 (beyond the cutoff of the shells' CURRENT smallest exponents)",
                                        index=[int(x) + (o0[t] if o0 else 0) for t, x in enumerate(kk)]))
                elif not same_block(b, b0):
                    kk = np.unravel_index(np.abs(b - b0).argmax(), b.shape)
                    return out(dict(info, what="kept-block-changed", impl=repr(float(b[kk])),
                                    model=repr(float(b0[kk])) + " (unscreened call on the same objects; the pair is "
                                    "inside the cutoff of the shells' CURRENT smallest exponents)",
                                    index=[int(x) + (o0[t] if o0 else 0) for t, x in enumerate(kk)]))
                if level != "integral":
                    ms = model.call("(232 %s %s %s)" % (tol_sx(tol), basis[p].sx(), basis[q].sx()))
                    dd = compare(b, ms, tol_abs=TOL * block_scale(model, basis[p], basis[q]))
                    if dd is not None:
                        dd["what"] = dd.pop("kind")
                        return out(dict(info, **dd))
        if level == "integral":
            dd = compare_masked(r, m0a, mask, undecided)
            if dd is not None:
                dd["what"] = dd.pop("kind")
                dd["tol"] = str(tol)
                dd["_call"] = k
                return out(dd)
        if k > 0 and step.get("set"):
            # premise of the stream: with the exponents of the PREVIOUS call some pair would be decided the other way
            old = _hist_shells(case, k - 1)
            ch = 0
            for (i, j) in pairs:
                if i != j and dec[(i, j)] is not None:
                    scr_old, near_old = decide(model, tol, old[i], old[j])[:2]
                    if not near_old and scr_old != dec[(i, j)]:
                        ch += 1
            stats["history: pair decisions the previous exponents would give the other way"] += ch
            flipped = flipped or ch > 0
    return out(None, flipped)


def eval_case(model, case):
    k = case["kind"]
    if k == "history":
        return eval_history(model, case)
    if k == "basis":
        return eval_basis(model, case)
    if k == "block":
        return eval_block(model, case)
    if k == "bool":
        return eval_bool(model, case)
    raise ValueError(k)


# ----------------------------------------------------------------------------------------------
# generation
# ----------------------------------------------------------------------------------------------
DEC_TOLS = [1e-16, 1e-15, 1e-14, 1e-12, 1e-10, 1e-8, 1e-7, 1e-6, 1e-5, 1e-4, 1e-3, 1e-2, 0.05, 0.1, 0.25, 0.3, 0.5]


def gen_tol(rng):
    r = rng.random()
    if r < 0.35:
        return Fraction(1, 2 ** rng.randint(1, 53))
    if r < 0.6:
        return Fraction(rng.choice(DEC_TOLS))
    x = 10.0 ** rng.uniform(-16, math.log10(0.5))
    x = min(max(x, 1e-16), 0.5)
    return Fraction(x)


def gen_tols(rng, k):
    ts = set()
    while len(ts) < k:
        ts.add(gen_tol(rng))
    return sorted(ts)


def rad_float(sa, sb, tol):
    """cutoff^2 (float; used only to PLACE shells, never to judge)."""
    a, b = float(min(sa.exps)), float(min(sb.exps))
    return -(a + b) / (a * b) * math.log(float(tol))


def c20_shell(rng, l=None, lmax=3, kmax=4, mmax=3, bits=8, sph=None, k=None):
    s = gen_shell(rng, l=l, lmax=lmax, kmax=kmax, mmax=mmax, sph=sph, exp_lo=0.05, exp_hi=500.0, bits=bits,
                  coord=[Fraction(0)] * 3)
    if k is not None:
        while len(s.exps) < k:
            e = short_float(rng, 0.05, 500.0, bits)
            if e not in s.exps:
                s.exps.append(e)
                s.coeffs.append([Fraction(rng.choice([-3, -2, -1, 1, 2, 3]), 4) for _ in s.coeffs[0]])
        s.exps, s.coeffs = s.exps[:k], s.coeffs[:k]
        # truncating the primitive list may have cut the only non-zero coefficient of a column: an all-zero column is
        # the zero function (no basis function, infinite normalisation) - not an input of the property
        for col in range(len(s.coeffs[0])):
            if all(row[col] == 0 for row in s.coeffs):
                s.coeffs[rng.randrange(len(s.coeffs))][col] = Fraction(rng.choice([-3, -2, -1, 1, 2, 3]), 4)
    return s


def place_collinear(rng, basis, tols):
    """Centres on a line with an integer-norm direction: every pair distance is exactly representable.
    Gaps are (0.3..3) x the cutoff of the neighbouring pair at one of the tolerances, rounded to 1/16."""
    u = rng.choice(DIRS)
    sg = [rng.choice([-1, 1]) for _ in range(3)]
    nu = dir_norm(u)
    origin = [Fraction(rng.randint(-32, 32), 16) for _ in range(3)]
    t = Fraction(0)
    pos = [t]
    for i in range(1, len(basis)):
        r = rng.random()
        if r < 0.08:
            gap = Fraction(0)                       # coincident centres
        else:
            cut = math.sqrt(rad_float(basis[i - 1], basis[i], rng.choice(tols)))
            g = cut * math.exp(rng.uniform(math.log(0.3), math.log(3.0)))
            gap = Fraction(max(1, round(g * 16 / nu)), 16)   # in units of |u|
        t += gap
        pos.append(t)
    total = pos[-1] * nu
    if total > 30:                                  # keep every distance within 0..30 bohr
        f = Fraction(30) / total
        pos = [Fraction(math.floor(p * f * 16), 16) for p in pos]
    for s, p in zip(basis, pos):
        s.coord = [origin[ax] + sg[ax] * u[ax] * p for ax in range(3)]


def place_grid(rng, basis, tols):
    span = rng.choice([1, 2, 4, 8])
    for s in basis:
        s.coord = [Fraction(rng.randint(-16 * span, 16 * span), 16) for _ in range(3)]
    # distances <= 30: span 8 gives at most 16*sqrt(3) = 27.7


def gen_transform(rng, nfun):
    nout = rng.randint(1, min(nfun + 1, 6))
    return [[str(Fraction(rng.randint(-8, 8), 8)) for _ in range(nfun)] for _ in range(nout)]


def gen_basis_case(rng, tier, idx, stream="rand", bits=8):
    n = 2 + idx % 4
    heavy = tier == "thorough" and idx % 9 == 0
    if heavy:
        lmax, kmax, mmax = 3, 4, 3
    elif n <= 3:
        lmax, kmax, mmax = 3, (3 if tier == "quick" else 4), 2
    else:
        lmax, kmax, mmax = 2, 3, 2
    basis = []
    for i in range(n):
        l = rng.randint(0, lmax)
        if rng.random() < 0.3:
            l = 0                                   # enough s-s pairs for the bound
        basis.append(c20_shell(rng, l=l, kmax=kmax, mmax=mmax, bits=bits))
    ct = idx % 5
    if ct == 0:
        for s in basis:
            s.sph = False
    elif ct == 1:
        for s in basis:
            s.sph = True
    tols = gen_tols(rng, rng.randint(2, 4))
    if stream == "grid":
        place_grid(rng, basis, tols)
    else:
        place_collinear(rng, basis, tols)
    case = {"kind": "basis", "stream": stream, "basis": [s.to_json() for s in basis], "tols": [str(t) for t in tols],
            "model_tol": rng.randrange(len(tols)), "model_none": idx % 4 == 0}
    if idx % 3 == 0:
        case["transform"] = gen_transform(rng, sum(s.nfun() for s in basis))
    return case


def cutoff_double(sa, sb, tol, factor=None):
    """The double nearest to cutoff (times an exact dyadic factor)."""
    a, b = min(sa.exps), min(sb.exps)
    rad = -(mpmath.mpf(a.numerator) / a.denominator + mpmath.mpf(b.numerator) / b.denominator) \
        / (mpmath.mpf((a * b).numerator) / (a * b).denominator) * mpmath.log(mpmath.mpf(tol.numerator) / tol.denominator)
    c = mpmath.sqrt(rad)
    if factor is not None:
        c = c * (mpmath.mpf(factor.numerator) / factor.denominator)
    return Fraction(float(c))


def gen_pair_at(rng, factor, lmax=2, kmax=3):
    """Two shells on a coordinate axis at distance = double(cutoff * factor) <= 30 for a tolerance."""
    while True:
        sa = c20_shell(rng, lmax=lmax, kmax=kmax, mmax=2)
        sb = c20_shell(rng, lmax=lmax, kmax=kmax, mmax=2)
        tol = gen_tol(rng)
        d = cutoff_double(sa, sb, tol, factor)
        if 0 < d <= 30:
            break
    ax = rng.randrange(3)
    org = [Fraction(rng.randint(-16, 16), 16) for _ in range(3)]
    sa.coord = list(org)
    sb.coord = list(org)
    # origin component 0 on the chosen axis so that the difference is exactly d in floating point too
    sa.coord[ax] = Fraction(0)
    sb.coord[ax] = d * rng.choice([-1, 1])
    return sa, sb, tol


def gen_minmax_pair(rng):
    """d strictly between the cutoff of the largest exponents and that of the smallest: kept by the
    documented rule, removed if the largest (or, by the position shuffle, first / last) exponents were used."""
    while True:
        ka, kb = rng.randint(2, 4), rng.randint(1, 4)
        sa = c20_shell(rng, lmax=2, k=ka, mmax=2)
        sb = c20_shell(rng, lmax=2, k=kb, mmax=2)
        # spread the exponents: smallest in 0.05..2, the others >= 8x larger
        for s in (sa, sb):
            lo = short_float(rng, 0.05, 2.0)
            es = [lo]
            while len(es) < len(s.exps):
                e = short_float(rng, min(500.0, float(lo) * 8), 500.0)
                if e not in es:
                    es.append(e)
            rng.shuffle(es)
            s.exps = es
        tol = gen_tol(rng)
        L = -math.log(float(tol))
        cmin = math.sqrt((1 / float(min(sa.exps)) + 1 / float(min(sb.exps))) * L)
        cmax = math.sqrt((1 / float(max(sa.exps)) + 1 / float(max(sb.exps))) * L)
        lo, hi = cmax * 1.02, min(cmin * 0.98, 30.0)
        if hi - lo > 1 / 8:
            d = Fraction(round(rng.uniform(lo, hi) * 64), 64)
            if lo < d < hi:
                break
    u = rng.choice(DIRS[:3])
    sa.coord = [Fraction(rng.randint(-16, 16), 16) for _ in range(3)]
    sb.coord = [sa.coord[ax] + u[ax] * d for ax in range(3)]
    return sa, sb, tol


def special_cases(rng, tier):
    cases = []
    nn = 24 if tier == "quick" else 300
    for i in range(nn):
        sa, sb, tol = gen_pair_at(rng, None)
        if i % 2 == 0:
            cases.append({"kind": "block", "stream": "near", "a": sa.to_json(), "b": sb.to_json(), "tols": [str(tol)]})
        else:
            extra = c20_shell(rng, lmax=1, kmax=2, mmax=1)
            extra.coord = [Fraction(rng.randint(-64, 64), 16) for _ in range(3)]
            cases.append({"kind": "basis", "stream": "near", "basis": [s.to_json() for s in (sa, sb, extra)],
                          "tols": [str(tol)], "model_tol": -1, "model_none": False})
    ne = 32 if tier == "quick" else 400
    for i in range(ne):
        e = 20 if i % 4 < 2 else 27
        f = 1 + Fraction(1 if i % 2 == 0 else -1, 2 ** e)
        sa, sb, tol = gen_pair_at(rng, f)
        if i % 3 != 2:
            cases.append({"kind": "block", "stream": "edge", "a": sa.to_json(), "b": sb.to_json(),
                          "tols": [str(tol)]})
        else:
            cases.append({"kind": "basis", "stream": "edge", "basis": [sa.to_json(), sb.to_json()],
                          "tols": [str(tol)], "model_tol": 0, "model_none": False})
    nm = 24 if tier == "quick" else 300
    for i in range(nm):
        sa, sb, tol = gen_minmax_pair(rng)
        if i % 3 != 2:
            cases.append({"kind": "block", "stream": "minmax", "a": sa.to_json(), "b": sb.to_json(),
                          "tols": [str(tol), None]})
        else:
            cases.append({"kind": "basis", "stream": "minmax", "basis": [sa.to_json(), sb.to_json()],
                          "tols": [str(tol)], "model_tol": 0, "model_none": False})
    # block level, random: several tolerances and None on one pair
    nb = 32 if tier == "quick" else 400
    for i in range(nb):
        sa = c20_shell(rng, l=i % 4, kmax=4, mmax=3, sph=False)
        sb = c20_shell(rng, l=(i // 4) % 4, kmax=4, mmax=3, sph=False)
        tols = gen_tols(rng, 3)
        place_collinear(rng, [sa, sb], tols[1:2])
        cases.append({"kind": "block", "stream": "rand", "a": sa.to_json(), "b": sb.to_json(),
                      "tols": [str(t) for t in tols] + [None]})
    # bool tolerance
    for i, (call, val) in enumerate([("integral", True), ("integral", False), ("block", True), ("block", False)]):
        sa = c20_shell(rng, lmax=1, kmax=2, mmax=1)
        sb = c20_shell(rng, lmax=1, kmax=2, mmax=1)
        sb.coord = [Fraction(i + 1), Fraction(0), Fraction(0)]
        cases.append({"kind": "bool", "call": call, "value": val, "basis": [sa.to_json(), sb.to_json()]})
    return cases


def gen_history_case(rng, idx):
    """Screened call -> exponents of shell 0 (sometimes also shell 1) changed so that the smallest one moves by a
    factor 4..50 (down: tight -> diffuse, up: diffuse -> tight), through the setter or in place, then
    assign_norm_cont() -> screened call with the pair (0, 1) at a distance strictly between the old and the new cutoff
    -> exponents restored (by the other mechanism) -> screened call.  All exponents stay in 0.05..500, all distances
    are exactly representable and <= 30 bohr."""
    level = "block" if idx % 3 == 2 else "integral"
    n = 2 + (idx % 2)
    while True:
        basis = [c20_shell(rng, l=rng.randint(0, 2), kmax=3, mmax=2, sph=False if level == "block" else None)
                 for _ in range(n)]
        down = rng.random() < 0.5
        which = [0, 1] if rng.random() < 0.4 else [0]
        new = {}
        ok = True
        for w in which:
            es = list(basis[w].exps)
            f = Fraction(rng.randint(16, 200), 4)                  # 4 .. 50
            imin = es.index(min(es))
            if rng.random() < 0.5:                                  # every exponent scaled
                ne = [e / f if down else e * f for e in es]
            else:                                                   # only the smallest one moves
                ne = list(es)
                ne[imin] = es[imin] / f if down else es[imin] * f
            ne = [Fraction(float(e)) for e in ne]
            r = min(ne) / min(es)
            if (len(set(ne)) != len(ne) or min(ne) < Fraction(1, 20) or max(ne) > 500
                    or not (r >= 4 or r <= Fraction(1, 4)) or r > 50 or r < Fraction(1, 50)):
                ok = False
                break
            new[w] = ne
        if not ok:
            continue
        tol = gen_tol(rng)
        L = -math.log(float(tol))
        a0, b0 = float(min(basis[0].exps)), float(min(basis[1].exps))
        a1, b1 = float(min(new[0])), float(min(new.get(1, basis[1].exps)))
        c_old, c_new = math.sqrt((1 / a0 + 1 / b0) * L), math.sqrt((1 / a1 + 1 / b1) * L)
        lo, hi = min(c_old, c_new) * 1.05, min(max(c_old, c_new) * 0.95, 30.0)
        u = rng.choice(DIRS)
        nu = dir_norm(u)
        if hi - lo < 2.0 * nu / 16:
            continue
        t = Fraction(round(rng.uniform(lo, hi) * 16 / nu), 16)      # distance in units of |u|
        if not lo < float(t * nu) < hi:
            continue
        break
    sg = [rng.choice([-1, 1]) for _ in range(3)]
    origin = [Fraction(rng.randint(-32, 32), 16) for _ in range(3)]
    pos = [Fraction(0), t] + [Fraction(rng.randint(0, int(t * 16)), 16) for _ in range(n - 2)]
    for s_, p_ in zip(basis, pos):
        s_.coord = [origin[ax] + sg[ax] * u[ax] * p_ for ax in range(3)]
    hows = ["setter", "inplace"] if (idx // 2) % 2 == 0 else ["inplace", "setter"]
    tol0 = tol if rng.random() < 0.5 else gen_tol(rng)
    steps = [{"tol": str(tol0)},
             {"tol": str(tol), "set": [{"shell": w, "exps": [str(e) for e in new[w]], "how": hows[i % 2]}
                                       for i, w in enumerate(which)]},
             {"tol": str(tol), "set": [{"shell": w, "exps": [str(e) for e in basis[w].exps], "how": hows[(i + 1) % 2]}
                                       for i, w in enumerate(which)]}]
    return {"kind": "history", "stream": "history", "level": level, "basis": [s_.to_json() for s_ in basis],
            "steps": steps, "direction": "tight->diffuse" if down else "diffuse->tight"}


def gen_cases(tier, seed):
    rng = random.Random(2000003 * seed + 20)
    cases = []
    nb = 96 if tier == "quick" else 1500
    for i in range(nb):
        stream = "grid" if i % 6 == 5 else "rand"
        bits = 53 if (tier == "thorough" and i % 10 == 7) else 8
        cases.append(gen_basis_case(rng, tier, i, stream, bits))
    cases += special_cases(rng, tier)
    # HISTORY stream (own generator: the other streams are what they were before it existed)
    hrng = random.Random(2000003 * seed + 2020)
    for i in range(36 if tier == "quick" else 400):
        cases.append(gen_history_case(hrng, i))
    return cases


# ----------------------------------------------------------------------------------------------
# shrinking
# ----------------------------------------------------------------------------------------------
def _hist_drop_step(case, k):
    """the sequence without call k; its exponent changes are carried to the next call (later changes win)"""
    steps = [dict(st) for st in case["steps"]]
    gone = steps.pop(k)
    if k < len(steps) and gone.get("set"):
        later = {ch["shell"] for ch in steps[k].get("set", [])}
        steps[k]["set"] = [ch for ch in gone["set"] if ch["shell"] not in later] + list(steps[k].get("set", []))
    c = dict(case)
    c["steps"] = steps
    return c


def shrink_history(case):
    steps = case["steps"]
    lst = case["basis"]
    if len(steps) > 2:                                  # a history keeps at least two calls
        for k in reversed(range(len(steps))):
            yield _hist_drop_step(case, k)
    touched = {ch["shell"] for st in steps for ch in st.get("set", [])}
    if len(lst) > 2:
        for i in range(len(lst)):
            if i in touched:
                continue
            c = dict(case)
            c["basis"] = lst[:i] + lst[i + 1:]
            c["steps"] = [dict(st, set=[dict(ch, shell=ch["shell"] - (1 if ch["shell"] > i else 0))
                                        for ch in st["set"]]) if st.get("set") else dict(st) for st in steps]
            yield c
    if case.get("level") == "integral":
        c = dict(case)
        c["level"] = "block"
        c["basis"] = [dict(sj, sph=False) for sj in lst]
        yield c
    for i, sj in enumerate(lst):
        k = len(sj["exps"])
        if k > 1:                                       # drop primitive p of shell i in the basis and in every change
            for p_ in range(k):
                t = dict(sj, exps=sj["exps"][:p_] + sj["exps"][p_ + 1:], coeffs=sj["coeffs"][:p_] + sj["coeffs"][p_ + 1:])
                if not all(any(Fraction(x) != 0 for x in col) for col in zip(*t["coeffs"])):
                    continue
                c = dict(case)
                c["basis"] = lst[:i] + [t] + lst[i + 1:]
                c["steps"] = [dict(st, set=[dict(ch, exps=ch["exps"][:p_] + ch["exps"][p_ + 1:]) if ch["shell"] == i
                                            else dict(ch) for ch in st["set"]]) if st.get("set") else dict(st)
                              for st in steps]
                yield c
        for t in shrink_shell_json(sj):
            if t["coord"] != sj["coord"] or t["exps"] != sj["exps"]:
                continue
            c = dict(case)
            c["basis"] = lst[:i] + [t] + lst[i + 1:]
            yield c


def shrink_case(case):
    kind = case["kind"]
    if kind == "history":
        yield from shrink_history(case)
        return
    if kind == "basis":
        lst = case["basis"]
        if case.get("transform") is not None:
            c = dict(case)
            c["transform"] = None
            yield c
        if len(case["tols"]) > 1:
            for i in range(len(case["tols"])):
                c = dict(case)
                c["tols"] = case["tols"][:i] + case["tols"][i + 1:]
                c["model_tol"] = 0
                yield c
        if len(lst) > 2 and case.get("transform") is None:
            for i in range(len(lst)):
                c = dict(case)
                c["basis"] = lst[:i] + lst[i + 1:]
                yield c
        if case.get("transform") is None:
            for i, sj in enumerate(lst):
                for t in shrink_shell_json(sj):
                    if t["coord"] != sj["coord"]:
                        continue                    # moving a centre changes the decision under test
                    c = dict(case)
                    c["basis"] = lst[:i] + [t] + lst[i + 1:]
                    yield c
    elif kind == "block":
        if len(case["tols"]) > 1:
            for i in range(len(case["tols"])):
                c = dict(case)
                c["tols"] = case["tols"][:i] + case["tols"][i + 1:]
                yield c
        for key in ("a", "b"):
            for t in shrink_shell_json(case[key]):
                if t["coord"] != case[key]["coord"]:
                    continue
                c = dict(case)
                c[key] = t
                yield c


# ----------------------------------------------------------------------------------------------
# in-Coq cross-check of the extracted decision function (the only user of the extracted order test)
# ----------------------------------------------------------------------------------------------
def _coq_sx(text):
    """Driver wire text -> Coq term of type sx."""
    import re

    out = []
    prev_item = False
    for t in re.findall(r"[()]|[^\s()]+", text):
        if t == "(":
            if prev_item:
                out.append("; ")
            out.append("SL [")
            prev_item = False
        elif t == ")":
            out.append("]")
            prev_item = True
        else:
            if prev_item:
                out.append("; ")
            if "/" in t:
                a, b = t.split("/")
                out.append("SQ (%s)%%Z (%s)%%positive" % (a, b))
            else:
                out.append("SZ (%s)%%Z" % t)
            prev_item = True
    return "".join(out)


def coq_crosscheck(rep, cases, seed, nmax=16):
    """Evaluate a seeded subset of the decision commands (230) inside Coq with vm_compute, the logarithm
    being the table of oracle values the extracted model received; results must be identical."""
    import os
    import subprocess

    from lib import VERIF, WORK, ModelProc

    rng = random.Random(seed * 7919 + 5)
    cmds = []
    pool = [c for c in cases if c["kind"] in ("basis", "block")]
    rng.shuffle(pool)
    for c in pool:
        shells = [XShell.from_json(s) for s in (c["basis"] if c["kind"] == "basis" else [c["a"], c["b"]])]
        for t in c["tols"]:
            cmds.append("(230 %s %s %s)" % (tol_sx(parse_tol(t)), shells[0].sx(), shells[1].sx()))
        if len(cmds) >= nmax:
            break
    cmds = cmds[:nmax]
    if not cmds:
        return
    m = ModelProc()
    m.log = []
    pairs = [(c, m.call_raw(c).strip()) for c in cmds]
    m.close()
    lns = [(arg, val) for (fn, extra, arg, val) in m.log if fn == "ln"]
    tbl = "qc_of 0 1"
    for arg, val in reversed(lns):
        tbl = "if qc_eqb x (qc_of (%d)%%Z (%d)%%positive) then qc_of (%d)%%Z (%d)%%positive else %s" % (
            arg.numerator, arg.denominator, val.numerator, val.denominator, tbl)
    src = ["From Coq Require Import ZArith QArith Qcanon List Bool.",
           "From GB Require Import Base.Field Extract.Sx Extract.Run.", "Import ListNotations.",
           "Definition lnT (x : Qc) : Qc := %s." % tbl,
           "Definition zq : Qc := qc_of 0 1.",
           "Definition KT : Fops Qc := QcK false (qc_of (%d)%%Z (%d)%%positive) (fun _ => zq) (fun _ => zq) lnT (fun _ _ => zq)."
           % (m.pi.numerator, m.pi.denominator),
           "Definition cases : list (sx * sx) := ["]
    src.append(";\n".join("  (%s, %s)" % (_coq_sx(c), _coq_sx(r)) for c, r in pairs))
    src.append("].")
    src.append("Eval vm_compute in (forallb (fun ce => sx_eqb (run KT (fst ce)) (snd ce)) cases, length cases).")
    path = os.path.join(WORK, "cases_c20.v")
    with open(path, "w") as f:
        f.write("\n".join(src) + "\n")
    p = subprocess.run(["timeout", "300", "coqc", "-Q", os.path.join(VERIF, "coq"), "GB", path],
                       capture_output=True, text=True, cwd=WORK)
    ok = p.returncode == 0 and ("(true, %d%%nat)" % len(pairs)) in p.stdout.replace("\n", " ")
    rep.dist["stat:decisions cross-checked in Coq (vm_compute)"] = len(pairs) if ok else 0
    if not ok:
        rep.violation({"coq_crosscheck": path}, {"note": "extracted model and in-Coq vm_compute evaluation of the "
                      "screening decision disagree (or the generated file does not compile)",
                      "coq_output": (p.stdout + p.stderr)[-1500:]}, kind="proof-obligation")


def run(rep, tier, seed, model, replay):
    if replay is not None:
        if "case" not in replay or "kind" not in replay["case"]:
            return                                  # proof-obligation replays carry no input case
        cases = [replay["case"]]
    else:
        cases = gen_cases(tier, seed)
    # isolate: shrink candidates / replayed cases of the history stream are evaluated in fresh processes
    run_cases(rep, cases, eval_case, shrinkfn=shrink_case, isolate=True)
    if replay is None and model is not None:
        coq_crosscheck(rep, cases, seed)
