"""C12 - results are covariant under rigid motions of the whole system.

What is checked (public API of the working tree only):
  a system (shells, evaluation points, point charges / nuclei, moment origin, density matrix or transform) and
  its rigidly moved image  x -> R x + t  are both handed to the implementation; the array of the ORIGINAL system
  must equal the array of the MOVED system transformed by the textbook law:
    * one representation matrix per basis index.  Cartesian shell of angular momentum l: the matrix
      D_ij = M_ij sqrt(df_i / df_j), where (R^T u)^j = sum_i M_ij u^i is the expansion of the rotated monomial
      (exact rationals, computed here with polynomial arithmetic) and df_c = (2a-1)!!(2b-1)!!(2c-1)!! is gbasis'
      per-component normalisation (contractions.py:455-461; the contraction norm is the same for all components
      of a shell).  For a signed axis permutation D is a signed permutation matrix (exact).  Spherical shell:
      D_sph^T = T D^T T^+ with T = generate_transformation(l, ..., "left") (verified by C10) and T^+ its
      pseudo-inverse; the check demands that the row space of T is invariant (T D^T = D_sph^T T) and that D_sph is
      orthogonal - otherwise no representation matrix exists and the property fails for that reason.
      Generalized contractions: kron(1_M, D) (segment-major flattening); whole basis: block diagonal.
    * vector / tensor components: derivative orders and moment orders rotate as symmetric tensors (the same
      monomial matrix M of the right degree, without normalisation), gradient / Ehrenfest force / momentum as
      vectors (v = R^T v'), Hessians / stress tensor as rank-2 tensors (H = R^T H' R), angular momentum as a
      pseudo-vector about the MOVED origin: L = det(R) R^T (L' - t x p').
    * values at the moved points, densities, Laplacian, kinetic-energy densities, electrostatic potential,
      everything expressed in a transformed (MO) basis with C' = C D^T: unchanged.
  Origin laws inside one frame: moments about a second origin by the binomial law (exact coefficients).
  Motions: all 48 signed axis permutations (every run, every function group), rotations R = S Q with Q the
  rational matrix of an integer quaternion and S a random signed permutation (proper and improper), dyadic
  translations.  Coordinates are integer multiples of n / 2^s (n = norm of the quaternion), so that the ORIGINAL and
  the ROTATED coordinates are both dyadic rationals: the floats given to the implementation denote both systems exactly.
  For a seeded subset the result for the MOVED system is also compared with the exact Coq model (runner commands
  2, 7, 9, 11, 13, 15, 16, 21, 101, 102), so that a defect that is itself covariant is still seen.
  Stream "nearfar" (gen_nearfar_case): nearly coincident DISTINCT centres (1e-4 .. 1e-6 bohr apart) in a frame near the
  origin against the same system 50-150 bohr away - a "same centre" decision relative to the absolute coordinates
  (numpy.allclose) holds in one frame only.

Tolerance: 1e-9 x scale, scale = max over the shell(-pair) block [per point for evaluations] of the propagated
magnitudes |D|^T |X'| |D| and of |X|, but at least 1e-6 of the largest such magnitude of the array and at least the
natural scale C01-C08 use for the quantity: sqrt|X_jj X_kk| for overlap / kinetic / nuclear attraction / point charge,
max(1, largest element) for moments (per order), momentum and angular momentum (numerical zeros of ~1e-16 left by
cancelling O(1) Cartesian terms in a spherical block are not covariant).  Electron
repulsion: 1e-6 x the largest Schwarz bound sqrt|(ij|ij)(kl|kl)| of the shell quartet (the accuracy property C04
grants; the implementation's rounding error for tight x diffuse quartets is ~1e-8 of the block in EITHER frame, seen
against the exact model, and is not covariant).  Model
comparison: 1e-8 x max(1, largest model element) (the tolerance of C01-C08).
The model needs no new runner command: the field arithmetic of the representation matrices is done here in exact
rationals / floats, independently of the code under test (except generate_transformation, see above).
"""
import itertools
import math
import random
from fractions import Fraction

import numpy as np

import lib
import twoindex
from lib import XShell, call_impl, compare, gen_shell, run_cases, shrink_shell_json, sx

REL = 1e-9
FLOOR_REL = 1e-6
MODEL_REL = 1e-8
ERI_REL = 1e-6

RULE = ("function groups eval (evaluate_basis), deriv (evaluate_deriv_basis, both back-ends), density (density, gradient, "
        "Hessian, Laplacian, posdef / general KED, evaluate_deriv_density, stress tensor, Ehrenfest force and Hessian), esp, "
        "int2 (overlap, kinetic, nuclear attraction, point charge), moment, momentum, angmom, eri (both notations), origin "
        "(binomial law); motions: ALL 48 signed axis permutations for every group on every run (thorough: several bases "
        "each), rotations S.Q from integer quaternions (norm n <= 27, proper and improper) with coordinates k n / 2^s so "
        "both frames are dyadic, translations k/16, identity-rotation translations; bases of 1-4 shells, l cycling 0..4 "
        "(eri: l <= 2 quick / 3 thorough, exponents 0.15..4, f shells uncontracted), K 1-3, M 1-3 (generalized), Cartesian / spherical / mixed, with and without a "
        "transform C (moved along as C D^T); geometries in general position (no coordinate difference of two centres or of "
        "a point and a centre is zero, in either frame) for >= 2/3 of the cases, the rest with shared centres / points on "
        "centres / axes; PSD dyadic density matrices A A^T; a seeded ~12% of the cases also compares the moved system with "
        "the exact model; stream nearfar (quick 16, thorough 64 cases; groups int2, moment, momentum, eval): two shells of "
        "opposite parity (l <= 2, K, M <= 2, exponents 0.5..20) on DISTINCT centres (0.5..1) x 1e-4 / 1e-5 / 1e-6 bohr apart per "
        "component, optionally a third shell, one frame within 2 bohr of the origin and the other moved by a signed axis "
        "permutation and a translation of 50..150 bohr per axis (both frames exactly representable, 49-bit coordinates; "
        "original = near or far alternately), half of them also against the exact model. Non-trivial: the motion is not the identity and the original array is not identically zero; "
        "distinct by the hash of the exact input")
ASSUMPTIONS = [
    "rounding of the NumPy pipeline is not modelled: covariance is decided to 1e-9 x (block scale of the propagated "
    "magnitudes, at least 1e-6 of the array scale) on the generated inputs",
    "general rotations are decided by this correspondence only (the Coq part proves translations, origin laws and the "
    "signed axis permutations, see Props/C12.v)",
    "generate_transformation is used to build the spherical representation matrices (property C10 verifies it); the "
    "Cartesian component order is recomputed here and compared with the shell object's",
    "electron repulsion is exercised where the implementation is accurate (exponents 0.15..4, one primitive in f shells, "
    "tolerance 1e-6 Schwarz as in C04): for contracted tight x diffuse quartets its error against the exact model is up to "
    "1e-3 of the block in EITHER frame (C04's finding; measured here: (pf|ff), exponents 0.9 / 28, 5.9e-4 on a block of "
    "1.9) and is not covariant",
    "electrostatic_potential: points are kept at least 1/16 away from every nucleus; thresholds are chosen >= 1e-3 "
    "(relative) away from every point-nucleus distance",
]
EXTRA = {}

GROUPS = ["eval", "deriv", "density", "esp", "int2", "moment", "momentum", "angmom", "eri", "origin"]


# ----------------------------------------------------------------------------------------------
# rigid motions
# ----------------------------------------------------------------------------------------------
def signed_perms():
    out = []
    for p in itertools.permutations(range(3)):
        for s in itertools.product((1, -1), repeat=3):
            R = [[0] * 3 for _ in range(3)]
            for b in range(3):
                R[b][p[b]] = s[b]
            out.append(R)
    return out


SIGNED = signed_perms()


def quat_matrix(q):
    """integer quaternion (a, b, c, d) -> (integer matrix N, n) with rotation N / n, n = a^2+b^2+c^2+d^2"""
    a, b, c, d = q
    n = a * a + b * b + c * c + d * d
    N = [[a * a + b * b - c * c - d * d, 2 * (b * c - a * d), 2 * (b * d + a * c)],
         [2 * (b * c + a * d), a * a - b * b + c * c - d * d, 2 * (c * d - a * b)],
         [2 * (b * d - a * c), 2 * (c * d + a * b), a * a - b * b - c * c + d * d]]
    return N, n


def mat_mul(A, B):
    return [[sum(A[i][k] * B[k][j] for k in range(3)) for j in range(3)] for i in range(3)]


def det3(R):
    return (R[0][0] * (R[1][1] * R[2][2] - R[1][2] * R[2][1]) - R[0][1] * (R[1][0] * R[2][2] - R[1][2] * R[2][0])
            + R[0][2] * (R[1][0] * R[2][1] - R[1][1] * R[2][0]))


def grid_unit(n):
    """coordinates are integer multiples of n / 2^s in (1/16, 1/8]"""
    s = 3
    while Fraction(n, 2 ** s) > Fraction(1, 8):
        s += 1
    return Fraction(n, 2 ** s)


def is_dyadic(q):
    d = q.denominator
    return d & (d - 1) == 0


def apply_motion(R, t, x):
    return [sum(R[a][b] * x[b] for b in range(3)) + t[a] for a in range(3)]


def is_signed_perm(R):
    return all(sorted(abs(v) for v in row) == [0, 0, 1] for row in R) and abs(det3(R)) == 1


# ----------------------------------------------------------------------------------------------
# representation matrices (exact)
# ----------------------------------------------------------------------------------------------
def cart_comps(l):
    return [(x, y, l - x - y) for x in range(l, -1, -1) for y in range(l - x, -1, -1)]


def df2(k):
    """(2k-1)!!"""
    r = 1
    for i in range(1, 2 * k, 2):
        r *= i
    return r


def dfc(c):
    return df2(c[0]) * df2(c[1]) * df2(c[2])


def _pmul(p, q):
    out = {}
    for e1, c1 in p.items():
        for e2, c2 in q.items():
            e = (e1[0] + e2[0], e1[1] + e2[1], e1[2] + e2[2])
            out[e] = out.get(e, 0) + c1 * c2
    return out


_MONO_CACHE = {}


def mono_matrix(R, l):
    """M[i][j] with (R^T u)^{c_j} = sum_i M[i][j] u^{c_i}, c = cart_comps(l); exact (Fractions / ints)"""
    key = (tuple(tuple(r) for r in R), l)
    if key in _MONO_CACHE:
        return _MONO_CACHE[key]
    comps = cart_comps(l)
    idx = {c: i for i, c in enumerate(comps)}
    units = [(1, 0, 0), (0, 1, 0), (0, 0, 1)]
    lin = [{units[b]: R[b][a] for b in range(3) if R[b][a] != 0} for a in range(3)]   # (R^T u)_a = sum_b R[b][a] u_b
    M = [[Fraction(0)] * len(comps) for _ in comps]
    for j, c in enumerate(comps):
        p = {(0, 0, 0): Fraction(1)}
        for a in range(3):
            for _ in range(c[a]):
                p = _pmul(p, lin[a])
        for e, v in p.items():
            M[idx[e]][j] = Fraction(v)
    _MONO_CACHE[key] = M
    return M


def cart_rep(R, l):
    M = mono_matrix(R, l)
    comps = cart_comps(l)
    n = len(comps)
    D = np.zeros((n, n))
    for i in range(n):
        for j in range(n):
            if M[i][j] != 0:
                D[i, j] = float(M[i][j]) * math.sqrt(dfc(comps[i]) / dfc(comps[j]))
    return D


class NoRepresentation(Exception):
    pass


def sph_rep(R, l, g):
    from gbasis.spherical import generate_transformation
    T = generate_transformation(l, g.angmom_components_cart, g.angmom_components_sph, "left")
    D = cart_rep(R, l)
    Tp = np.linalg.pinv(T)
    DsT = T @ D.T @ Tp
    res = np.abs(T @ D.T - DsT @ T).max()
    orth = np.abs(DsT @ DsT.T - np.eye(DsT.shape[0])).max()
    if res > 1e-9 or orth > 1e-9:
        raise NoRepresentation("l=%d: |T D^T - Dsph^T T| = %.3g, |Dsph Dsph^T - 1| = %.3g" % (l, res, orth))
    return DsT.T


def basis_rep(R, shells, gshells):
    """block-diagonal representation matrix of the whole basis and the slices of the shells"""
    blocks, slices, pos = [], [], 0
    for xs, g in zip(shells, gshells):
        if [tuple(int(v) for v in c) for c in g.angmom_components_cart] != cart_comps(xs.l):
            raise RuntimeError("unexpected Cartesian component order")
        D = sph_rep(R, xs.l, g) if xs.sph else cart_rep(R, xs.l)
        m = len(xs.coeffs[0])
        B = np.kron(np.eye(m), D)
        blocks.append(B)
        slices.append(slice(pos, pos + B.shape[0]))
        pos += B.shape[0]
    DD = np.zeros((pos, pos))
    for B, s in zip(blocks, slices):
        DD[s, s] = B
    return DD, slices


def all_orders(n):
    return cart_comps(n)


def tensor_matrix(R, n):
    """float matrix Mt[o'][o] of the symmetric-tensor law of degree n (orders listed as cart_comps(n))"""
    return np.array([[float(v) for v in row] for row in mono_matrix(R, n)])


# ----------------------------------------------------------------------------------------------
# comparison with block scales
# ----------------------------------------------------------------------------------------------
def local_scale(mag, kinds, slices):
    """max of `mag` over blocks: axis kind 'b' = shell slices, 'p' = each index alone, 'c' = pooled"""
    out = np.array(mag, dtype=float)
    for ax, k in enumerate(kinds):
        if k == "c":
            out = np.broadcast_to(out.max(axis=ax, keepdims=True), out.shape).copy()
        elif k == "b":
            new = np.empty_like(out)
            for s in slices:
                idx = [slice(None)] * out.ndim
                idx[ax] = s
                blk = out[tuple(idx)]
                new[tuple(idx)] = np.broadcast_to(blk.max(axis=ax, keepdims=True), blk.shape)
            out = new
    return out


def check(name, old, pred, mag, kinds, slices, rel=REL, nat=None):
    """old vs pred elementwise; returns None or a detail dict.  nat: natural scale of the quantity (array or
    scalar), a lower bound of the scale the tolerance is relative to"""
    old = np.asarray(old)
    pred = np.asarray(pred)
    if old.shape != pred.shape:
        return {"kind": "shape", "what": name, "orig_shape": list(old.shape), "moved_shape": list(pred.shape)}
    if old.size == 0:
        return None
    if not (np.all(np.isfinite(old)) and np.all(np.isfinite(pred))):
        return {"kind": "nonfinite", "what": name}
    m = np.maximum(np.abs(mag), np.abs(old))
    loc = local_scale(m, kinds, slices)
    tol = rel * np.maximum(loc, FLOOR_REL * m.max())
    if nat is not None:
        tol = np.maximum(tol, rel * np.broadcast_to(np.asarray(nat, dtype=float), tol.shape))
    err = np.abs(old - pred)
    bad = err > tol
    if not bad.any():
        return None
    ratio = np.where(tol > 0, err / np.where(tol > 0, tol, 1.0), np.inf)
    i = np.unravel_index(np.argmax(np.where(bad, ratio, 0)), err.shape)
    return {"kind": "covariance", "what": name, "index": [int(v) for v in i], "original": repr(old[i].item()),
            "from_moved": repr(pred[i].item()), "abs_diff": float(err[i]), "tol": float(tol[i]),
            "n_bad": int(bad.sum()), "n": int(bad.size)}


# ----------------------------------------------------------------------------------------------
# case -> systems
# ----------------------------------------------------------------------------------------------
F = Fraction


def fl(v):
    return np.array([[float(c) for c in row] for row in v]) if v and isinstance(v[0], (list, tuple)) else \
        np.array([float(c) for c in v])


def rnd_matrix(seed, nr, nc, den=4, lo=-6, hi=6):
    r = random.Random(seed)
    return np.array([[r.randint(lo, hi) / den for _ in range(nc)] for _ in range(nr)])


class Sys:
    def __init__(self, case):
        self.shells = [XShell.from_json(s) for s in case["basis"]]
        self.points = [[F(c) for c in p] for p in case.get("points", [])]
        self.charges = [[F(c) for c in p] for p in case.get("charges", [])]     # x y z q
        self.origin = [F(c) for c in case.get("origin", ["0", "0", "0"])]
        self.R = [[F(c) for c in row] for row in case["R"]]
        self.t = [F(c) for c in case["t"]]
        self.det = det3(self.R)
        mv = lambda x: apply_motion(self.R, self.t, x)
        self.mshells = [XShell(s.l, mv(s.coord), s.exps, s.coeffs, s.sph) for s in self.shells]
        self.mpoints = [mv(p) for p in self.points]
        self.mcharges = [mv(p[:3]) + [p[3]] for p in self.charges]
        self.morigin = mv(self.origin)
        for v in itertools.chain((c for s in self.mshells for c in s.coord), (c for p in self.mpoints for c in p),
                                 (c for p in self.mcharges for c in p), self.morigin):
            if not is_dyadic(v):
                raise RuntimeError("moved coordinate is not dyadic: %s" % v)
        self.g = [s.to_gbasis() for s in self.shells]
        self.mg = [s.to_gbasis() for s in self.mshells]
        self.Rf = np.array([[float(c) for c in row] for row in self.R])
        self.tf = np.array([float(c) for c in self.t])
        self.nb = sum(s.nfun() for s in self.shells)
        self.P = fl(self.points) if self.points else np.zeros((0, 3))
        self.mP = fl(self.mpoints) if self.mpoints else np.zeros((0, 3))
        self.identity = (self.R == [[F(int(i == j)) for j in range(3)] for i in range(3)]) and all(c == 0 for c in self.t)

    def rep(self):
        DD, sl = basis_rep(self.R, self.shells, self.g)
        return DD, sl


def vec_to_old(S, v):
    """vector components on the last axis: v_old_a = sum_b R_ba v'_b"""
    return np.einsum("...b,ba->...a", v, S.Rf)


def ten2_to_old(S, h):
    return np.einsum("ba,...bd,dc->...ac", S.Rf, h, S.Rf)


# ----------------------------------------------------------------------------------------------
# the groups
# ----------------------------------------------------------------------------------------------
def _transform_pair(S, case, DD):
    """(C, C') for the case's transform seed, or (None, None)"""
    ts = case.get("tseed")
    if ts is None:
        return None, None
    nr = case.get("trows", 2)
    C = rnd_matrix(ts, nr, S.nb)
    return C, C @ DD.T


def g_eval(S, case, DD, sl, out):
    from gbasis.evals.eval import evaluate_basis
    C, Cm = _transform_pair(S, case, DD)
    V = evaluate_basis(S.g, S.P, transform=C)
    Vm_ao = evaluate_basis(S.mg, S.mP)
    if C is None:
        out.append(check("evaluate_basis", V, DD.T @ Vm_ao, np.abs(DD).T @ np.abs(Vm_ao), "bp", sl))
    else:
        Vm = evaluate_basis(S.mg, S.mP, transform=Cm)
        out.append(check("evaluate_basis(transform)", V, Vm, np.abs(C) @ (np.abs(DD).T @ np.abs(Vm_ao)), "cp", sl))
    return V


def g_deriv(S, case, DD, sl, out):
    from gbasis.evals.eval_deriv import evaluate_deriv_basis
    C, Cm = _transform_pair(S, case, DD)
    first = None
    for o in case["orders"]:
        n = sum(o)
        dt = case.get("deriv_type", "general")
        kw = {"deriv_type": dt}
        V = evaluate_deriv_basis(S.g, S.P, np.array(o), transform=C, **kw)
        Mt = tensor_matrix(S.R, n)
        lst = all_orders(n)
        col = lst.index(tuple(o))
        pred = np.zeros_like(V)
        mag = np.zeros_like(V)
        for row, o2 in enumerate(lst):
            if Mt[row, col] == 0:
                continue
            # the direct back-end only accepts orders <= 2 on every axis: the moved request uses the general one
            kw2 = {"deriv_type": dt if max(o2) <= 2 else "general"}
            Vm = evaluate_deriv_basis(S.mg, S.mP, np.array(o2), transform=Cm, **kw2)
            Vm_ao = Vm if C is None else evaluate_deriv_basis(S.mg, S.mP, np.array(o2), **kw2)
            if C is None:
                pred += Mt[row, col] * (DD.T @ Vm)
                mag += abs(Mt[row, col]) * (np.abs(DD).T @ np.abs(Vm_ao))
            else:
                pred += Mt[row, col] * Vm
                mag += abs(Mt[row, col]) * (np.abs(C) @ (np.abs(DD).T @ np.abs(Vm_ao)))
        out.append(check("evaluate_deriv_basis%s %s" % (tuple(o), dt), V, pred, mag, "bp" if C is None else "cp", sl))
        if first is None:
            first = V
    return first


def _density_matrix(S, case, DD):
    """(P, P', C, C'): PSD dyadic P = A A^T in the AO basis (moved: D P D^T) or in the transformed basis (unchanged)"""
    C, Cm = _transform_pair(S, case, DD)
    n = S.nb if C is None else C.shape[0]
    A = rnd_matrix(case["pseed"], n, min(n, 3), den=4, lo=-4, hi=4)
    P = A @ A.T
    if C is None:
        Pm = DD @ P @ DD.T
        Pm = 0.5 * (Pm + Pm.T)
    else:
        Pm = P
    return P, Pm, C, Cm


def g_density(S, case, DD, sl, out):
    from gbasis.evals import density as dn
    from gbasis.evals import stress_tensor as st
    P, Pm, C, Cm = _density_matrix(S, case, DD)
    a = (P, S.g, S.P)
    b = (Pm, S.mg, S.mP)
    ko = {"transform": C}
    km = {"transform": Cm}

    def sc(name, x, y, kinds="p"):
        x = np.asarray(x)
        y = np.asarray(y)
        mag = np.full(x.shape, max(np.abs(x).max(initial=0.0), np.abs(y).max(initial=0.0))) if x.shape == y.shape else x
        out.append(check(name, x, y, mag, kinds + "c" * (x.ndim - 1), sl))

    rho = dn.evaluate_density(*a, **ko)
    sc("evaluate_density", rho, dn.evaluate_density(*b, **km))
    sub = case.get("sub", "all")
    dt = case.get("deriv_type", "general")
    if sub in ("all", "grad"):
        sc("evaluate_density_gradient", dn.evaluate_density_gradient(*a, deriv_type=dt, **ko),
           vec_to_old(S, dn.evaluate_density_gradient(*b, deriv_type=dt, **km)))
        sc("evaluate_density_laplacian", dn.evaluate_density_laplacian(*a, deriv_type=dt, **ko),
           dn.evaluate_density_laplacian(*b, deriv_type=dt, **km))
        sc("evaluate_density_hessian", dn.evaluate_density_hessian(*a, deriv_type=dt, **ko),
           ten2_to_old(S, dn.evaluate_density_hessian(*b, deriv_type=dt, **km)))
    if sub in ("all", "ked"):
        sc("evaluate_posdef_kinetic_energy_density", dn.evaluate_posdef_kinetic_energy_density(*a, deriv_type=dt, **ko),
           dn.evaluate_posdef_kinetic_energy_density(*b, deriv_type=dt, **km))
        al = float(F(case.get("alpha", "1/2")))
        sc("evaluate_general_kinetic_energy_density",
           dn.evaluate_general_kinetic_energy_density(*a, al, deriv_type=dt, **ko),
           dn.evaluate_general_kinetic_energy_density(*b, al, deriv_type=dt, **km))
        for o in case.get("orders", []):
            n = sum(o)
            Mt = tensor_matrix(S.R, n)
            lst = all_orders(n)
            col = lst.index(tuple(o))
            x = dn.evaluate_deriv_density(np.array(o), *a, deriv_type="general", **ko)
            pred = np.zeros_like(x)
            mag = np.zeros_like(x)
            for row, o2 in enumerate(lst):
                if Mt[row, col] != 0:
                    y = dn.evaluate_deriv_density(np.array(o2), *b, deriv_type="general", **km)
                    pred += Mt[row, col] * y
                    mag += abs(Mt[row, col]) * np.abs(y)
            out.append(check("evaluate_deriv_density%s" % (tuple(o),), x, pred, np.full(x.shape, mag.max(initial=0.0)),
                             "p", sl))
    if sub in ("all", "stress"):
        al = float(F(case.get("st_alpha", "1")))
        be = float(F(case.get("st_beta", "0")))
        sc("evaluate_stress_tensor", st.evaluate_stress_tensor(*a, alpha=al, beta=be, **ko),
           ten2_to_old(S, st.evaluate_stress_tensor(*b, alpha=al, beta=be, **km)))
        sc("evaluate_ehrenfest_force", st.evaluate_ehrenfest_force(*a, alpha=al, beta=be, **ko),
           vec_to_old(S, st.evaluate_ehrenfest_force(*b, alpha=al, beta=be, **km)))
        sym = bool(case.get("st_sym", False))
        sc("evaluate_ehrenfest_hessian", st.evaluate_ehrenfest_hessian(*a, alpha=al, beta=be, symmetric=sym, **ko),
           ten2_to_old(S, st.evaluate_ehrenfest_hessian(*b, alpha=al, beta=be, symmetric=sym, **km)))
    return rho


def _nuc(S):
    co = np.array([[float(c) for c in p[:3]] for p in S.charges])
    mco = np.array([[float(c) for c in p[:3]] for p in S.mcharges])
    q = np.array([float(p[3]) for p in S.charges])
    return co, mco, q


def g_esp(S, case, DD, sl, out):
    from gbasis.evals.electrostatic_potential import electrostatic_potential
    P, Pm, C, Cm = _density_matrix(S, case, DD)
    co, mco, q = _nuc(S)
    th = float(F(case.get("threshold", "0")))
    x = electrostatic_potential(S.g, P, S.P, co, q, transform=C, threshold_dist=th)
    y = electrostatic_potential(S.mg, Pm, S.mP, mco, q, transform=Cm, threshold_dist=th)
    mag = np.full(np.shape(x), max(np.abs(x).max(initial=0.0), np.abs(y).max(initial=0.0)))
    out.append(check("electrostatic_potential", x, y, mag, "p", sl))
    return x


def _two(S, C, Cm, DD, X, Xm_fn, extra_axes=0):
    """X (K,K,...) of the original system against the moved system; Xm_fn(transform) evaluates the moved one"""
    if C is None:
        Xm = Xm_fn(None)
        pred = np.einsum("ij,il...,lk->jk...", DD, Xm, DD)
        mag = np.einsum("ij,il...,lk->jk...", np.abs(DD), np.abs(Xm), np.abs(DD))
        return pred, mag, "bb" + "c" * extra_axes, Xm
    Xm = Xm_fn(Cm)
    Xao = Xm_fn(None)
    mag = np.einsum("ij,il...,lk->jk...", np.abs(C @ DD.T).T, np.abs(Xao), np.abs(C @ DD.T).T)
    return Xm, mag, "cc" + "c" * extra_axes, Xao


def _diag_scale(X):
    """sqrt(|X_jj| |X_kk|) (per trailing index): the scale C01-C03 measure two-index integrals against"""
    X = np.asarray(X)
    d = np.sqrt(np.abs(np.einsum("jj...->j...", X)))
    return d[:, None, ...] * d[None, :, ...]


def g_int2(S, case, DD, sl, out):
    from gbasis.integrals.kinetic_energy import kinetic_energy_integral
    from gbasis.integrals.nuclear_electron_attraction import nuclear_electron_attraction_integral
    from gbasis.integrals.overlap import overlap_integral
    from gbasis.integrals.point_charge import point_charge_integral
    C, Cm = _transform_pair(S, case, DD)
    co, mco, q = _nuc(S)
    res = {}
    X = overlap_integral(S.g, transform=C)
    pred, mag, kinds, res["overlap"] = _two(S, C, Cm, DD, X, lambda T: overlap_integral(S.mg, transform=T))
    out.append(check("overlap_integral", X, pred, mag, kinds, sl, nat=_diag_scale(X)))
    Xk = kinetic_energy_integral(S.g, transform=C)
    pred, mag, kinds, res["kinetic"] = _two(S, C, Cm, DD, Xk, lambda T: kinetic_energy_integral(S.mg, transform=T))
    out.append(check("kinetic_energy_integral", Xk, pred, mag, kinds, sl, nat=_diag_scale(Xk)))
    if len(q):
        Xn = nuclear_electron_attraction_integral(S.g, co, q, transform=C)
        pred, mag, kinds, res["nuclear"] = _two(
            S, C, Cm, DD, Xn, lambda T: nuclear_electron_attraction_integral(S.mg, mco, q, transform=T))
        out.append(check("nuclear_electron_attraction_integral", Xn, pred, mag, kinds, sl, nat=_diag_scale(Xn)))
        Xp = point_charge_integral(S.g, co, q, transform=C)
        pred, mag, kinds, res["pc"] = _two(S, C, Cm, DD, Xp, lambda T: point_charge_integral(S.mg, mco, q, transform=T), 0)
        out.append(check("point_charge_integral", Xp, pred, mag, kinds + "p", sl, nat=_diag_scale(Xp)))
    return X, res


def g_moment(S, case, DD, sl, out):
    from gbasis.integrals.moment import moment_integral
    C, Cm = _transform_pair(S, case, DD)
    orders = [tuple(o) for o in case["orders"]]
    og = np.array([float(c) for c in S.origin])
    mog = np.array([float(c) for c in S.morigin])
    X = moment_integral(S.g, og, np.array(orders, dtype=int), transform=C)
    degs = sorted(set(sum(o) for o in orders))
    morders = [o for n in degs for o in all_orders(n)]
    cache = {}

    def mfun(T):
        key = "ao" if T is None else "t"
        if key not in cache:
            cache[key] = moment_integral(S.mg, mog, np.array(morders, dtype=int), transform=T)
        return cache[key]

    pred_all, mag_all, kinds, Xm = _two(S, C, Cm, DD, None, mfun, 1)
    pred = np.zeros_like(X)
    mag = np.zeros_like(X)
    for k, o in enumerate(orders):
        n = sum(o)
        Mt = tensor_matrix(S.R, n)
        lst = all_orders(n)
        col = lst.index(o)
        for row, o2 in enumerate(lst):
            if Mt[row, col] != 0:
                j = morders.index(o2)
                pred[:, :, k] += Mt[row, col] * pred_all[:, :, j]
                mag[:, :, k] += abs(Mt[row, col]) * mag_all[:, :, j]
    nat = np.maximum(1.0, np.abs(X).max(axis=(0, 1), keepdims=True)) if X.size else None
    out.append(check("moment_integral", X, pred, mag, kinds[:2] + "p", sl, nat=nat))
    return X, (morders, mfun(None))


def g_momentum(S, case, DD, sl, out):
    from gbasis.integrals.momentum import momentum_integral
    C, Cm = _transform_pair(S, case, DD)
    X = momentum_integral(S.g, transform=C)
    pred, mag, kinds, Xm = _two(S, C, Cm, DD, X, lambda T: momentum_integral(S.mg, transform=T), 1)
    out.append(check("momentum_integral", X, vec_to_old(S, pred), np.einsum("...b,ba->...a", mag, np.abs(S.Rf)),
                     kinds, sl, nat=max(1.0, float(np.abs(X).max(initial=0.0)))))
    return X, Xm


def g_angmom(S, case, DD, sl, out):
    from gbasis.integrals.angular_momentum import angular_momentum_integral
    from gbasis.integrals.momentum import momentum_integral
    C, Cm = _transform_pair(S, case, DD)
    X = angular_momentum_integral(S.g, transform=C)

    def moved(T):
        L = angular_momentum_integral(S.mg, transform=T)
        p = momentum_integral(S.mg, transform=T)
        return L - np.cross(S.tf[None, None, :], p)       # about the image of the old origin

    def moved_abs(T):
        L = angular_momentum_integral(S.mg, transform=T)
        p = momentum_integral(S.mg, transform=T)
        return np.abs(L) + np.abs(np.cross(np.abs(S.tf)[None, None, :], np.abs(p)))

    pred, _, kinds, _ = _two(S, C, Cm, DD, X, moved, 1)
    _, mag, _, _ = _two(S, C, Cm, DD, X, moved_abs, 1)
    pred = float(S.det) * vec_to_old(S, pred)
    mag = np.einsum("...b,ba->...a", mag, np.abs(S.Rf))
    out.append(check("angular_momentum_integral", X, pred, mag, kinds, sl, nat=max(1.0, float(np.abs(X).max(initial=0.0)))))
    return X, angular_momentum_integral(S.mg)


def _schwarz(X, nota):
    """q_ij q_kl with q_ij = sqrt|(ij|ij)|, laid out like X"""
    Xc = X if nota == "chemist" else X.transpose(0, 2, 1, 3)
    q = np.sqrt(np.abs(np.einsum("ijij->ij", Xc)))
    m = q[:, :, None, None] * q[None, None, :, :]
    return m if nota == "chemist" else m.transpose(0, 2, 1, 3)


def g_eri(S, case, DD, sl, out):
    """tolerance: the accuracy property C04 grants the implementation, 1e-6 x the Schwarz bound (largest of the
    shell quartet); its rounding error for tight x diffuse quartets exceeds 1e-9 of the block scale in either frame"""
    from gbasis.integrals.electron_repulsion import electron_repulsion_integral
    C, Cm = _transform_pair(S, case, DD)
    nota = case.get("notation", "chemist")
    X = electron_repulsion_integral(S.g, transform=C, notation=nota)
    Xao = electron_repulsion_integral(S.mg, notation=nota)
    if C is None:
        pred = np.einsum("ai,bj,ck,dl,abcd->ijkl", DD, DD, DD, DD, Xao, optimize=True)
        kinds = "bbbb"
    else:
        pred = electron_repulsion_integral(S.mg, transform=Cm, notation=nota)
        kinds = "cccc"
    mag = np.maximum(_schwarz(X, nota), _schwarz(pred, nota)) if X.shape == pred.shape else X
    out.append(check("electron_repulsion_integral(%s)" % nota, X, pred, mag, kinds, sl, rel=ERI_REL))
    return X, Xao


def g_origin(S, case, DD, sl, out):
    """binomial law inside one frame: moments about origin2 from the moments about origin"""
    from gbasis.integrals.moment import moment_integral
    from math import comb
    o = tuple(case["orders"][0])
    X1 = S.origin
    X2 = [F(c) for c in case["origin2"]]
    lower = [t for t in itertools.product(range(o[0] + 1), range(o[1] + 1), range(o[2] + 1))]
    new = moment_integral(S.g, np.array([float(c) for c in X2]), np.array([o], dtype=int))[:, :, 0]
    old = moment_integral(S.g, np.array([float(c) for c in X1]), np.array(lower, dtype=int))
    pred = np.zeros_like(new)
    mag = np.zeros_like(new)
    for k, low in enumerate(lower):
        coef = Fraction(1)
        for ax in range(3):
            coef *= comb(o[ax], low[ax]) * (X1[ax] - X2[ax]) ** (o[ax] - low[ax])
        pred += float(coef) * old[:, :, k]
        mag += abs(float(coef)) * np.abs(old[:, :, k])
    out.append(check("moment_integral origin shift %s" % (o,), new, pred, mag, "bb", sl,
                     nat=max(1.0, float(np.abs(new).max(initial=0.0)))))
    return new


# ----------------------------------------------------------------------------------------------
# exact model on the moved system
# ----------------------------------------------------------------------------------------------
def _mtol(res):
    arr = np.array(res, dtype=object)
    scale = max(1.0, max((abs(float(x)) for x in arr.flat), default=1.0))
    return MODEL_REL * scale


def model_check(model, S, case, group, aux, out):
    bsx = twoindex.basis_sx(S.mshells)

    def cmp(name, impl, res):
        d = compare(impl, res, tol_abs=_mtol(res))
        if d is not None:
            d["what"] = name + " (moved system vs exact model)"
            d["kind"] = "model-" + d["kind"]
        out.append(d)

    if group == "eval":
        from gbasis.evals.eval import evaluate_basis
        cmp("evaluate_basis", evaluate_basis(S.mg, S.mP), model.call("(102 %s %s ())" % (bsx, sx(S.mpoints))))
    elif group == "deriv":
        from gbasis.evals.eval_deriv import evaluate_deriv_basis
        o = case["orders"][0]
        cmp("evaluate_deriv_basis", evaluate_deriv_basis(S.mg, S.mP, np.array(o)),
            model.call("(101 %s %s %s () 0)" % (bsx, sx(S.mpoints), sx(list(o)))))
    elif group == "int2":
        res = aux[1]
        cmp("overlap_integral", res["overlap"], model.call("(2 %s ())" % bsx))
        cmp("kinetic_energy_integral", res["kinetic"], model.call("(7 %s ())" % bsx))
        if "pc" in res:
            pts = sx(S.mcharges)
            cmp("point_charge_integral", res["pc"], model.call("(15 %s %s ())" % (pts, bsx)))
            cmp("nuclear_electron_attraction_integral", res["nuclear"], model.call("(16 %s %s ())" % (pts, bsx)))
    elif group == "moment":
        morders, Xm = aux[1]
        cmp("moment_integral", Xm, model.call("(9 %s %s %s ())" % (sx(S.morigin), sx([list(o) for o in morders]), bsx)))
    elif group == "momentum":
        cmp("momentum_integral", -np.asarray(aux[1]).imag, model.call("(11 %s ())" % bsx))
    elif group == "angmom":
        cmp("angular_momentum_integral", -np.asarray(aux[1]).imag, model.call("(13 %s ())" % bsx))
    elif group == "eri":
        nota = 0 if case.get("notation", "chemist") == "chemist" else 1
        cmp("electron_repulsion_integral", aux[1], model.call("(21 %s () %d)" % (bsx, nota)))


MODEL_GROUPS = ("eval", "deriv", "int2", "moment", "momentum", "angmom", "eri")
GFUN = {"eval": g_eval, "deriv": g_deriv, "density": g_density, "esp": g_esp, "int2": g_int2, "moment": g_moment,
        "momentum": g_momentum, "angmom": g_angmom, "eri": g_eri, "origin": g_origin}


def eval_case(model, case):
    group = case["group"]
    S = Sys(case)
    motion = case.get("motion", "?")
    types = "".join("s" if s.sph else "c" for s in S.shells)
    tkind = "cart" if "s" not in types else ("sph" if "c" not in types else "mixed")
    tag = "%s/%s/%s%s" % (group, motion, tkind, "/T" if case.get("tseed") is not None else "")
    out = []
    try:
        DD, sl = S.rep()
    except NoRepresentation as exc:
        return {"detail": {"kind": "no-spherical-representation", "what": str(exc)}, "tag": tag, "nontrivial": True}

    def body():
        aux = GFUN[group](S, case, DD, sl, out)
        if case.get("xmodel") and group in MODEL_GROUPS and model is not None:
            model_check(model, S, case, group, aux if isinstance(aux, tuple) else (aux, None), out)
        return aux

    st, aux = call_impl(body)
    if st != "ok":
        return {"detail": {"kind": "rejected", "what": group, "impl": aux}, "tag": tag, "nontrivial": True}
    first = aux[0] if isinstance(aux, tuple) else aux
    nonzero = first is not None and np.asarray(first).size > 0 and bool(np.any(np.asarray(first) != 0))
    detail = next((d for d in out if d is not None), None)
    stats = {"comparisons": len(out), "l%d" % max(s.l for s in S.shells): 1,
             "generalized": int(any(len(s.coeffs[0]) > 1 for s in S.shells)),
             "model_checked": int(bool(case.get("xmodel")) and group in MODEL_GROUPS)}
    return {"detail": detail, "tag": tag, "nontrivial": bool(nonzero and (not S.identity or group == "origin")),
            "stats": stats}


# ----------------------------------------------------------------------------------------------
# generators
# ----------------------------------------------------------------------------------------------
def _coord(rng, unit, span=2.5):
    k = int(span / float(unit))
    return [unit * rng.randint(-k, k) for _ in range(3)]


def _general(R, t, vecs):
    """no coordinate difference of two of the vectors is zero, before and after the motion"""
    mv = [apply_motion(R, t, v) for v in vecs]
    for lst in (vecs, mv):
        for i in range(len(lst)):
            for j in range(i + 1, len(lst)):
                if any(lst[i][a] == lst[j][a] for a in range(3)):
                    return False
    return True


def gen_motion(rng, kind, idx=0):
    """(R as Fraction matrix, n, label)"""
    if kind == "signed":
        R = SIGNED[idx % 48]
        return [[F(v) for v in row] for row in R], 1, "signed"
    if kind == "translate":
        return [[F(int(i == j)) for j in range(3)] for i in range(3)], 1, "translate"
    while True:
        q = [rng.randint(-3, 3) for _ in range(4)]
        N, n = quat_matrix(q)
        if n == 0 or n > 27:
            continue
        Q = [[F(v, n) for v in row] for row in N]
        if is_signed_perm(Q):
            continue
        Sg = SIGNED[rng.randrange(48)]
        R = mat_mul([[F(v) for v in row] for row in Sg], Q)
        return R, n, "rot+" if det3(R) == 1 else "rot-"


def gen_case(rng, group, kind, idx, tier, lcycle):
    R, n, label = gen_motion(rng, kind, idx)
    unit = grid_unit(n)
    if kind == "signed" and idx % 4 == 3:
        t = [F(0)] * 3
    else:
        t = [F(rng.randint(-48, 48), 16) for _ in range(3)]
    big = group == "eri"
    lmax_cap = (2 if tier == "quick" else 3) if big else 4
    dsub = None
    if group == "density":
        dsub = rng.choice(["grad", "ked", "stress"]) if tier == "quick" else "all"
        if dsub == "stress":
            lmax_cap = 3      # quick tier: the Ehrenfest Hessian of a spherical g shell costs ~10 s (1600 evaluate_deriv_basis calls)
    nsh = rng.choice([1, 2, 2, 3]) if big else rng.choice([1, 2, 2, 3, 3, 4])
    general = rng.random() < 0.7
    mode = rng.random()
    for _attempt in range(200):
        centres = [_coord(rng, unit) for _ in range(nsh)]
        if not general and nsh > 1:
            which = rng.random()
            if which < 0.4:
                centres[1] = list(centres[0])                      # two shells on one atom
            elif which < 0.7:
                centres[1] = [centres[0][0], centres[0][1], centres[1][2]]   # same x, y
            else:
                centres[0] = [F(0)] * 3
        npts = rng.randint(2, 5) if group in ("eval", "deriv", "density", "esp") else 0
        if dsub == "stress":
            npts = 2
        points = [_coord(rng, unit, 3.0) for _ in range(npts)]
        ncharge = rng.randint(1, 3) if group in ("int2", "esp") else 0
        chg = [_coord(rng, unit, 3.0) for _ in range(ncharge)]
        origin = _coord(rng, unit, 2.0) if group in ("moment", "origin") else [F(0)] * 3
        if not general and points and rng.random() < 0.5:
            points[0] = list(centres[0])                            # a point on a centre
        if group == "esp" and any(sum((p[a] - c[a]) ** 2 for a in range(3)) < F(1, 256) for p in points for c in chg):
            continue
        uniq = []
        for v in centres + points + chg + ([origin] if group in ("moment", "origin") else []):
            if v not in uniq:
                uniq.append(v)
        if general and not _general(R, t, uniq):
            continue
        break
    general = _general(R, t, uniq)
    shells = []
    for i in range(nsh):
        l = min(lcycle[0] % 5, lmax_cap) if i == 0 else rng.randint(0, lmax_cap if not big else lmax_cap)
        lcycle[0] += 1 if i == 0 else 0
        sph = True if mode < 0.25 else (False if mode < 0.5 else (rng.random() < 0.5))
        kmax = (1 if l >= 3 else 2) if big else 3      # eri: f shells uncontracted (see the comment below)
        mmax = 2 if (big or l >= 3) else 3
        # electron repulsion: exponents within a factor ~30 of each other.  The implementation's accuracy for
        # contracted tight x diffuse quartets (seen against the exact model: 1e-3 of the block for p/f shells with
        # exponents 0.9 and 28, in either frame) is property C04's subject; its errors are not covariant and would
        # drown the geometric law this property is about.  Contracted f shells reach 2e-6 of the Schwarz bound even
        # for exponent ratios ~13 (thorough tier, seed 5), so f shells carry one primitive here
        sh = gen_shell(rng, l=l, kmax=kmax, mmax=mmax, sph=sph, coord=centres[i], exp_lo=0.15 if big else 0.05,
                       exp_hi=4.0 if big else min(lib.exp_cap(l), 50.0))
        shells.append(sh)
    if big:
        # keep the four-index work small
        while sum(s.nfun() for s in shells) > (14 if tier == "quick" else 20) and len(shells) > 1:
            shells.pop()
    case = {"kind": "cov", "group": group, "motion": label, "general_position": bool(general),
            "basis": [s.to_json() for s in shells], "R": [[str(c) for c in row] for row in R],
            "t": [str(c) for c in t], "points": [[str(c) for c in p] for p in points],
            "charges": [[str(c) for c in p] + [str(F(rng.choice([1, 2, 6, 8, -1, 3]), rng.choice([1, 1, 2])))] for p in chg],
            "origin": [str(c) for c in origin], "pseed": rng.randrange(1 << 30)}
    if rng.random() < (0.2 if not big else 0.15) and group != "origin":
        case["tseed"] = rng.randrange(1 << 30)
        case["trows"] = rng.choice([1, 2, 3])
    signed = kind in ("signed", "translate")
    if group == "deriv":
        nmax = 4 if signed else 2
        orders = []
        for _ in range(2 if signed else 2):
            n = rng.randint(1, nmax)
            orders.append(list(rng.choice(all_orders(n))))
        case["orders"] = orders
        case["deriv_type"] = "direct" if (rng.random() < 0.3 and all(max(o) <= 2 for o in orders)) else "general"
    elif group == "density":
        case["sub"] = dsub
        nmax = 3 if signed else 2
        case["orders"] = [list(rng.choice(all_orders(rng.randint(1, nmax))))]
        case["alpha"] = str(F(rng.choice([-2, -1, 1, 2, 3]), 4))
        case["st_alpha"], case["st_beta"] = rng.choice([("1", "0"), ("1/2", "1/4"), ("0", "1"), ("-1/2", "3/4")])
        case["st_sym"] = rng.random() < 0.3
        case["deriv_type"] = rng.choice(["general", "general", "direct"])
    elif group == "esp":
        if rng.random() < 0.3:
            ds = sorted(math.sqrt(float(sum((F(p[a]) - F(c[a])) ** 2 for a in range(3))))
                        for p in case["points"] for c in case["charges"])
            cand = [(ds[i] + ds[i + 1]) / 2 for i in range(len(ds) - 1) if ds[i + 1] > ds[i] * 1.01]
            if cand:
                case["threshold"] = str(F(float(rng.choice(cand))))
    elif group == "moment":
        nmax = 4 if signed else 3
        orders = []
        for _ in range(rng.randint(1, 3)):
            o = list(rng.choice(all_orders(rng.randint(0, nmax))))
            if o not in orders:
                orders.append(o)
        case["orders"] = orders
    elif group == "origin":
        case["orders"] = [[rng.randint(0, 3) for _ in range(3)]]
        case["origin2"] = [str(c) for c in _coord(rng, unit, 2.0)]
    elif group == "eri":
        case["notation"] = rng.choice(["chemist", "physicist"])
    return case


NEARFAR_GROUPS = ("int2", "moment", "momentum", "eval")


def _is_double(v):
    return Fraction(float(v)) == v


def gen_nearfar_case(rng, group, idx):
    """Two shells of opposite parity (l <= 2) on DISTINCT centres A, B = A + d, |d_a| = (0.5..1) x 1e-4 / 1e-5 / 1e-6 per
    component (multiples of 2^-40), optionally a third shell 1-2 bohr away; the NEAR frame has A within 2 bohr of the
    origin (for |d| < 5e-5: one coordinate of A is 0, so that the two centres differ RELATIVELY by more than 1e-5 in
    that coordinate), the FAR frame is the near one moved by a signed axis permutation and a translation of 50..150 bohr
    per axis (k/16): there every coordinate of A and B agrees to a relative 1e-6..1e-8.  Even idx: original = near,
    moved = far; odd idx: original = far, moved = near.  Every coordinate is a double in BOTH frames (49 bits).
    Anything that decides "same centre" relative to the absolute coordinates treats the pair as one centre in the far
    frame only, and the opposite-parity blocks (first order in d) break covariance by |d| sqrt(alpha)."""
    la, lb = ((0, 1), (1, 0), (1, 2), (2, 1))[rng.randrange(4)]
    u = (4, 5, 6, 4)[idx % 4]
    A = [F(rng.randint(-32, 32), 16) for _ in range(3)]
    if u > 4:
        A[rng.randrange(3)] = F(0)
    d = [rng.choice([-1, 1]) * F(round(10.0 ** -u * rng.uniform(0.5, 1.0) * 2 ** 40), 2 ** 40) for _ in range(3)]
    B = [A[a] + d[a] for a in range(3)]
    R = [[F(v) for v in row] for row in (SIGNED[0] if idx % 3 == 0 else SIGNED[rng.randrange(48)])]
    t = [rng.choice([-1, 1]) * F(rng.randint(50 * 16, 150 * 16), 16) for _ in range(3)]
    near = lambda span: [A[a] + F(rng.randint(-16 * span, 16 * span), 16) for a in range(3)]
    centres = [A, B]
    ls = [la, lb]
    if rng.random() < 0.6:
        c3 = near(2)
        while c3 == A:
            c3 = near(2)
        centres.append(c3)
        ls.append(rng.randint(0, 2))
    mode = rng.random()
    shells = []
    for c, l in zip(centres, ls):
        sph = True if mode < 0.25 else (False if mode < 0.5 else (rng.random() < 0.5))
        shells.append(gen_shell(rng, l=l, kmax=2, mmax=2, sph=sph, coord=list(c), exp_lo=0.5, exp_hi=20.0))
    if len(shells) == 3 and rng.random() < 0.5:
        shells.insert(rng.randrange(2), shells.pop())          # the pair is not always listed first / adjacent
    points = [near(1) for _ in range(rng.randint(2, 4))] if group == "eval" else []
    if points and rng.random() < 0.5:
        points[0] = list(A)
    chg = [near(2) for _ in range(rng.randint(1, 2))] if group == "int2" else []
    origin = near(1) if group == "moment" else [F(0)] * 3
    if idx % 2 == 1:
        # original = far frame z = R y + t, motion back: y = R^T z - R^T t
        mv = lambda x: apply_motion(R, t, x)
        for sh in shells:
            sh.coord = mv(sh.coord)
        points, chg = [mv(x) for x in points], [mv(x) for x in chg]
        origin = mv(origin) if group == "moment" else origin
        Rt = [[R[b][a] for b in range(3)] for a in range(3)]
        t = [-sum(Rt[a][b] * t[b] for b in range(3)) for a in range(3)]
        R = Rt
    vecs = [sh.coord for sh in shells] + points + chg + ([origin] if group == "moment" else [])
    assert all(_is_double(v) for x in vecs for v in x) and all(_is_double(v) for x in vecs for v in apply_motion(R, t, x))
    uniq = []
    for v in vecs:
        if v not in uniq:
            uniq.append(v)
    case = {"kind": "cov", "group": group, "motion": "nearfar", "general_position": bool(_general(R, t, uniq)),
            "basis": [sh.to_json() for sh in shells], "R": [[str(c) for c in row] for row in R],
            "t": [str(c) for c in t], "points": [[str(c) for c in x] for x in points],
            "charges": [[str(c) for c in x] + [str(F(rng.choice([1, 2, 6, 8, -1, 3]), rng.choice([1, 1, 2])))] for x in chg],
            "origin": [str(c) for c in origin], "pseed": rng.randrange(1 << 30)}
    if group == "moment":
        orders = []
        for _ in range(rng.randint(1, 2)):
            o = list(rng.choice(all_orders(rng.randint(0, 2))))
            if o not in orders:
                orders.append(o)
        case["orders"] = orders
    return case


def gen_cases(tier, seed):
    cases = _gen_cases_main(tier, seed)
    # nearly coincident DISTINCT centres, one frame 50-150 bohr from the origin (own PRNG; appended, so the cases of
    # the older streams are unchanged); half of them also against the exact model (moved system)
    rng = random.Random(1000003 * seed + 121212)
    for g in NEARFAR_GROUPS:
        for idx in range(4 if tier == "quick" else 16):
            c = gen_nearfar_case(rng, g, idx)
            if idx % 4 in (0, 3):
                c["xmodel"] = True
            cases.append(c)
    return cases


def _gen_cases_main(tier, seed):
    rng = random.Random(1000003 * seed + 1212)
    cases = []
    lcycle = [0]
    reps = 1 if tier == "quick" else 4
    cov_groups = [g for g in GROUPS if g != "origin"]
    for _ in range(reps):
        for g in cov_groups:
            for idx in range(48):
                cases.append(gen_case(rng, g, "signed", idx, tier, lcycle))
    nrot = {"quick": 24, "thorough": 120}[tier]
    for g in cov_groups:
        for _ in range(nrot if g != "eri" else max(4, nrot // 3)):
            cases.append(gen_case(rng, g, "rot", 0, tier, lcycle))
    ntr = {"quick": 3, "thorough": 20}[tier]
    for g in cov_groups:
        for _ in range(ntr):
            cases.append(gen_case(rng, g, "translate", 0, tier, lcycle))
    for _ in range({"quick": 8, "thorough": 60}[tier]):
        cases.append(gen_case(rng, "origin", "translate", 0, tier, lcycle))
    # a seeded subset is also compared with the exact model (moved system)
    xr = random.Random(1000003 * seed + 1213)
    for c in cases:
        if c["group"] in MODEL_GROUPS and c.get("tseed") is None:
            lm = max(s["l"] for s in c["basis"])
            nf = sum(XShell.from_json(s).nfun() for s in c["basis"])
            p = 0.12
            if c["group"] == "eri":
                p = 0.10 if (lm <= 1 and nf <= 8) else 0.0
            elif c["group"] in ("eval", "deriv"):
                p = 0.15
            if xr.random() < p:
                c["xmodel"] = True
    return cases


# ----------------------------------------------------------------------------------------------
# shrinking
# ----------------------------------------------------------------------------------------------
def shrink_case(case):
    lst = case["basis"]
    if len(lst) > 1:
        for i in range(len(lst)):
            c = dict(case)
            c["basis"] = lst[:i] + lst[i + 1:]
            yield c
    if case.get("tseed") is not None:
        c = dict(case)
        c.pop("tseed")
        yield c
    if case.get("xmodel"):
        c = dict(case)
        c.pop("xmodel")
        yield c
    for key in ("points", "charges"):
        if len(case.get(key, [])) > 1:
            for i in range(len(case[key])):
                c = dict(case)
                c[key] = case[key][:i] + case[key][i + 1:]
                yield c
    if len(case.get("orders", [])) > 1:
        for i in range(len(case["orders"])):
            c = dict(case)
            c["orders"] = case["orders"][:i] + case["orders"][i + 1:]
            yield c
    if any(v != "0" for v in case["t"]) and case["group"] != "angmom":
        c = dict(case)
        c["t"] = ["0", "0", "0"]
        yield c
    ident = [["1", "0", "0"], ["0", "1", "0"], ["0", "0", "1"]]
    if case["R"] != ident and case["group"] != "origin":
        # simpler motions: one reflection, one transposition (coordinates stay on the grid: n = 1)
        for Rs in ([[-1, 0, 0], [0, 1, 0], [0, 0, 1]], [[1, 0, 0], [0, -1, 0], [0, 0, 1]],
                   [[1, 0, 0], [0, 1, 0], [0, 0, -1]], [[0, 1, 0], [1, 0, 0], [0, 0, 1]],
                   [[1, 0, 0], [0, 0, 1], [0, 1, 0]], [[0, 0, 1], [0, 1, 0], [1, 0, 0]]):
            Rj = [[str(v) for v in row] for row in Rs]
            if Rj != case["R"]:
                c = dict(case)
                c["R"] = Rj
                c["motion"] = "signed"
                yield c
    for i, sj in enumerate(lst):
        for t in shrink_shell_json(sj):
            if t["coord"] != sj["coord"]:
                continue            # keep the geometry (general position is the point)
            c = dict(case)
            c["basis"] = lst[:i] + [t] + lst[i + 1:]
            yield c


def known(case, detail):
    return None


def xcheck_cmds(seed):
    """runner commands on a moved (rotated + translated) shell pair, re-evaluated inside Coq (vm_compute) by main.py:
    the exact-model comparison of this module uses only commands that C01-C08 cross-check on their own inputs; this
    adds the coordinates typical here (numerators with more bits)"""
    rng = random.Random(1000003 * seed + 1214)
    lc = [1]
    c = gen_case(rng, "int2", "rot", 0, "quick", lc)
    c["basis"] = (c["basis"] * 2)[:2]
    for i, s in enumerate(c["basis"]):
        s = dict(s)
        s["l"] = i
        s["exps"] = s["exps"][:1]
        s["coeffs"] = [row[:1] for row in s["coeffs"][:1]]
        c["basis"][i] = s
    S = Sys(c)
    return ["(1 %s %s)" % (S.mshells[0].sx(), S.mshells[1].sx()), "(10 %s %s)" % (S.mshells[0].sx(), S.mshells[1].sx())]


def run(rep, tier, seed, model, replay):
    cases = [replay["case"]] if replay is not None else gen_cases(tier, seed)
    nsig = sum(1 for c in cases if c.get("motion") == "signed")
    EXTRA.update({"signed_permutation_cases": nsig,
                  "general_position_cases": sum(1 for c in cases if c.get("general_position")),
                  "model_compared_cases": sum(1 for c in cases if c.get("xmodel")),
                  "groups": {g: sum(1 for c in cases if c.get("group") == g) for g in GROUPS}})
    run_cases(rep, cases, eval_case, shrinkfn=shrink_case, known=known)
