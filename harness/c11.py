"""C11 — index symmetries hold and reordering shells only reorders indices.

Search / correspondence harness (public API of the working tree only):

  perm    every public integral / evaluation function on a basis and on its re-orderings: the array of the
          permuted basis must be the index-permuted array of the original basis (index map = offsets of the shell
          blocks, the `iperm` of coq/Proofs/PermP.v).  The returned arrays are also checked for their own
          symmetry (real symmetric / Hermitian / eight-fold).  A seeded subset is compared with the exact Coq
          model as well (runner commands 2, 3, 7, 9, 11, 13, 15, 16, 21, 101, 102), so that a defect which is
          consistent across permutations is still seen.
  orient  shell-pair blocks computed INDEPENDENTLY in both orientations,
          X.construct_array_contraction(a, b) vs (b, a) transposed (conjugate-transposed for the momentum type),
          for Overlap, KineticEnergy, Moment, Momentum, AngularMomentum, PointCharge (both L_a >= L_b and the
          swapped L_a < L_b path); subset also against the exact model (commands 1, 6, 8, 10, 12, 14).
  eri8    ElectronRepulsionIntegral.construct_array_contraction on a quartet in all eight orientations, each
          brought back to the (s1 s2|s3 s4) layout, tolerance 1e-6 of the Schwarz scale; families: regular
          quartets and quartets pairing tight and diffuse shells; reference = exact model (command 20) when the
          case asks for it, else the best-conditioned orientation.  Families near-pair-far (a pair of distinct
          centres that agree to a relative 1e-5 of their coordinates, far from the origin) and many-primitives
          (9-10 primitives per shell, > 4096 primitive quartets): gen_special_cases.

The model is the extracted runner (ModelProc); nothing is evaluated with a generated .v file except the
extraction cross-check of main.py (xcheck_cmds).  Known finding: see KNOWN_FINDINGS.json entry
"C11-eri-bra-tight-ket-diffuse" and known() below."""
import itertools
import math
import random
from fractions import Fraction

import numpy as np

import lib
import twoindex
from lib import XShell, call_impl, gen_shell, run_cases, shrink_shell_json, sx

RULE = ("perm: bases of 2-5 shells, l in 0..3 with at least two different l, segment counts M in 1..3, K in 1..3, "
        "Cartesian / spherical mixed, centres k/16; EVERY non-identity permutation for 2-4 shells, 12-16 sampled "
        "for 5; functions overlap, kinetic, moment, momentum, angular momentum, point charge, nuclear attraction, "
        "ERI (both notations; small bases), overlap_asymmetric (both bases permuted independently), "
        "evaluate_basis, evaluate_deriv_basis, evaluate_density (density matrix permuted with the basis); "
        "tolerance 1e-10 (1e-9 point charge) x max(1, largest element) [ERI: 1e-6 x Schwarz scale]; "
        "orient: every (l_a, l_b) in 0..3^2 per operator, incl. tight x diffuse exponents, tolerance 1e-10 (1e-9 "
        "point charge) x natural scale sqrt(X_aa X_bb) (momentum: sqrt(2 T_aa S_bb)); eri8: 8 orientations, "
        "1e-6 x Schwarz; eri8 family near-pair-far (quick 3, thorough 20): two shells with l in 1..2 (exponents 4..10) on "
        "DISTINCT centres agreeing per component to within 1e-5 RELATIVE to the coordinate, 50-100 bohr per axis from the "
        "origin, against two s shells (exponents 1..4) on one neighbour centre - all orientation estimates tie, so (AB| is "
        "evaluated as the bra in four orientations and as the ket in four - reference exact model for L <= 3; eri8 family "
        "many-primitives (quick 1, thorough 4): one-centre quartets (s p|s' p'), (p p'|s s'), ... whose four shells share one "
        "even-tempered list of 9 (10) exponents alpha_0 r^k (0.1 .. ~200) with different coefficient columns (6561 primitive "
        "quartets; every shell is the fourth shell of some evaluated orientation), implementation only, plus "
        "electron_repulsion_integral on [s, p] of that atom in both shell orders; a case is non-trivial when some l > 0 and the array is not identically zero; distinct by "
        "the hash of the exact input")
EXTRA = {"known_finding_id": "C11-eri-bra-tight-ket-diffuse",
         "coq_files": ["Proofs/PermP.v", "Proofs/OrientP.v", "Proofs/PermEx.v", "Props/C11.v"]}
ASSUMPTIONS = [
    "floating-point rounding is not modelled: 'the same array up to a permutation' is decided at rounding level "
    "(1e-10 of the scale), the eight-fold / orientation symmetry of ERI blocks at 1e-6 of the Schwarz scale",
    "the Coq permutation theorems take the symmetry of the processed block function as a hypothesis; that "
    "hypothesis is what the 'orient' / 'eri8' parts test on the implementation",
]

EPS = 2.0 ** -53
KNOWN_ID = "C11-eri-bra-tight-ket-diffuse"
ERI_ORIENTS = [(0, 1, 2, 3), (1, 0, 2, 3), (0, 1, 3, 2), (1, 0, 3, 2),
               (2, 3, 0, 1), (3, 2, 0, 1), (2, 3, 1, 0), (3, 2, 1, 0)]


# ------------------------------------------------------------------------------------------------
# helpers
# ------------------------------------------------------------------------------------------------
def fr_list(xs):
    return [Fraction(x) for x in xs]


def pts_np(pts):
    return np.array([[float(Fraction(x)) for x in p] for p in pts])


def index_perm(nfs, perm):
    """old basis-function indices in the new order (the Coq `iperm`)"""
    offs = [0]
    for n in nfs:
        offs.append(offs[-1] + n)
    ip = []
    for k in perm:
        ip.extend(range(offs[k], offs[k] + nfs[k]))
    return ip


def take_axes(arr, ips):
    """arr with axis t looked up through ips[t] (None = untouched)"""
    out = arr
    for ax, ip in enumerate(ips):
        if ip is not None:
            out = np.take(out, ip, axis=ax)
    return out


def density_matrix(pseed, n):
    """symmetric positive semi-definite dyadic matrix C C^T, C entries k/4"""
    rng = random.Random(pseed * 7919 + n)
    r = max(1, min(n, 3))
    C = [[Fraction(rng.randint(-4, 4), 4) for _ in range(r)] for _ in range(n)]
    return [[sum(C[i][k] * C[j][k] for k in range(r)) for j in range(n)] for i in range(n)]


def worst_diff(A, B, tol):
    """A, B arrays (real or complex) of the same shape, tol scalar or array; returns None or detail"""
    A = np.asarray(A)
    B = np.asarray(B)
    if A.shape != B.shape:
        return {"kind": "shape", "a": list(A.shape), "b": list(B.shape)}
    if A.size == 0:
        return None
    if not (np.all(np.isfinite(A)) and np.all(np.isfinite(B))):
        return {"kind": "nonfinite"}
    d = np.abs(A - B)
    ratio = d / tol
    i = np.unravel_index(int(np.argmax(ratio)), d.shape)
    if ratio[i] > 1.0:
        t = float(tol[i]) if isinstance(tol, np.ndarray) else float(tol)
        return {"index": [int(x) for x in i], "a": repr(A[i].item()), "b": repr(B[i].item()),
                "abs_diff": float(d[i]), "tol": t}
    return None


def model_array(res):
    if res == []:
        return np.zeros((0,))
    return np.array(res, dtype=object).astype(float)


# ------------------------------------------------------------------------------------------------
# public functions under test
# ------------------------------------------------------------------------------------------------
def _impl(fn, gb, prm, gb2=None):
    if fn == "overlap":
        from gbasis.integrals.overlap import overlap_integral
        return overlap_integral(gb)
    if fn == "kinetic":
        from gbasis.integrals.kinetic_energy import kinetic_energy_integral
        return kinetic_energy_integral(gb)
    if fn == "moment":
        from gbasis.integrals.moment import moment_integral
        return moment_integral(gb, np.array([float(Fraction(x)) for x in prm["origin"]]), np.array(prm["orders"]))
    if fn == "momentum":
        from gbasis.integrals.momentum import momentum_integral
        return momentum_integral(gb)
    if fn == "angmom":
        from gbasis.integrals.angular_momentum import angular_momentum_integral
        return angular_momentum_integral(gb)
    if fn in ("pointcharge", "nuclear"):
        p = [[Fraction(x) for x in q] for q in prm["pts"]]
        pc = np.array([[float(x) for x in q[:3]] for q in p])
        pq = np.array([float(q[3]) for q in p])
        if fn == "nuclear":
            from gbasis.integrals.nuclear_electron_attraction import nuclear_electron_attraction_integral
            return nuclear_electron_attraction_integral(gb, pc, pq)
        from gbasis.integrals.point_charge import point_charge_integral
        return point_charge_integral(gb, pc, pq)
    if fn == "eri":
        from gbasis.integrals.electron_repulsion import electron_repulsion_integral
        return electron_repulsion_integral(gb, notation=prm.get("notation", "chemist"))
    if fn == "overlap_asym":
        from gbasis.integrals.overlap_asymm import overlap_integral_asymmetric
        return overlap_integral_asymmetric(gb, gb2)
    if fn == "eval":
        from gbasis.evals.eval import evaluate_basis
        return evaluate_basis(gb, pts_np(prm["points"]))
    if fn == "deriv":
        from gbasis.evals.eval_deriv import evaluate_deriv_basis
        return evaluate_deriv_basis(gb, pts_np(prm["points"]), np.array(prm["orders"]))
    if fn == "density":
        from gbasis.evals.density import evaluate_density
        P = np.array([[float(x) for x in row] for row in prm["_P"]])
        return evaluate_density(P, gb, pts_np(prm["points"]))
    raise ValueError(fn)


BASIS_AXES = {"overlap": 2, "kinetic": 2, "moment": 2, "momentum": 2, "angmom": 2, "pointcharge": 2, "nuclear": 2,
              "eri": 4, "overlap_asym": 2, "eval": 1, "deriv": 1, "density": 0}
PERM_TOL = {"pointcharge": 1e-9, "nuclear": 1e-9}


def _model_cmd(fn, basis, prm, basis2=None):
    b = twoindex.basis_sx(basis)
    if fn == "overlap":
        return "(2 %s ())" % b
    if fn == "kinetic":
        return "(7 %s ())" % b
    if fn == "moment":
        return "(9 %s %s %s ())" % (sx(fr_list(prm["origin"])), sx(prm["orders"]), b)
    if fn == "momentum":
        return "(11 %s ())" % b
    if fn == "angmom":
        return "(13 %s ())" % b
    if fn in ("pointcharge", "nuclear"):
        pts = sx([[Fraction(x) for x in q] for q in prm["pts"]])
        return "(%d %s %s ())" % (16 if fn == "nuclear" else 15, pts, b)
    if fn == "eri":
        return "(21 %s () %d)" % (b, 1 if prm.get("notation", "chemist") == "physicist" else 0)
    if fn == "overlap_asym":
        return "(3 %s %s () ())" % (b, twoindex.basis_sx(basis2))
    pts = sx([[Fraction(x) for x in p] for p in prm["points"]])
    if fn in ("eval", "density"):
        return "(102 %s %s ())" % (b, pts)
    if fn == "deriv":
        return "(101 %s %s %s () 0)" % (b, pts, sx(prm["orders"]))
    raise ValueError(fn)


def _real_view(fn, arr):
    """what the model carries: the real matrix R of the value -i R for the momentum type"""
    if fn in ("momentum", "angmom"):
        return -np.asarray(arr).imag
    return np.asarray(arr)


def _model_compare(model, fn, basis, prm, impl, basis2=None):
    """impl vs the exact model; tolerance 1e-8 x max(1, largest exact element) (ERI: 1e-6 x Schwarz + floor)"""
    res = model.call(_model_cmd(fn, basis, prm, basis2))
    X = model_array(res)
    if fn == "density":
        P = np.array([[float(x) for x in row] for row in prm["_P"]])
        # exact density from the exact basis-function values (rationals): phi^T P phi per point
        ph = [[Fraction(v) for v in row] for row in res]
        Pq = prm["_P"]
        n = len(ph)
        npt = len(ph[0]) if n else 0
        X = np.array([float(sum(Pq[i][j] * ph[i][g] * ph[j][g] for i in range(n) for j in range(n)))
                      for g in range(npt)])
        scale = max(1.0, float(np.abs(X).max()) if X.size else 1.0)
        d = worst_diff(np.asarray(impl), X, 1e-8 * scale)
    elif fn == "eri":
        chem = X if prm.get("notation", "chemist") == "chemist" else X.transpose(0, 2, 1, 3)
        n = chem.shape[0]
        dg = np.sqrt(np.abs(np.array([[chem[a, b, a, b] for b in range(n)] for a in range(n)])))
        tol = 1e-6 * dg[:, :, None, None] * dg[None, None, :, :] + 1e-14 * max(1.0, float(np.abs(chem).max()))
        if prm.get("notation", "chemist") == "physicist":
            tol = tol.transpose(0, 2, 1, 3)
        d = worst_diff(np.asarray(impl), X, tol)
    else:
        R = _real_view(fn, impl)
        scale = max(1.0, float(np.abs(X).max()) if X.size else 1.0)
        d = worst_diff(R, X, 1e-8 * scale)
        if d is None and fn in ("momentum", "angmom") and np.abs(np.asarray(impl).real).max() > 1e-8 * scale:
            d = {"kind": "not-imaginary"}
    if d is not None:
        d = dict(d, kind="model", note="a = implementation, b = exact model")
    return d


def _symmetry_detail(fn, prm, R):
    """symmetry of the returned array itself (rounding level)"""
    R = np.asarray(R)
    if fn in ("overlap", "kinetic", "moment", "pointcharge", "nuclear"):
        tol = PERM_TOL.get(fn, 1e-10) * max(1.0, float(np.abs(R).max()))
        d = worst_diff(R, np.swapaxes(R, 0, 1), tol)
        return None if d is None else dict(d, kind="not-symmetric")
    if fn in ("momentum", "angmom"):
        tol = 1e-10 * max(1.0, float(np.abs(R).max()))
        d = worst_diff(R, np.conj(np.swapaxes(R, 0, 1)), tol)
        if d is None and np.abs(R.real).max() > tol:
            d = {"max_real": float(np.abs(R.real).max()), "tol": tol}
        return None if d is None else dict(d, kind="not-hermitian")
    if fn == "eri":
        phys = prm.get("notation", "chemist") != "chemist"
        chem = R.transpose(0, 2, 1, 3) if phys else R
        tol = _perm_tolerance("eri", {"notation": "chemist"}, chem)     # 1e-6 x Schwarz + rounding floor
        for name, ax in (("(ba|cd)", (1, 0, 2, 3)), ("(ab|dc)", (0, 1, 3, 2)), ("(cd|ab)", (2, 3, 0, 1))):
            d = worst_diff(chem, chem.transpose(ax), tol)
            if d is not None:
                return dict(d, kind="not-eightfold", which=name, index_is="chemist")
    return None


def _perm_tolerance(fn, prm, R0):
    R0 = np.asarray(R0)
    if fn == "eri":
        chem = R0 if prm.get("notation", "chemist") == "chemist" else R0.transpose(0, 2, 1, 3)
        n = chem.shape[0]
        dg = np.sqrt(np.abs(np.array([[chem[a, b, a, b] for b in range(n)] for a in range(n)])))
        tol = 1e-6 * dg[:, :, None, None] * dg[None, None, :, :] + 1e-13 * max(1.0, float(np.abs(chem).max()))
        return tol if prm.get("notation", "chemist") == "chemist" else tol.transpose(0, 2, 1, 3)
    return PERM_TOL.get(fn, 1e-10) * max(1.0, float(np.abs(R0).max()) if R0.size else 1.0)


def _eri_annotate(d, R0, prm, nfs, ip, where_chem):
    """add the shell quartet (positions in the ORIGINAL basis, chemists' order) and the largest Schwarz product
    of its block to an ERI detail; d["index"] refers to an array whose basis index x is original index ip[x]"""
    if d is None or "index" not in d or len(d["index"]) != 4:
        return d
    phys = prm.get("notation", "chemist") != "chemist"
    idx = list(d["index"])
    if phys and not where_chem:
        idx = [idx[0], idx[2], idx[1], idx[3]]
    old = [ip[x] for x in idx]
    offs = [0]
    for n in nfs:
        offs.append(offs[-1] + n)
    quartet = [max(k for k in range(len(nfs)) if offs[k] <= x) for x in old]
    chem = R0.transpose(0, 2, 1, 3) if phys else R0
    def dmax(i, j):
        return max(math.sqrt(abs(chem[a, b, a, b])) for a in range(offs[i], offs[i + 1])
                   for b in range(offs[j], offs[j + 1]))
    return dict(d, quartet=quartet, schwarz_block_max=dmax(quartet[0], quartet[1]) * dmax(quartet[2], quartet[3]))


def eval_perm(model, case):
    fn = case["fn"]
    prm = dict(case.get("prm") or {})
    basis = [XShell.from_json(s) for s in case["basis"]]
    basis2 = [XShell.from_json(s) for s in case["basis2"]] if fn == "overlap_asym" else None
    nfs = [s.nfun() for s in basis]
    nfs2 = [s.nfun() for s in basis2] if basis2 else None
    ntot = sum(nfs)
    types = "".join("s" if s.sph else "c" for s in basis)
    tag = "perm %s n=%d" % (fn, len(basis))
    stats = {"perm:permutations": len(case["perms"]),
             "perm:types all-cart" if "s" not in types else ("perm:types all-sph" if "c" not in types
                                                              else "perm:types mixed"): 1,
             "perm:lmax=%d" % max(s.l for s in basis): 1,
             "perm:distinct-M=%d" % len(set(len(s.coeffs[0]) for s in basis)): 1}
    if fn == "density":
        prm["_P"] = density_matrix(prm["pseed"], ntot)
    gb = [s.to_gbasis() for s in basis]
    gb2 = [s.to_gbasis() for s in basis2] if basis2 else None
    st, R0 = call_impl(_impl, fn, gb, prm, gb2)
    if st != "ok":
        return {"detail": {"kind": "rejected", "impl": R0, "where": "original order"}, "tag": tag, "stats": stats}
    R0 = np.asarray(R0)
    nontriv = bool(np.any(R0 != 0)) and any(s.l > 0 for s in basis)
    out = {"nontrivial": nontriv, "tag": tag, "stats": stats, "detail": None}
    d = _symmetry_detail(fn, prm, R0)
    if d is not None:
        if fn == "eri":
            d = _eri_annotate(d, R0, prm, nfs, list(range(ntot)), True)
        out["detail"] = dict(d, where="original order")
        return out
    tol = _perm_tolerance(fn, prm, R0)
    nax = BASIS_AXES[fn]
    first = True
    for perm in case["perms"]:
        if fn == "overlap_asym":
            p1, p2 = perm
            gbp = [basis[k].to_gbasis() for k in p1]
            gbp2 = [basis2[k].to_gbasis() for k in p2]
            ips = [index_perm(nfs, p1), index_perm(nfs2, p2)]
            prm_p = prm
        else:
            gbp = [basis[k].to_gbasis() for k in perm]
            gbp2 = None
            ip = index_perm(nfs, perm)
            ips = [ip] * nax
            prm_p = prm
            if fn == "density":
                P = prm["_P"]
                prm_p = dict(prm, _P=[[P[a][b] for b in ip] for a in ip])
        st, Rp = call_impl(_impl, fn, gbp, prm_p, gbp2)
        if st != "ok":
            out["detail"] = {"kind": "rejected", "impl": Rp, "perm": perm}
            return out
        Rp = np.asarray(Rp)
        expect = take_axes(R0, ips) if nax else R0
        tolp = take_axes(tol, ips) if isinstance(tol, np.ndarray) else tol
        d = worst_diff(Rp, expect, tolp)
        if d is not None:
            if fn == "eri":
                d = _eri_annotate(d, R0, prm, nfs, ip, False)
            out["detail"] = dict(d, kind=d.get("kind", "permutation"), perm=perm,
                                 note="a = array of the permuted basis, b = index-permuted array of the original basis")
            return out
        d = _symmetry_detail(fn, prm_p, Rp)
        if d is not None:
            if fn == "eri":
                d = _eri_annotate(d, R0, prm, nfs, ip, True)
            out["detail"] = dict(d, perm=perm, where="permuted order")
            return out
        if case.get("model") and first and model is not None:
            # the permuted basis against the exact model of the permuted basis
            if fn == "overlap_asym":
                d = _model_compare(model, fn, [basis[k] for k in perm[0]], prm_p, Rp, [basis2[k] for k in perm[1]])
            else:
                d = _model_compare(model, fn, [basis[k] for k in perm], prm_p, Rp)
            if d is not None:
                out["detail"] = dict(d, perm=perm, where="permuted order")
                return out
            first = False
    if case.get("model") and model is not None:
        d = _model_compare(model, fn, basis, prm, R0, basis2)
        out["stats"]["perm:model-compared"] = 1
        if d is not None:
            out["detail"] = dict(d, where="original order")
    return out


# ------------------------------------------------------------------------------------------------
# both orientations of a shell pair
# ------------------------------------------------------------------------------------------------
def _block(op, ga, gb, prm):
    if op == "overlap":
        from gbasis.integrals.overlap import Overlap
        return Overlap.construct_array_contraction(ga, gb)
    if op == "kinetic":
        from gbasis.integrals.kinetic_energy import KineticEnergyIntegral
        return KineticEnergyIntegral.construct_array_contraction(ga, gb)
    if op == "moment":
        from gbasis.integrals.moment import Moment
        return Moment.construct_array_contraction(ga, gb, np.array([float(Fraction(x)) for x in prm["origin"]]),
                                                  np.array(prm["orders"]))
    if op == "momentum":
        from gbasis.integrals.momentum import MomentumIntegral
        return MomentumIntegral.construct_array_contraction(ga, gb)
    if op == "angmom":
        from gbasis.integrals.angular_momentum import AngularMomentumIntegral
        return AngularMomentumIntegral.construct_array_contraction(ga, gb)
    if op == "pointcharge":
        from gbasis.integrals.point_charge import PointChargeIntegral
        p = [[Fraction(x) for x in q] for q in prm["pts"]]
        pc = np.array([[float(x) for x in q[:3]] for q in p])
        pq = np.array([float(q[3]) for q in p])
        return PointChargeIntegral.construct_array_contraction(ga, gb, pc, pq)
    raise ValueError(op)


def _block_cmd(op, sa, sb, prm):
    if op == "overlap":
        return "(1 %s %s)" % (sa.sx(), sb.sx())
    if op == "kinetic":
        return "(6 %s %s)" % (sa.sx(), sb.sx())
    if op == "moment":
        return "(8 %s %s %s %s)" % (sx(fr_list(prm["origin"])), sx(prm["orders"]), sa.sx(), sb.sx())
    if op == "momentum":
        return "(10 %s %s)" % (sa.sx(), sb.sx())
    if op == "angmom":
        return "(12 %s %s)" % (sa.sx(), sb.sx())
    if op == "pointcharge":
        return "(14 %s %s %s)" % (sx([[Fraction(x) for x in q] for q in prm["pts"]]), sa.sx(), sb.sx())
    raise ValueError(op)


def _amax(A):
    A = np.asarray(A)
    return float(np.abs(A).max()) if A.size else 0.0


def _orient_scale(op, sa, sb, ga, gb, prm, Xab):
    """natural scale of the block: sqrt(X_aa X_bb) per trailing component; momentum type from
    |<a|p|b>| <= sqrt(2 T_aa S_bb), angular momentum additionally times the extent |r|"""
    if op in ("overlap", "kinetic"):
        return math.sqrt(_amax(_block(op, ga, ga, prm)) * _amax(_block(op, gb, gb, prm)))
    if op in ("moment", "pointcharge"):
        Xaa = np.abs(_block(op, ga, ga, prm)).max(axis=(0, 1, 2, 3))
        Xbb = np.abs(_block(op, gb, gb, prm)).max(axis=(0, 1, 2, 3))
        sc = np.sqrt(Xaa * Xbb)
        if op == "moment":   # odd moments of a shell about its own centre vanish: never below the block itself
            sc = np.maximum(sc, np.abs(Xab).max(axis=(0, 1, 2, 3)))
        return sc
    Saa, Sbb = _amax(_block("overlap", ga, ga, prm)), _amax(_block("overlap", gb, gb, prm))
    Taa, Tbb = _amax(_block("kinetic", ga, ga, prm)), _amax(_block("kinetic", gb, gb, prm))
    psc = max(math.sqrt(2 * Taa * Sbb), math.sqrt(2 * Saa * Tbb))
    if op == "momentum":
        return psc
    ext = max(abs(float(x)) for x in sa.coord + sb.coord) + 1.0 / math.sqrt(float(min(sa.exps + sb.exps)))
    return psc * (1.0 + ext)


def eval_orient(model, case):
    op = case["op"]
    prm = case.get("prm") or {}
    sa, sb = XShell.from_json(case["a"]), XShell.from_json(case["b"])
    ga, gb = sa.to_gbasis(), sb.to_gbasis()
    tag = "orient %s" % op
    st, Xab = call_impl(_block, op, ga, gb, prm)
    st2, Xba = call_impl(_block, op, gb, ga, prm)
    if st != "ok" or st2 != "ok":
        return {"detail": {"kind": "rejected", "impl": Xab if st != "ok" else Xba}, "tag": tag}
    Xab, Xba = np.asarray(Xab), np.asarray(Xba)
    back = np.transpose(Xba, (2, 3, 0, 1) + tuple(range(4, Xba.ndim)))
    if op in ("momentum", "angmom"):
        back = np.conj(back)        # Hermitian: <a|O|b> = conj(<b|O|a>)
    with np.errstate(all="ignore"):
        scale = _orient_scale(op, sa, sb, ga, gb, prm, Xab)
    rel = 1e-9 if op == "pointcharge" else 1e-10
    tol = rel * np.maximum(scale, 1e-300)
    if isinstance(tol, np.ndarray):
        tol = np.broadcast_to(tol, Xab.shape).copy()
    nontriv = bool(np.any(Xab != 0)) and (sa.l + sb.l > 0)
    out = {"nontrivial": nontriv, "tag": tag, "detail": None,
           "stats": {"orient:swap-path(la<lb)" if sa.l < sb.l else "orient:noswap-path": 1,
                     "orient:l=%d,%d" % (sa.l, sb.l): 1,
                     "orient:exponent-ratio>=1e3": int(float(max(sa.exps + sb.exps) / min(sa.exps + sb.exps)) >= 1e3)}}
    d = worst_diff(Xab, back, tol)
    exact = None
    if d is not None or case.get("model"):
        if model is not None:
            exact = (model_array(model.call(_block_cmd(op, sa, sb, prm))),
                     model_array(model.call(_block_cmd(op, sb, sa, prm))))
            out["stats"]["orient:model-compared"] = 1
    if d is not None:
        d = dict(d, kind="orientation", op=op,
                 note="a = block(s1, s2), b = block(s2, s1) transposed back" +
                      (" and conjugated" if op in ("momentum", "angmom") else ""))
        if exact is not None:
            i = tuple(d["index"])
            d["exact"] = repr(float(exact[0][i]))
        out["detail"] = d
        return out
    if exact is not None:
        mtol = 100 * tol       # 1e-8 (1e-7 point charge) of the natural scale
        for which, impl, ex in (("(s1, s2)", Xab, exact[0]), ("(s2, s1)", Xba, exact[1])):
            R = _real_view(op, impl)
            t = mtol if which == "(s1, s2)" else (np.transpose(mtol, (2, 3, 0, 1) + tuple(range(4, mtol.ndim)))
                                                   if isinstance(mtol, np.ndarray) else mtol)
            dm = worst_diff(R, ex, t)
            if dm is not None:
                out["detail"] = dict(dm, kind="model", op=op, orientation=which,
                                     note="a = implementation, b = exact model")
                return out
    return out


# ------------------------------------------------------------------------------------------------
# ERI quartets in eight orientations
# ------------------------------------------------------------------------------------------------
def eri_amp(shells, orient):
    """Estimated amplification of rounding noise in the call ERI(s[o0], s[o1] | s[o2], s[o3]) (a b|c d), from the
    INPUT only (worst primitive quartet).  With p = alpha_a + alpha_b, q = alpha_c + alpha_d, P, Q the product
    centres, L_p = max(|P-A|, p^-1/2), L_q = max(|Q-C|, q^-1/2):
      * electron transfer (_two_elec_int.py:431-526): each of the l_c + l_d steps forms
        (QC + (p/q) PA) [a|c] - (p/q) [a+1|c] + ...; the terms are (p/q) L_p times [a|c], the result only L_q
        times it: factor max(1, (p/q) L_p / L_q) per step (= sqrt(p/q) for a tight bra pair on one centre and a
        diffuse ket pair on one centre; far larger when the FIRST bra shell is diffuse and far from P);
      * horizontal recursions [a, b+1| = [a+1, b| + AB [a, b|: factor max(1, |AB| / max(|PB|, p^-1/2)) per unit
        of l_b, likewise |CD| / max(|QD|, q^-1/2) per unit of l_d."""
    a, b, c, d = (shells[i] for i in orient)
    A, B, C, D = (np.array([float(x) for x in s.coord]) for s in (a, b, c, d))
    nAB, nCD = float(np.linalg.norm(A - B)), float(np.linalg.norm(C - D))
    worst = 1.0
    for ea in a.exps:
        for eb in b.exps:
            p = float(ea + eb)
            P = (float(ea) * A + float(eb) * B) / p
            Lp = max(float(np.linalg.norm(P - A)), p ** -0.5)
            hb = max(1.0, nAB / max(float(np.linalg.norm(P - B)), p ** -0.5)) ** b.l
            for ec in c.exps:
                for ed in d.exps:
                    q = float(ec + ed)
                    Q = (float(ec) * C + float(ed) * D) / q
                    Lq = max(float(np.linalg.norm(Q - C)), q ** -0.5)
                    et = max(1.0, (p / q) * Lp / Lq) ** (c.l + d.l)
                    hk = max(1.0, nCD / max(float(np.linalg.norm(Q - D)), q ** -0.5)) ** d.l
                    worst = max(worst, et * hb * hk)
    return worst


def _eri_block(gs):
    from gbasis.integrals.electron_repulsion import ElectronRepulsionIntegral
    return ElectronRepulsionIntegral.construct_array_contraction(*gs)


def _back_axes(orient):
    inv = [orient.index(j) for j in range(4)]
    ax = []
    for j in range(4):
        ax += [2 * inv[j], 2 * inv[j] + 1]
    return tuple(ax)


def _pair_diag(g1, g2):
    blk = np.asarray(_eri_block([g1, g2, g1, g2]))
    return np.sqrt(np.abs(np.einsum("ijklijkl->ijkl", blk)))


def eval_eri8(model, case):
    shells = [XShell.from_json(s) for s in case["shells"]]
    gs = [s.to_gbasis() for s in shells]
    tag = "eri8 %s" % case.get("family", "regular")
    Z = []
    for o in ERI_ORIENTS:
        st, Y = call_impl(_eri_block, [gs[i] for i in o])
        if st != "ok":
            return {"detail": {"kind": "rejected", "impl": Y, "orient": list(o)}, "tag": tag}
        Y = np.asarray(Y)
        want = tuple(x for i in o for x in (len(shells[i].coeffs[0]), (shells[i].l + 1) * (shells[i].l + 2) // 2))
        if Y.shape != want:
            return {"detail": {"kind": "shape", "orient": list(o), "impl_shape": list(Y.shape),
                               "expected_shape": list(want)}, "tag": tag, "nontrivial": True}
        Z.append(np.transpose(Y, _back_axes(o)))
    with np.errstate(all="ignore"):
        d12, d34 = _pair_diag(gs[0], gs[1]), _pair_diag(gs[2], gs[3])
    sc = d12[:, :, :, :, None, None, None, None] * d34[None, None, None, None]
    scmax = float(sc.max()) if sc.size else 0.0
    # 1e-6 of the Schwarz scale (as in C04) + a rounding-level floor relative to the largest element of the block
    # + an absolute floor (blocks below 1e-24 are underflow territory: exp(-mu R^2) of far-apart tight shells)
    tol = 1e-6 * sc + 1e-14 * scmax + 1e-24
    amps = [eri_amp(shells, o) for o in ERI_ORIENTS]
    stats = {"eri8:orientations": 8, "eri8:L=%d" % sum(s.l for s in shells): 1,
             "eri8:some-orientation-amp>=1e6": int(max(amps) >= 1e6)}
    ref, refname = None, None
    kmin = min(range(8), key=lambda t: (amps[t], t))
    if model is not None and (case.get("model") or 1e4 * EPS * amps[kmin] > 1e-7):
        # asked for, or no orientation is well conditioned: arbitrate with the exact model
        ref = model_array(model.call("(20 %s)" % " ".join(s.sx() for s in shells)))
        refname = "exact model"
        stats["eri8:model-compared"] = 1
    else:
        ref, refname = Z[kmin], "orientation %s (best conditioned, amp %.3g)" % (ERI_ORIENTS[kmin], amps[kmin])
    bad = []
    for o, z, amp in zip(ERI_ORIENTS, Z, amps):
        if not np.all(np.isfinite(z)):
            bad.append({"orient": list(o), "dev_schwarz": float("inf"), "dev_block": float("inf"), "amp": amp})
            continue
        diff = np.abs(z - ref)
        ratio = diff / tol
        i = np.unravel_index(int(np.argmax(ratio)), ratio.shape)
        if ratio[i] > 1.0:
            bad.append({"orient": list(o), "dev_schwarz": float(ratio[i] * 1e-6),
                        "dev_block": float(diff.max() / max(scmax, 1e-300)), "amp": amp,
                        "index": [int(x) for x in i], "value": repr(float(z[i])), "reference": repr(float(ref[i])),
                        "schwarz": float(sc[i]), "schwarz_max": scmax})
    nontriv = bool(np.any(Z[0] != 0)) and any(s.l > 0 for s in shells)
    out = {"nontrivial": nontriv, "tag": tag, "stats": stats, "detail": None}
    if bad:
        stats["eri8:asymmetric"] = 1
        out["detail"] = {"kind": "orientation-eri", "reference": refname, "bad": bad,
                         "note": "dev_schwarz = |value - reference| / elementwise Schwarz scale (tolerance 1e-6); "
                                 "dev_block = max|value - reference| / largest Schwarz product of the block; amp = "
                                 "eri_amp(input, orientation), the estimated noise amplification of that call"}
    return out


def eval_case(model, case):
    kind = case["kind"]
    if kind == "perm":
        return eval_perm(model, case)
    if kind == "orient":
        return eval_orient(model, case)
    if kind == "eri8":
        return eval_eri8(model, case)
    raise ValueError(kind)


# ------------------------------------------------------------------------------------------------
# known finding
# ------------------------------------------------------------------------------------------------
_KF = None


def _known_entry():
    global _KF
    if _KF is None:
        _KF = {}
        for e in lib.load_known_findings():
            if isinstance(e, dict) and e.get("id") == KNOWN_ID:
                _KF = e
    return _KF


def known(case, detail):
    """Narrow predicate on the INPUT quartet (eri_amp is recomputed here from the case, not taken from the
    detail): the call (so0 so1|so2 so3) may deviate from the reference (exact model / best-conditioned
    orientation) by at most C * 2^-53 * eri_amp(input, orientation) times the largest Schwarz product of the
    block, C = predicate_constant of the KNOWN_FINDINGS entry (1e4; measured: <= 263 over 436 deviating calls of
    2200 random quartets).  Only calls with eri_amp >= 9e5 can therefore exceed the 1e-6 tolerance and stay
    'known': a tight bra pair with a diffuse high-l ket pair, or a bra pair whose first shell is diffuse and far
    from a tight partner.  EVERY deviating orientation of the case must qualify, otherwise it is a violation;
    without the entry in KNOWN_FINDINGS.json nothing is suppressed.  For electron_repulsion_integral on a permuted
    basis the same bound is applied to the shell quartet of the deviating element (worst of its 8 orientations)."""
    ent = _known_entry()
    if not ent:
        return None
    C = float(ent.get("predicate_constant", 1e4))
    text = "%s: %s" % (KNOWN_ID, ent.get("text", ""))
    if case.get("kind") == "eri8" and detail.get("kind") == "orientation-eri":
        shells = [XShell.from_json(s) for s in case["shells"]]
        for b in detail["bad"]:
            amp = eri_amp(shells, tuple(b["orient"]))
            if not (b["dev_block"] <= C * EPS * amp):
                return None
        return text
    if case.get("kind") == "perm" and case.get("fn") == "eri" and detail.get("kind") in ("permutation", "not-eightfold") \
            and "quartet" in detail:
        # the assembled array: the code evaluates ONE orientation of every shell quartet, which one depends on the
        # order of the shells; the element may differ by what the worst orientation of that quartet can lose
        basis = [XShell.from_json(s) for s in case["basis"]]
        q4 = [basis[k] for k in detail["quartet"]]
        amp = max(eri_amp(q4, o) for o in ERI_ORIENTS)
        if detail["abs_diff"] <= C * EPS * amp * detail["schwarz_block_max"]:
            return text
    return None


# ------------------------------------------------------------------------------------------------
# generators
# ------------------------------------------------------------------------------------------------
def gen_perm_basis(rng, n, lmax=3, kmax=3, mmax=3, exp_lo=0.05, exp_hi=None, nf_cap=40, lset=None, tmode=None):
    """n shells on 1-3 centres with at least two different l, two different segment counts and (n >= 2) both
    coordinate types whenever the draw allows; total number of functions <= nf_cap"""
    for _ in range(200):
        ncent = rng.randint(1, min(3, n))
        cents = [[Fraction(rng.randint(-24, 24), 16) for _ in range(3)] for _ in range(ncent)]
        ls = lset or [rng.randint(0, lmax) for _ in range(n)]
        if not lset and len(set(ls)) < 2:
            continue
        ms = [rng.randint(1, mmax) for _ in range(n)]
        if mmax > 1 and len(set(ms)) < 2:
            ms[rng.randrange(n)] = 1 + ms[0] % mmax
        # coordinate types: mostly mixed (construct_array_mix), but the all-Cartesian and all-spherical dispatch
        # targets (construct_array_cartesian / construct_array_spherical) are separate code and must be reached too
        mode = rng.random()
        if tmode == "cart" or (tmode is None and mode < 0.2):
            types = [False] * n
        elif tmode == "sph" or (tmode is None and mode < 0.4):
            types = [True] * n
        else:
            types = [rng.random() < 0.5 for _ in range(n)]
            if len(set(types)) < 2:
                types[rng.randrange(n)] = not types[0]
        shells = []
        for i in range(n):
            s = gen_shell(rng, l=ls[i], kmax=kmax, mmax=1, sph=types[i], exp_lo=exp_lo, exp_hi=exp_hi,
                          coord=list(cents[i % ncent]))
            m = ms[i]
            s.coeffs = [[Fraction(rng.choice([-2, -1, 1, 2, 3]), 2 ** rng.randint(0, 2)) for _ in range(m)]
                        for _ in s.exps]
            shells.append(s)
        if sum(s.nfun() for s in shells) <= nf_cap:
            return shells
    raise RuntimeError("gen_perm_basis: no basis within the size cap")


def perms_of(rng, n, nsample=14):
    allp = [list(p) for p in itertools.permutations(range(n))][1:]
    if n <= 4:
        return allp
    pick = [list(range(n - 1, -1, -1)), list(range(1, n)) + [0], [1, 0] + list(range(2, n))]
    while len(pick) < nsample:
        p = list(range(n))
        rng.shuffle(p)
        if p != list(range(n)) and p not in pick:
            pick.append(p)
    return pick


def gen_points(rng, shells, n):
    pts = []
    for _ in range(n):
        c = rng.choice(shells).coord
        pts.append([str(x + Fraction(rng.randint(-24, 24), 16)) for x in c])
    return pts


def gen_charges(rng, shells, n):
    return twoindex_place(rng, [s.coord for s in shells], n)


def twoindex_place(rng, centres, n):
    pts = []
    for _ in range(n):
        c = rng.choice(centres)
        mode = rng.random()
        if mode < 0.3:
            pos = list(c)
        elif mode < 0.8:
            pos = [x + Fraction(rng.randint(-24, 24), 16) for x in c]
        else:
            pos = [x + Fraction(rng.randint(-200, 200), 4) for x in c]
        q = 0
        while q == 0:
            q = Fraction(rng.randint(-40, 40), 4)
        pts.append([str(x) for x in pos] + [str(q)])
    return pts


def chunks(lst, k):
    return [lst[i:i + k] for i in range(0, len(lst), k)]


ORDERS3 = [[1, 0, 0], [0, 1, 1], [2, 0, 1], [0, 0, 0], [0, 3, 0], [1, 1, 1]]


def fn_params(rng, fn, shells):
    if fn == "moment":
        no = rng.randint(1, 3)
        return {"origin": [str(Fraction(rng.randint(-16, 16), 8)) for _ in range(3)],
                "orders": rng.sample(ORDERS3, no)}
    if fn in ("pointcharge", "nuclear"):
        return {"pts": gen_charges(rng, shells, rng.randint(1, 3))}
    if fn == "eri":
        return {"notation": rng.choice(["chemist", "physicist"])}
    if fn == "eval":
        return {"points": gen_points(rng, shells, rng.randint(2, 4))}
    if fn == "deriv":
        return {"points": gen_points(rng, shells, rng.randint(2, 3)),
                "orders": rng.choice([[1, 0, 0], [0, 1, 1], [2, 0, 0], [0, 0, 3], [1, 1, 1], [0, 2, 1]])}
    if fn == "density":
        return {"points": gen_points(rng, shells, rng.randint(2, 4)), "pseed": rng.randint(0, 10 ** 6)}
    return {}


TWO_FNS = ["overlap", "kinetic", "moment", "momentum", "angmom", "pointcharge", "nuclear"]
ONE_FNS = ["eval", "deriv", "density"]


def gen_perm_cases(tier, rng):
    cases = []
    quick = tier == "quick"
    # ---- two-index and one-index functions: every function x every shell count ----
    reps = {2: 1, 3: 1, 4: 1, 5: 1} if quick else {2: 60, 3: 60, 4: 36, 5: 20}
    for n in (2, 3, 4, 5):
        for rep_i in range(reps[n]):
            for fn in TWO_FNS + ONE_FNS:
                heavy = fn in ("pointcharge", "nuclear", "angmom", "moment")
                lmax = 3 if n <= 3 else (2 if heavy else 3)
                cap = 26 if heavy else 34
                shells = gen_perm_basis(rng, n, lmax=lmax, nf_cap=cap,
                                        exp_hi=None if rep_i % 2 == 0 else 40.0,
                                        tmode=["cart", "mix", "sph", "mix"][(n + rep_i) % 4])
                perms = perms_of(rng, n, 12 if quick else 16)
                prm = fn_params(rng, fn, shells)
                per = 24 if fn in ONE_FNS + ["overlap", "kinetic", "momentum"] else (8 if quick else 12)
                small = sum(s.nfun() for s in shells) <= 14 and max(s.l for s in shells) <= 2
                for ci, ch in enumerate(chunks(perms, per)):
                    cases.append({"kind": "perm", "fn": fn, "basis": [s.to_json() for s in shells], "perms": ch,
                                  "prm": prm, "model": bool(ci == 0 and (small or rep_i == 0 and n <= 3))})
    # ---- overlap_asymmetric: two bases permuted independently ----
    for n1, n2 in ([(2, 3), (3, 2)] if quick else
                   8 * [(2, 2), (2, 3), (3, 2), (3, 3), (4, 2), (1, 4), (2, 4), (3, 4), (4, 4), (2, 5)]):
        both = gen_perm_basis(rng, n1 + n2, lmax=3, nf_cap=40)
        b1, b2 = both[:n1], both[n1:]
        ps1 = [list(p) for p in itertools.permutations(range(n1))]
        ps2 = [list(p) for p in itertools.permutations(range(n2))]
        pairs = [[p, q] for p in ps1 for q in ps2][1:]
        if len(pairs) > 40:
            pairs = rng.sample(pairs, 40)
        cases.append({"kind": "perm", "fn": "overlap_asym", "basis": [s.to_json() for s in b1],
                      "basis2": [s.to_json() for s in b2], "perms": pairs, "prm": {}, "model": True})
    # ---- ERI: small bases (cost), moderate exponents (the known orientation defect is the subject of eri8) ----
    eri_specs = [(2, [0, 1], 2), (3, [0, 1, 1], 2), (3, [0, 1, 2], 1), (4, [0, 0, 1, 1], 1)] if quick else \
        [(2, [0, 1], 2), (2, [1, 2], 2), (2, [0, 2], 3), (3, [0, 1, 1], 2), (3, [0, 1, 2], 2), (3, [1, 1, 2], 1),
         (3, [0, 0, 3], 1), (4, [0, 0, 1, 1], 2), (4, [0, 1, 1, 2], 1), (5, [0, 0, 0, 1, 1], 1)]
    if not quick:
        eri_specs = 8 * eri_specs + 3 * [(3, [0, 2, 2], 1), (4, [0, 1, 2, 2], 1), (4, [0, 0, 1, 3], 1), (5, [0, 0, 1, 1, 2], 1)]
    for n, ls, mmax in eri_specs:
        wide = max(ls) < 3
        shells = gen_perm_basis(rng, n, lset=ls, kmax=2, mmax=mmax, exp_lo=0.1 if wide else 0.2,
                                exp_hi=30.0 if wide else 20.0, nf_cap=22 if not quick else 16)
        perms = perms_of(rng, n, 8)
        if n == 4 and quick:
            perms = rng.sample(perms, 9)
        prm = fn_params(rng, "eri", shells)
        tiny = max(ls) <= 1 and sum(s.nfun() for s in shells) <= 8
        for ci, ch in enumerate(chunks(perms, 2 if max(ls) >= 2 else 4)):
            cases.append({"kind": "perm", "fn": "eri", "basis": [s.to_json() for s in shells], "perms": ch,
                          "prm": prm, "model": bool(tiny and ci == 0)})
    return cases


def gen_orient_cases(tier, rng):
    cases = []
    quick = tier == "quick"
    ops = ["overlap", "kinetic", "moment", "momentum", "angmom", "pointcharge"]
    reps = 1 if quick else 48
    for rep_i in range(reps):
        for la, lb in itertools.product(range(4), range(4)):
            for op in ops:
                if quick and op in ("overlap", "moment") and (la + lb) % 2 == 1:
                    continue
                mode = rng.random()
                if mode < 0.35:       # tight x diffuse (either side tight)
                    ta = rng.random() < 0.5
                    rng_a = (50.0, max(100.0, lib.exp_cap(la))) if ta else (0.02, 0.5)
                    rng_b = (0.02, 0.5) if ta else (50.0, max(100.0, lib.exp_cap(lb)))
                    sa = gen_shell(rng, l=la, kmax=2, mmax=2, sph=False, exp_lo=rng_a[0], exp_hi=rng_a[1])
                    sb = gen_shell(rng, l=lb, kmax=2, mmax=2, sph=False, exp_lo=rng_b[0], exp_hi=rng_b[1])
                else:
                    sa = gen_shell(rng, l=la, kmax=3, mmax=3, sph=False)
                    sb = gen_shell(rng, l=lb, kmax=3, mmax=3, sph=False)
                r = rng.random()
                if r < 0.3:
                    sb.coord = list(sa.coord)
                elif r < 0.4:
                    sb.coord = [sa.coord[0], sa.coord[1], sb.coord[2]]
                prm = {}
                if op == "moment":
                    prm = fn_params(rng, "moment", [sa, sb])
                if op == "pointcharge":
                    prm = {"pts": twoindex_place(rng, [sa.coord, sb.coord], rng.randint(1, 3))}
                cases.append({"kind": "orient", "op": op, "a": sa.to_json(), "b": sb.to_json(), "prm": prm,
                              "model": bool(rep_i < 8 and (la + lb) <= 4 and rng.random() < (0.35 if quick else 0.6))})
    return cases


def tight_diffuse_quartet(rng, lt, ld, same_centre):
    ct = [Fraction(rng.randint(-16, 16), 16) for _ in range(3)]
    cd = list(ct) if same_centre else [Fraction(rng.randint(-32, 32), 16) for _ in range(3)]
    t1 = gen_shell(rng, l=lt[0], kmax=1, mmax=1, sph=False, exp_lo=200.0, exp_hi=1e5, coord=list(ct))
    t2 = gen_shell(rng, l=lt[1], kmax=1, mmax=1, sph=False, exp_lo=200.0, exp_hi=1e5, coord=list(ct))
    d1 = gen_shell(rng, l=ld[0], kmax=1, mmax=1, sph=False, exp_lo=0.02, exp_hi=0.3, coord=list(cd))
    d2 = gen_shell(rng, l=ld[1], kmax=1, mmax=1, sph=False, exp_lo=0.02, exp_hi=0.3, coord=list(cd))
    return [t1, t2, d1, d2]


def gen_eri8_cases(tier, rng):
    cases = []
    quick = tier == "quick"
    # regular quartets: every l pattern with total L <= 4 (quick) / <= 6 (thorough, capped per shell at 3)
    pats = [p for p in itertools.product(range(3 if quick else 4), repeat=4)
            if sum(p) <= (4 if quick else 6) and sum(p) > 0]
    if quick:
        pats = rng.sample(pats, 22)
    else:
        pats = 6 * pats                          # every l pattern with total L <= 6, six times
    for p in pats:
        L = sum(p)
        shells = [gen_shell(rng, l=l, kmax=2 if L <= 4 else 1, mmax=2 if L <= 3 else 1, sph=False,
                            exp_lo=0.08, exp_hi=40.0) for l in p]
        r = rng.random()
        if r < 0.3:
            shells[1].coord = list(shells[0].coord)
            shells[3].coord = list(shells[2].coord)
        elif r < 0.4:
            for s in shells[1:]:
                s.coord = list(shells[0].coord)
        cheap = L <= 3 and all(len(s.exps) == 1 for s in shells)
        cases.append({"kind": "eri8", "family": "regular", "shells": [s.to_json() for s in shells],
                      "model": bool(cheap or (L <= 4 and rng.random() < 0.25))})
    # tight core s/p pair x diffuse p/d/f pair (the pattern of a heavy atom next to a diffuse-augmented one)
    specs = [((0, 0), (1, 1)), ((0, 0), (2, 2)), ((0, 0), (2, 3)), ((0, 1), (2, 2)), ((0, 0), (3, 3)),
             ((1, 1), (2, 2)), ((0, 0), (0, 2)), ((0, 1), (1, 3))]
    nrep = 1 if quick else 40
    for rep_i in range(nrep):
        for lt, ld in specs:
            if quick and sum(lt) + sum(ld) > 6:
                continue
            shells = tight_diffuse_quartet(rng, lt, ld, same_centre=rng.random() < 0.4)
            order = rng.choice([[0, 1, 2, 3], [2, 3, 0, 1], [0, 2, 1, 3]])   # tight|diffuse, diffuse|tight, mixed pairs
            shells = [shells[i] for i in order]
            cases.append({"kind": "eri8", "family": "tight-diffuse", "shells": [s.to_json() for s in shells],
                          "model": bool(sum(lt) + sum(ld) <= 5 or rep_i == 0 and sum(lt) + sum(ld) <= 6)})
    return cases


def even_tempered(rng, k):
    """k exponents alpha_0 r^t (alpha_0 0.06..0.2, r 2.2..2.8: 0.1 .. ~200 for k = 9), listed tight -> diffuse, doubles"""
    a0, r = rng.uniform(0.06, 0.2), rng.uniform(2.2, 2.8)
    return [Fraction(float(a0 * r ** t)) for t in range(k)][::-1]


def gen_special_cases(tier, rng):
    """Two input classes the random streams never reach (own PRNG, appended after the older streams):
    near-pair-far   eri8 quartets with two shells (l >= 1, exponents 4..10) on DISTINCT centres A, B that agree per
                    component to within 1e-5 RELATIVE to the coordinate (lib.far_near_centres: 3e-4..1e-3 bohr apart, 50-100
                    bohr per axis from the origin) against two s shells on ONE neighbour centre with smaller exponents
                    (1..4): every orientation estimate ties, so the implementation evaluates each of the eight given
                    orientations as given - (AB| as the bra in four of them, as the ket in the other four; reference = exact model
                    (L <= 3, K = 1);
    many-primitives every shell with 9 (thorough: also 10) primitives, 9^4 = 6561 primitive quartets (published s / p shells of
                    cc-pVXZ / ANO sets: 8-13), ONE even-tempered exponent list shared by the shells of an atom (general
                    contraction) with different coefficient columns: one-centre quartets (s p|s' p'), (p p'|s s'), where all
                    orientation estimates tie and each of the four shells is the fourth shell of some evaluated call;
                    implementation only (best-conditioned orientation as reference), plus the whole-basis function on [s, p]
                    in both shell orders."""
    quick = tier == "quick"
    cases = []
    pats = [((1, "A"), (1, "B"), (0, "C"), (0, "C")), ((0, "C"), (0, "C"), (2, "A"), (1, "B")),
            ((1, "B"), (2, "A"), (0, "C"), (0, "C")), ((0, "C"), (0, "C"), (1, "B"), (1, "A")),
            ((2, "A"), (2, "B"), (0, "C"), (0, "C"))]
    for i in range(3 if quick else 20):
        A, B, C = lib.far_near_centres(rng)
        at = {"A": A, "B": B, "C": C}
        shells = [gen_shell(rng, l=l, kmax=1, mmax=1, sph=False, exp_lo=4.0 if w in "AB" else 1.0,
                            exp_hi=10.0 if w in "AB" else 4.0, coord=at[w]) for l, w in pats[i % len(pats)]]
        cases.append({"kind": "eri8", "family": "near-pair-far", "shells": [x.to_json() for x in shells],
                      "model": bool(sum(x.l for x in shells) <= 3)})
    for i in range(1 if quick else 4):
        k = 9 if i % 2 == 0 else 10
        c = [Fraction(rng.randint(-16, 16), 16) for _ in range(3)]
        exps = even_tempered(rng, k)
        ls = [(0, 1, 0, 1), (1, 1, 0, 0), (0, 1, 1, 0), (1, 0, 1, 0)][i % 4]
        shells = [XShell(l, c, exps, [[Fraction(rng.choice([-1, 1]) * rng.randint(1, 16), 8)] for _ in range(k)])
                  for l in ls]
        cases.append({"kind": "eri8", "family": "many-primitives", "shells": [x.to_json() for x in shells], "model": False})
        if i == 0:
            cases.append({"kind": "perm", "fn": "eri", "basis": [shells[0].to_json(), shells[1].to_json()], "perms": [[1, 0]],
                          "prm": {"notation": "chemist"}, "model": False})
    return cases


def gen_cases(tier, seed):
    rng = random.Random(1000003 * seed + 1111)
    return gen_perm_cases(tier, rng) + gen_orient_cases(tier, rng) + gen_eri8_cases(tier, rng) \
        + gen_special_cases(tier, random.Random(1000003 * seed + 111111))


# ------------------------------------------------------------------------------------------------
# shrinking
# ------------------------------------------------------------------------------------------------
def _drop_shell(perm, i):
    return [k - (1 if k > i else 0) for k in perm if k != i]


def shrink_case(case):
    kind = case["kind"]
    if kind == "orient":
        for key in ("a", "b"):
            for t in shrink_shell_json(case[key]):
                c = dict(case)
                c[key] = t
                yield c
        prm = case.get("prm") or {}
        for key in ("pts", "orders"):
            if len(prm.get(key, [])) > 1:
                for i in range(len(prm[key])):
                    c = dict(case)
                    c["prm"] = dict(prm)
                    c["prm"][key] = prm[key][:i] + prm[key][i + 1:]
                    yield c
        return
    if kind == "eri8":
        for i, sj in enumerate(case["shells"]):
            for t in shrink_shell_json(sj):
                c = dict(case)
                c["shells"] = case["shells"][:i] + [t] + case["shells"][i + 1:]
                yield c
        return
    # perm
    if len(case["perms"]) > 1:
        for p in case["perms"]:
            c = dict(case)
            c["perms"] = [p]
            yield c
    if case["fn"] == "overlap_asym":
        for key, slot in (("basis", 0), ("basis2", 1)):
            lst = case[key]
            if len(lst) > 1:
                for i in range(len(lst)):
                    c = dict(case)
                    c[key] = lst[:i] + lst[i + 1:]
                    c["perms"] = [[_drop_shell(p[0], i), p[1]] if slot == 0 else [p[0], _drop_shell(p[1], i)]
                                  for p in case["perms"]]
                    yield c
            for i, sj in enumerate(lst):
                for t in shrink_shell_json(sj):
                    c = dict(case)
                    c[key] = lst[:i] + [t] + lst[i + 1:]
                    yield c
        return
    lst = case["basis"]
    if len(lst) > 2:
        for i in range(len(lst)):
            ps = [_drop_shell(p, i) for p in case["perms"]]
            ps = [p for p in ps if p != sorted(p)]
            if ps:
                c = dict(case)
                c["basis"] = lst[:i] + lst[i + 1:]
                c["perms"] = ps
                yield c
    for i, sj in enumerate(lst):
        for t in shrink_shell_json(sj):
            c = dict(case)
            c["basis"] = lst[:i] + [t] + lst[i + 1:]
            yield c
    prm = case.get("prm") or {}
    for key in ("points", "pts", "orders"):
        v = prm.get(key)
        if isinstance(v, list) and v and isinstance(v[0], list) and len(v) > 1:
            for i in range(len(v)):
                c = dict(case)
                c["prm"] = dict(prm)
                c["prm"][key] = v[:i] + v[i + 1:]
                yield c


# ------------------------------------------------------------------------------------------------
def run(rep, tier, seed, model, replay):
    cases = [replay["case"]] if replay is not None else gen_cases(tier, seed)
    # long cases first: better load balance over the worker pool
    def weight(c):
        if c["kind"] == "perm":
            w = len(c["perms"]) * (50 if c["fn"] == "eri" else 1)
            return w * (1 + sum(s["l"] for s in c["basis"]))
        if c["kind"] == "eri8":
            return 30 * (1 + sum(s["l"] for s in c["shells"])) ** 2
        return 1
    cases.sort(key=weight, reverse=True)
    run_cases(rep, cases, eval_case, shrinkfn=shrink_case, known=known)


def xcheck_cmds(seed):
    """small commands re-evaluated inside Coq with vm_compute (extraction + driver glue): an overlap matrix of a
    two-shell basis in both shell orders, and the momentum blocks of a pair in both orientations"""
    rng = random.Random(1177 + seed)
    sa = gen_shell(rng, l=0, kmax=1, mmax=2, sph=False, bits=3)
    sb = gen_shell(rng, l=1, kmax=1, mmax=1, sph=False, bits=3)
    return ["(2 (%s %s) ())" % (sa.sx(), sb.sx()), "(2 (%s %s) ())" % (sb.sx(), sa.sx()),
            "(10 %s %s)" % (sa.sx(), sb.sx()), "(10 %s %s)" % (sb.sx(), sa.sx())]
