"""C05 — basis-function values and arbitrary-order derivatives are exact.

Correspondence: gbasis.evals.eval.evaluate_basis and gbasis.evals.eval_deriv.evaluate_deriv_basis of the
working tree against the exact Coq model coq/Model/Eval.v (runner commands 101-103, extracted OCaml, exact
rationals; one oracle exp per primitive per point).

Verdict rules (the property text decides):
* back-end "general", and back-end "direct" with every order <= 2 (the requests the specialised back-end
  can honour: density.py itself sends it every such triple): the array must have the model's shape and
  every entry must agree with the exact derivative within TOL_REL x (sum of the absolute values of all terms
  that make up the entry), the sum being computed exactly by the model (command 103: every monomial of the
  axis polynomial, every contraction coefficient, every entry of the spherical transform and of the
  user transform replaced by its absolute value).  Because every monomial of every term enters the scale
  with its absolute value, cancellation (nodes of the polynomial factor, of the contraction, of the transform)
  cannot shrink the tolerance below the rounding error of a correct floating-point evaluation.  A second term,
  2^-1060 x (the same sum with every Gaussian factor replaced by 1, command 103 with nog=1), covers Gaussian
  factors that fall into the subnormal range of double precision (absolute error up to 2^-1074 BEFORE the
  factor is multiplied by polynomial, norm and coefficient, which can be 1e20 and more; found by the thorough
  tier at alpha r^2 ~ 727, see DESIGN "Corrections").  A refusal of such a request is a violation, except
  back-end "direct" with total order > 2 (all orders <= 2), where a refusal is accepted as well.
* back-end "direct" with some order > 2, or a back-end name the code does not know: the model answers
  `rejected`.  The implementation passes if it raises (any exception) OR if it returns the exact derivative
  (the request was honoured after all); it fails only if it answers with different numbers.
The model's normalisation shortcut norm_cont_diag is compared with Overlap.norm_cont (command 106) on every run.
A sample of one-axis cases (command 105) is re-evaluated inside Coq with vm_compute and must agree with the
extracted code exactly.
Stream "hp": EvalDeriv.construct_array_contraction with both back-ends, i.e. _eval_deriv_contractions and
_eval_first_second_order_deriv_contractions (+ _first_derivative / _second_derivative) of gbasis/evals/_deriv.py and
norm_prim_cart, replayed in 260-bit arithmetic on object arrays (harness/hpnum.py; scipy's eval_hermite, a float-only
ufunc, is replaced by the three-term recurrence in the same arithmetic) and compared with command 100 at
1e-18 x sum|terms| (command 104, the model's own exact scale): a difference there is a difference of FORMULA."""
import itertools
import os
import random
import subprocess
from fractions import Fraction

import numpy as np

import lib
from lib import XShell, call_impl, compare, gen_shell, run_cases, shrink_shell_json, sx

TOL_REL = 1e-9
SUBNORMAL = 2.0 ** -1060
BACKENDS = {"general": 0, "direct": 1}

RULE = ("all 125 order triples (each order 0..4) x both back-ends enumerated on every run (thorough: several "
        "times with different shells), angular momentum cycling 0..6, 1-4 shells, K 1-4 primitives, M 1-3 segments, "
        "Cartesian / spherical / mixed, with and without a random rectangular transform (entries k/4); centres k/16, "
        "exponents log-uniform 0.02..cap(l) with 8-bit mantissas, coefficients k/8; 1-50 points = offsets m/2^j from a "
        "centre, always including a point exactly on a centre, one on an axis through it and one on a coordinate "
        "plane through it; evaluate_basis cases for every l 0..6 in both coordinate types; 8 (quick) / 80 (thorough) tight "
        "shells (exponent within a factor 4 of the cap for l) centred 30-150 bohr from the origin, points within "
        "2/sqrt(alpha) of the centre; unknown back-end names. "
        "A case is non-trivial when the exact result is not identically zero and (l>0 or K>1 or M>1 or total order>0 "
        "or more than one shell); distinct by the hash of the exact input; hp stream: 16 (quick) / 250 (thorough) "
        "single Cartesian shells l<=3 / l<=5, K<=3, M<=2, 3-4 points, order triples up to 4 (general) / 2 (direct), "
        "replayed at 260 bits against command 100, tolerance 1e-18 x sum|terms| (command 104)")
ASSUMPTIONS = [
    "floating-point rounding of the NumPy pipeline is not modelled: the accuracy clause is decided on the generated "
    "inputs against the exact value, tolerance 1e-9 x sum|terms| + 2^-1060 x sum|terms without Gaussian| (model-computed)",
    "exp values come from mpmath (72-bit dyadic roundings); arguments are produced exactly by the model",
    "scipy.special.eval_hermite times (-sqrt alpha)^k is modelled by the rational three-term recurrence",
    "the n-th derivative of x^l exp(-a x^2) over the reals is tied to the recurrence u in coq/Gauss/DerivBridge.v "
    "(Coquelicot, classical-reals axioms)",
]
EXTRA = {}


# ----------------------------------------------------------------------------------------------
def _basis(case):
    return [XShell.from_json(s) for s in case["basis"]]


def _points(case):
    return [[Fraction(c) for c in p] for p in case["points"]]


def _tsx(t):
    return "()" if t is None else "(" + sx([[Fraction(c) for c in row] for row in t]) + ")"


def _tnp(t):
    return None if t is None else np.array([[float(Fraction(c)) for c in row] for row in t])


def eval_hp(model, case):
    """high-precision replay of EvalDeriv.construct_array_contraction (one Cartesian shell) vs command 100"""
    import hpnum
    s = _basis(case)[0]
    pts = _points(case)
    orders = [int(o) for o in case["orders"]]
    bname = case["backend"]
    tag = "hp %s l=%d total order %d" % (bname, s.l, sum(orders))
    res = model.call("(100 %s %s %s %d)" % (s.sx(), sx(pts), sx(orders), BACKENDS[bname]))
    scale = np.array(model.call("(104 %s %s %s 0)" % (s.sx(), sx(pts), sx(orders))), dtype=object).astype(float)

    def replay():
        from gbasis.evals.eval_deriv import EvalDeriv
        return EvalDeriv.construct_array_contraction(hpnum.hp_shell(s), hpnum.hp_array(pts), np.array(orders),
                                                     deriv_type=bname)
    ok, blk = hpnum.try_replay(replay)
    if not ok:
        return {"detail": blk, "nontrivial": True, "tag": tag}
    d = hpnum.compare_hp(blk, res, scale, floor_rel=0.0)
    if d is not None:
        d["tolerance_rule"] = "1e-18 x sum|terms| (model command 104)"
    return {"detail": d, "tag": tag, "nontrivial": bool(scale.size and scale.max() > hpnum.NONTRIVIAL_SCALE),
            "stats": {"hp_elements": int(np.asarray(blk).size)}}


def gen_hp_cases(tier, seed):
    if os.environ.get("VERIF_NO_HP"):        # timing comparisons only
        return []
    rng = random.Random(7000003 * seed + 55)
    quick = tier == "quick"
    out = []
    n = 16 if quick else 250
    lmax = 3 if quick else 5
    for i in range(n):
        bname = ("general", "direct")[i % 2]
        omax = 4 if bname == "general" else 2
        o = [rng.randint(0, omax) for _ in range(3)]
        if i % 5 == 0:
            o[rng.randrange(3)] = 0
        s = gen_shell(rng, l=(i // 2) % (lmax + 1), kmax=2 if quick else 3, mmax=2, sph=False)
        pts = gen_points(rng, [s], rng.randint(3, 4))
        if i % 4 == 3:
            pts = full_mantissa(rng, [s], pts)
        c = {"kind": "deriv", "hp": 1, "basis": [s.to_json()], "points": pts, "orders": o, "backend": bname,
             "transform": None}
        if i >= n - 2:      # the last two: a tight shell far from the origin (see far_tight_case)
            c = dict(far_tight_case(rng, i % 2, bname, o), hp=1)
        out.append(c)
    return out


def eval_case(model, case):
    if case.get("hp"):
        return eval_hp(model, case)
    from gbasis.evals.eval import evaluate_basis
    from gbasis.evals.eval_deriv import evaluate_deriv_basis

    basis = _basis(case)
    pts = _points(case)
    P = np.array([[float(c) for c in p] for p in pts])
    T = case.get("transform")
    bsx = "(" + " ".join(s.sx() for s in basis) + ")"
    gb = [s.to_gbasis() for s in basis]
    kind = case["kind"]
    types = "".join("s" if s.sph else "c" for s in basis)
    lmax = max(s.l for s in basis)
    rich = (lmax > 0 or len(basis) > 1 or any(len(s.exps) > 1 or len(s.coeffs[0]) > 1 for s in basis))

    if kind == "basis":
        exact = model.call("(102 %s %s %s)" % (bsx, sx(pts), _tsx(T)))
        scale = _scales(model, bsx, pts, [0, 0, 0], T)
        st, impl = call_impl(evaluate_basis, gb, P, _tnp(T))
        tag = "evaluate_basis %s%s" % ("T " if T is not None else "", "lmax=%d" % lmax)
        if st != "ok":
            return {"detail": {"kind": "refused-valid-request", "impl": impl}, "tag": tag, "nontrivial": True}
        d = _cmp(impl, exact, scale)
        return {"detail": d, "tag": tag, "nontrivial": bool(rich and _nonzero(exact))}

    orders = [int(o) for o in case["orders"]]
    bname = case["backend"]
    bcode = BACKENDS.get(bname, 9)
    res = model.call("(101 %s %s %s %s %d)" % (bsx, sx(pts), sx(orders), _tsx(T), bcode))
    kw = {"deriv_type": bname}
    if T is not None:
        kw["transform"] = _tnp(T)
    st, impl = call_impl(evaluate_deriv_basis, gb, P, np.array(orders), **kw)
    total = sum(orders)
    if res == [-3]:
        # the model refuses: direct with an order > 2, or an unknown back-end
        tag = "%s order>2: must refuse" % bname if bname in BACKENDS else "unknown back-end: must refuse"
        if st != "ok":
            return {"detail": None, "tag": tag, "nontrivial": True}
        exact = model.call("(101 %s %s %s %s 0)" % (bsx, sx(pts), sx(orders), _tsx(T)))
        scale = _scales(model, bsx, pts, orders, T)
        d = _cmp(impl, exact, scale)
        if d is not None:
            d["kind"] = "answered-with-different-numbers"
            d["note"] = ("a request the back-end cannot honour was neither refused nor answered with the exact "
                         "derivative; 'model' is the exact derivative")
        return {"detail": d, "tag": tag, "nontrivial": True}
    tag = "%s total order %d%s %s" % (bname, total, " T" if T is not None else "",
                                      "cart" if "s" not in types else ("sph" if "c" not in types else "mixed"))
    if st != "ok":
        if bname == "direct" and total > 2:
            # every order <= 2 but total order > 2: the back-end can honour it (and density.py relies on that),
            # but the property does not forbid a stricter back-end: a refusal is accepted, wrong numbers are not
            return {"detail": None, "tag": "direct total order>2, all<=2: refused (accepted either way)",
                    "nontrivial": True}
        return {"detail": {"kind": "refused-valid-request", "impl": impl}, "tag": tag, "nontrivial": True}
    scale = _scales(model, bsx, pts, orders, T)
    d = _cmp(impl, res, scale)
    return {"detail": d, "tag": tag, "nontrivial": bool((rich or total > 0) and _nonzero(res))}


def _nonzero(nested):
    return any(v != 0 for row in nested for v in row)


def _scales(model, bsx, pts, orders, T):
    """(sum|terms|, sum|terms with the Gaussian factor replaced by 1|), both exact, from the model."""
    a = model.call("(103 %s %s %s %s 0)" % (bsx, sx(pts), sx(orders), _tsx(T)))
    b = model.call("(103 %s %s %s %s 1)" % (bsx, sx(pts), sx(orders), _tsx(T)))
    return (np.array(a, dtype=object), np.array(b, dtype=object))


def _cmp(impl, exact, scale):
    sc, sc1 = scale

    def tol(idx):
        return TOL_REL * float(sc[idx]) + SUBNORMAL * float(sc1[idx])

    d = compare(impl, exact, tol_fn=tol)
    if d is not None and d.get("kind") == "value":
        d["tolerance_rule"] = "1e-9 x sum|terms| + 2^-1060 x sum|terms without Gaussian| (model command 103)"
        d["scale"] = float(sc[tuple(d["index"])])
    return d


# ----------------------------------------------------------------------------------------------
def shrink_case(case):
    basis = case["basis"]
    if case.get("transform") is not None:
        c = dict(case)
        c["transform"] = None
        yield c
    if len(basis) > 1 and case.get("transform") is None:
        for i in range(len(basis)):
            c = dict(case)
            c["basis"] = basis[:i] + basis[i + 1:]
            yield c
    pts = case["points"]
    if len(pts) > 1:
        for i in range(len(pts)):
            c = dict(case)
            c["points"] = [pts[i]]
            yield c
    if case["kind"] == "deriv":
        o = case["orders"]
        for ax in range(3):
            if o[ax] > 0:
                c = dict(case)
                c["orders"] = [o[j] - (1 if j == ax else 0) for j in range(3)]
                yield c
    if case.get("transform") is None:
        for i, sj in enumerate(basis):
            for t in shrink_shell_json(sj):
                c = dict(case)
                c["basis"] = basis[:i] + [t] + basis[i + 1:]
                yield c
    for i, p in enumerate(pts):
        for ax in range(3):
            if p[ax] != "0":
                c = dict(case)
                q = list(p)
                q[ax] = "0"
                c["points"] = pts[:i] + [q] + pts[i + 1:]
                yield c


# ----------------------------------------------------------------------------------------------
def gen_points(rng, basis, n):
    """n points: the first three are on a centre, on an axis through it, on a coordinate plane through it."""
    pts = []

    def offset(s):
        j = rng.choice([1, 2, 2, 3, 3, 4, 5, 6])
        if max(s.exps) > 500:
            j = rng.choice([4, 5, 6, 7, 8])
        return Fraction(rng.choice([-1, 1]) * rng.randint(1, 12), 2 ** j)

    for i in range(n):
        s = rng.choice(basis)
        c = list(s.coord)
        mode = i if i < 3 else rng.choice([3, 3, 3, 3, 0, 1, 2])
        if mode == 0:
            p = c
        elif mode == 1:
            ax = rng.randrange(3)
            p = list(c)
            p[ax] = c[ax] + offset(s)
        elif mode == 2:
            ax = rng.randrange(3)
            p = [c[k] + offset(s) for k in range(3)]
            p[ax] = c[ax]
        else:
            p = [c[k] + offset(s) for k in range(3)]
        pts.append([str(x) for x in p])
    return pts


def gen_transform(rng, basis):
    k = sum(s.nfun() for s in basis)
    rows = rng.randint(1, min(k + 1, 6))
    return [[str(Fraction(rng.randint(-8, 8), 4)) for _ in range(k)] for _ in range(rows)]


def gen_basis(rng, n, l_first, kmax, mmax, lmax_rest, types):
    out = []
    for i in range(n):
        l = l_first if i == 0 else rng.randint(0, lmax_rest)
        sph = {"c": False, "s": True, "m": (i % 2 == 1) if n > 1 else rng.random() < 0.5, "r": rng.random() < 0.5}[types]
        out.append(gen_shell(rng, l=l, kmax=kmax, mmax=mmax, sph=sph))
    return out


def full_mantissa(rng, basis, pts):
    """The minority stream with 53-bit numbers: exponents and point coordinates with full mantissas."""
    for s in basis:
        s.exps = [Fraction(float(e) * (1.0 + rng.random() / 64.0)) for e in s.exps]
    out = []
    for k, p in enumerate(pts):
        if k < 3:
            out.append(p)  # keep the points on a centre / axis / plane exactly there
        else:
            out.append([str(Fraction(float(Fraction(c)) + rng.uniform(-0.25, 0.25))) for c in p])
    return out


def far_tight_case(rng, l, bname, orders, kmax=2):
    """One tight shell (exponents within a factor 4 of the cap of published sets for that l) centred 30-150 bohr
    (per axis) from the coordinate origin, full-mantissa coordinates; points on the centre and within 2/sqrt(alpha)
    of it.  Translation-invariant formulas are insensitive to this; a Gaussian factor computed through absolute
    coordinates (|r|^2 - 2 r.R + |R|^2) loses 6-9 digits here in double precision (and none in the hp replay)."""
    import math
    cap = float(lib.exp_cap(l))
    s = gen_shell(rng, l=l, kmax=kmax, mmax=2, sph=False)
    s.exps = [Fraction(math.exp(rng.uniform(math.log(cap / 4), math.log(cap)))) for _ in s.exps]
    s.coord = [Fraction(rng.choice([-1, 1]) * rng.uniform(30, 150)) for _ in range(3)]
    w = 2.0 / float(min(s.exps)) ** 0.5
    pts = [[str(c) for c in s.coord]]
    for _ in range(3):
        pts.append([str(Fraction(float(c) + rng.uniform(-w, w))) for c in s.coord])
    return {"kind": "deriv", "basis": [s.to_json()], "points": pts, "orders": list(orders), "backend": bname,
            "transform": None}


def gen_cases(tier, seed):
    rng = random.Random(7000003 * seed + 5)
    quick = tier == "quick"
    cases = []
    triples = list(itertools.product(range(5), repeat=3))
    reps = 2 if quick else 16
    idx = 0
    for rep in range(reps):
        order = list(triples)
        rng.shuffle(order)
        for o in order:
            for bname in ("general", "direct"):
                l = idx % 7
                idx += 1
                heavy = l >= 5
                if quick:
                    n = 1 + (idx // 7) % (2 if heavy else 3)
                else:
                    n = 1 + (idx // 7) % 4
                types = "crsm"[(idx // 3) % 4]
                basis = gen_basis(rng, n, l, kmax=(2 if heavy else 3) if quick else 4, mmax=2 if quick else 3,
                                  lmax_rest=2 if quick else 4, types=types)
                if quick:
                    npts = rng.randint(3, 5 if heavy else 8)
                else:
                    npts = rng.randint(30, 50) if idx % 16 == 0 else rng.randint(1, 12)
                pts = gen_points(rng, basis, npts)
                if idx % (25 if quick else 10) == 0:
                    pts = full_mantissa(rng, basis, pts)
                c = {"kind": "deriv", "basis": [s.to_json() for s in basis], "points": pts,
                     "orders": list(o), "backend": bname, "transform": None}
                if idx % 4 == 0:
                    c["transform"] = gen_transform(rng, basis)
                cases.append(c)
    # evaluate_basis: every l, both coordinate types, with / without transform
    for rep in range(2 if quick else 8):
        for l in range(7):
            for sph in (False, True):
                n = 1 + (l + rep) % (2 if quick else 4)
                basis = gen_basis(rng, n, l, kmax=3 if quick else 4, mmax=2 if quick else 3, lmax_rest=2,
                                  types="s" if sph else "c")
                if n > 1 and l % 2 == 0:
                    basis[1].sph = not sph  # mixed
                c = {"kind": "basis", "basis": [s.to_json() for s in basis],
                     "points": gen_points(rng, basis, rng.randint(3, 6 if quick else 12)), "transform": None}
                if (l + rep + sph) % 2 == 0:
                    c["transform"] = gen_transform(rng, basis)
                cases.append(c)
    # many points (up to 50), 4 shells
    for i in range(4 if quick else 24):
        basis = gen_basis(rng, 4 if i % 2 == 0 else 2, rng.randint(0, 3), kmax=4, mmax=3, lmax_rest=2, types="r")
        o = [[1, 0, 2], [0, 0, 0], [2, 2, 0], [0, 3, 1]][i % 4]
        cases.append({"kind": "deriv", "basis": [s.to_json() for s in basis],
                      "points": gen_points(rng, basis, 50 if i % 2 == 0 else rng.randint(20, 50)),
                      "orders": o, "backend": "general" if i % 4 != 2 else "direct",
                      "transform": gen_transform(rng, basis) if i % 2 else None})
    # tight shells far from the origin (both back-ends, values and low derivatives)
    for i in range(8 if quick else 80):
        bname = ("general", "direct")[i % 2]
        o = [0, 0, 0] if i % 4 < 2 else [rng.randint(0, 2) for _ in range(3)]
        cases.append(far_tight_case(rng, rng.choice([0, 0, 1, 2]), bname, o))
    # unknown back-end names
    for name in ("Direct", "analytic"):
        basis = gen_basis(rng, 1, 1, kmax=2, mmax=1, lmax_rest=1, types="c")
        cases.append({"kind": "deriv", "basis": [s.to_json() for s in basis], "points": gen_points(rng, basis, 3),
                      "orders": [1, 0, 0], "backend": name, "transform": None})
    return cases


# ----------------------------------------------------------------------------------------------
def check_norm_shortcut(model, seed):
    """Eval.norm_cont_diag must be the same numbers as Overlap.norm_cont (exactly)."""
    rng = random.Random(31 * seed + 2)
    for l in (0, 1, 2, 3):
        s = gen_shell(rng, l=l, kmax=3, mmax=3)
        a, b = model.call("(106 %s)" % s.sx())
        if a != b:
            raise RuntimeError("model inconsistency: norm_cont_diag differs from norm_cont for " + s.sx())


def coq_crosscheck(model, seed, n=24):
    """Re-evaluate one-axis cases (command 105: u, deriv_general, deriv_direct) inside Coq with vm_compute and
    compare with the extracted code's answers exactly (checks the extraction path)."""
    rng = random.Random(97 * seed + 11)
    lines = ["From Coq Require Import ZArith QArith Qcanon List.",
             "From GB Require Import Base.Field Extract.Sx Extract.RunEval.", "Import ListNotations.",
             "Definition K0 := QcK false (qc_of 0 1) (fun x => x) (fun x => x) (fun x => x) (fun _ x => x).",
             "Definition q (n : Z) (d : positive) := SQ n d."]
    checks = []
    for i in range(n):
        nn, l = rng.randint(0, 5), rng.randint(0, 7)
        a = Fraction(rng.randint(1, 255), 2 ** rng.randint(0, 8))
        x = Fraction(rng.randint(-40, 40), 16) if i % 5 else Fraction(0)
        h1, h2 = rng.randint(0, 1), rng.randint(0, 1)
        raw = model.call("(105 %d %d %s %s %d %d)" % (nn, l, lib.tok(a), lib.tok(x), h1, h2))
        exp = "SL [%s]" % "; ".join("q (%d) %d" % (v.numerator, v.denominator) for v in raw)
        args = "[SZ %d; SZ %d; q (%d) %d; q (%d) %d; SZ %d; SZ %d]" % (
            nn, l, a.numerator, a.denominator, x.numerator, x.denominator, h1, h2)
        checks.append("match run_eval K0 105 %s with Some r => sx_eqb r (%s) | None => false end" % (args, exp))
    lines.append("Definition all_ok : bool := forallb (fun b : bool => b) [%s]." % ";\n  ".join(checks))
    lines.append("Eval vm_compute in all_ok.")
    path = os.path.join(lib.WORK, "cases_c05.v")
    with open(path, "w") as f:
        f.write("\n".join(lines) + "\n")
    p = subprocess.run(["timeout", "300", "coqc", "-Q", os.path.join(lib.VERIF, "coq"), "GB", path],
                       capture_output=True, text=True, cwd=lib.WORK)
    ok = p.returncode == 0 and "= true" in p.stdout
    if not ok:
        raise RuntimeError("in-Coq cross-check of the extracted model failed: " + (p.stdout + p.stderr)[-800:])
    return n


def run(rep, tier, seed, model, replay):
    if replay is not None:
        cases = [replay["case"]]
    else:
        cases = gen_hp_cases(tier, seed) + gen_cases(tier, seed)
        if model is not None:
            check_norm_shortcut(model, seed)
            EXTRA["in_coq_crosscheck_cases"] = coq_crosscheck(model, seed)
        EXTRA["order_triples_enumerated"] = 125
        EXTRA["exhaustive"] = False
    run_cases(rep, cases, eval_case, shrinkfn=shrink_case)
