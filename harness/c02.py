"""C02 — kinetic-energy integrals exact.  Correspondence: KineticEnergyIntegral.construct_array_contraction and
kinetic_energy_integral of /repo vs the exact Coq model (runner commands 6, 7).
Stream "hp": KineticEnergyIntegral.construct_array_contraction (norm_prim_cart, the differential-operator and moment
recursions, the contraction) replayed in 260-bit arithmetic on object arrays and compared with command 6 at
1e-18 x sum|primitive terms| (harness/hpnum.py): a difference there is a difference of FORMULA, not of rounding."""
import numpy as np

import twoindex
from lib import run_cases

RULE = ("block level: every (l_a, l_b) in 0..5 x 0..5 enumerated, K 1-4, M 1-3, exponents over the published range; "
        "basis level: 1-4 shells, cart/sph/mixed, with/without rectangular transform; tolerance 1e-8*sqrt(T_aa T_bb) "
        "with T_aa from the exact model; non-trivial: block not identically zero and (l>0 or K>1); distinct by input hash; "
        "hp stream: 6 (quick) / 60 (thorough) shell pairs l<=2 / l<=4, K,M<=2, replayed at 260 bits, tolerance 1e-18 x "
        "sum|primitive terms|")
RULE += " HISTORY stream (the returned value depends only on the arguments): basis-level shells carry the atom index (icenter; shells sharing a centre share it); every 2nd generated basis (quick; every 4th thorough; with a transform only bases of 1-2 shells) and every 5th same-centre pair is a GEOMETRY SCAN evaluated in one process: the same shells (exponents, coefficients, types, icenter) with the atoms displaced rigidly by k/16 bohr (one atom, or every atom by its own vector) at 1-2 further geometries, then the first geometry again; every call is compared with the exact model at its own geometry with the same tolerance (detail kind \"history\", the replay case contains the geometries; shrinking and replay evaluate every candidate sequence in a fresh process)"
ASSUMPTIONS = ["floating-point rounding of the NumPy pipeline is not modelled: the accuracy bound is decided on the "
               "generated inputs against the exact value"]


def _impl_block(case, ga, gb):
    from gbasis.integrals.kinetic_energy import KineticEnergyIntegral
    return KineticEnergyIntegral.construct_array_contraction(ga, gb)


def _impl_int(case, gbasis, T):
    from gbasis.integrals.kinetic_energy import kinetic_energy_integral
    return kinetic_energy_integral(gbasis, transform=T)


def _hp_block(case, ha, hb):
    from gbasis.integrals.kinetic_energy import KineticEnergyIntegral
    return KineticEnergyIntegral.construct_array_contraction(ha, hb)


def _tol(model, case, res, level, *args):
    if level == "block":
        sa, sb = args
        da = model.call("(6 %s %s)" % (sa.sx(), sa.sx()))
        db = model.call("(6 %s %s)" % (sb.sx(), sb.sx()))
        ta = [[float(da[m][c][m][c]) for c in range(len(da[0]))] for m in range(len(da))]
        tb = [[float(db[m][c][m][c]) for c in range(len(db[0]))] for m in range(len(db))]
        return None, (lambda idx: 1e-8 * (ta[idx[0]][idx[1]] * tb[idx[2]][idx[3]]) ** 0.5)
    basis, T = args
    if T is None:
        diag = [float(res[i][i]) for i in range(len(res))]
        return None, (lambda idx: 1e-8 * (diag[idx[0]] * diag[idx[1]]) ** 0.5)
    # transformed: scale by the largest untransformed kinetic energy times the row norms of T
    un = model.call("(7 %s ())" % twoindex.basis_sx(basis))
    tmax = max(float(un[i][i]) for i in range(len(un)))
    rn = [sum(abs(float(x)) for x in row) for row in T]
    return None, (lambda idx: 1e-8 * tmax * max(rn[idx[0]], 1e-30) * max(rn[idx[1]], 1e-30))


KERNEL = dict(
    name="kinetic",
    block_cmd=lambda case, sa, sb: "(6 %s %s)" % (sa.sx(), sb.sx()),
    int_cmd=lambda case, basis, T: "(7 %s %s)" % (twoindex.basis_sx(basis), twoindex.t_sx(T)),
    impl_block=_impl_block, impl_int=_impl_int, post=lambda a: a, tol=_tol, hp_block=_hp_block)
eval_case = twoindex.make_eval(KERNEL)


def gen_cases(tier, seed):
    return twoindex.hp_cases(tier, seed, salt=2) + twoindex.gen_cases(tier, seed, salt=2)


def run(rep, tier, seed, model, replay):
    cases = [replay["case"]] if replay is not None else gen_cases(tier, seed)
    run_cases(rep, cases, eval_case, shrinkfn=twoindex.shrink_case, isolate=True)
