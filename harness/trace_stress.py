"""Trace translator for gbasis/evals/stress_tensor.py (property C15, DESIGN.md 5/C15).

On every run the CURRENT source of evaluate_stress_tensor / evaluate_ehrenfest_force /
evaluate_ehrenfest_hessian (and of whatever they call in gbasis/evals/density.py) is executed on
symbolic stand-ins, and the linear combination of symbols

    G(o1, o2) = sum_ab P_ab d^o1 phi_a d^o2 phi_b        (per point)

that each output component holds is written to coq/Gen/StressTrace.v (definitions only).
Proofs/StressTraceP.v then proves by computation that every component equals the documented
formula (Model/Stress.v).

What is replaced (in this process only, restored afterwards):
  * gbasis.evals.density.evaluate_deriv_basis -> returns the symbol "Phi(order)" (a K x N array);
  * the density matrix argument -> a symbol P whose only operation is P.dot(Phi);
    P.dot(Phi(o2)) *= Phi(o1) summed over axis 0 is the symbol G(o1, o2) at every point;
  * module attribute `np` of stress_tensor.py and density.py -> a proxy whose zeros() gives object
    arrays of formal zeros and whose sum() understands the product above; everything else is numpy.
  * alpha, beta -> either the literal special value (0, 0.5, 1 / 0) or a float subclass standing for
    an unknown: it answers `!=` with True and `==` with False (generic branch), records what it was
    compared with, and fails on any other use as a number.
So the real evaluate_deriv_reduced_density_matrix, evaluate_deriv_density and
evaluate_density_laplacian are traced too.

Fail-closed: anything not understood raises TraceError; outputs must be object arrays of the exact
documented shape whose every element is a formal combination with exact rational-affine
coefficients, identical at the two traced points and made of that point's symbols only; the
constants alpha / beta are compared with must all be among the special values that are traced.
"""
import importlib
import json
import math
import os
import sys
from fractions import Fraction

import numpy as np


class TraceError(Exception):
    pass


# ------------------------------------------------------------------------------------------------
# exact scalars
# ------------------------------------------------------------------------------------------------
def to_frac(x):
    if isinstance(x, bool):
        raise TraceError("boolean used as a number")
    if isinstance(x, (int, np.integer)):
        return Fraction(int(x))
    if isinstance(x, Fraction):
        return x
    if isinstance(x, (float, np.floating)) and not isinstance(x, SymF):
        x = float(x)
        if not math.isfinite(x):
            raise TraceError("non-finite coefficient (a symbolic parameter leaked into float arithmetic?)")
        return Fraction(x)
    raise TraceError("not an exact number: %r" % (type(x),))


class Aff:
    """c1 + ca*alpha + cb*beta with rational c1, ca, cb."""

    __array_ufunc__ = None
    __slots__ = ("c",)

    def __init__(self, c1=0, ca=0, cb=0):
        self.c = (Fraction(c1), Fraction(ca), Fraction(cb))

    @staticmethod
    def of(x):
        if isinstance(x, Aff):
            return x
        if isinstance(x, SymF):
            return x.aff
        return Aff(to_frac(x))

    def is_const(self):
        return self.c[1] == 0 and self.c[2] == 0

    def is_zero(self):
        return self.c == (0, 0, 0)

    def __add__(self, o):
        if isinstance(o, (np.ndarray, Lin)):
            raise TraceError("parameter added to an array / combination")
        o = Aff.of(o)
        return Aff(*(a + b for a, b in zip(self.c, o.c)))

    __radd__ = __add__

    def __neg__(self):
        return Aff(*(-a for a in self.c))

    def __sub__(self, o):
        return self + (-Aff.of(o))

    def __rsub__(self, o):
        return Aff.of(o) + (-self)

    def __mul__(self, o):
        if isinstance(o, np.ndarray):
            return _ew(o, lambda e: self * e)
        if isinstance(o, Lin):
            return o * self
        o = Aff.of(o)
        if o.is_const():
            return Aff(*(a * o.c[0] for a in self.c))
        if self.is_const():
            return Aff(*(a * self.c[0] for a in o.c))
        raise TraceError("coefficient of degree > 1 in (alpha, beta): not representable, and not documented")

    __rmul__ = __mul__

    def __truediv__(self, o):
        q = to_frac(o)
        if q == 0:
            raise TraceError("division by zero")
        return Aff(*(a / q for a in self.c))

    def _no(self, *a, **k):
        raise TraceError("unsupported operation on a symbolic coefficient")

    __rtruediv__ = __pow__ = __rpow__ = __lt__ = __le__ = __gt__ = __ge__ = __bool__ = __float__ = __int__ = _no
    __abs__ = __floordiv__ = __mod__ = _no

    def __eq__(self, o):
        raise TraceError("comparison of a derived symbolic coefficient")

    __ne__ = __eq__
    __hash__ = None

    def __repr__(self):
        return "Aff%r" % (tuple(str(x) for x in self.c),)


class SymF(float):
    """An unknown real parameter that passes `isinstance(x, (int, float))`.

    Its float value is NaN so that any arithmetic that escapes the overrides poisons the result
    (caught by to_frac)."""

    __array_ufunc__ = None

    def __new__(cls, which):
        o = float.__new__(cls, "nan")
        o.which = which
        o.aff = Aff(0, 1, 0) if which == "alpha" else Aff(0, 0, 1)
        o.compared = set()
        return o

    def _cmp_const(self, o):
        if isinstance(o, (SymF, Aff, Lin, np.ndarray)):
            raise TraceError("%s compared with a non-constant" % self.which)
        self.compared.add(to_frac(o))

    def __ne__(self, o):
        self._cmp_const(o)
        return True

    def __eq__(self, o):
        self._cmp_const(o)
        return False

    def __add__(self, o):
        return self.aff + o

    __radd__ = __add__

    def __sub__(self, o):
        return self.aff - o

    def __rsub__(self, o):
        return o - self.aff

    def __mul__(self, o):
        return self.aff * o

    __rmul__ = __mul__

    def __neg__(self):
        return -self.aff

    def __pos__(self):
        return self.aff

    def __truediv__(self, o):
        return self.aff / o

    def __repr__(self):
        return "<%s>" % self.which


def _symf_forbid(name):
    def f(self, *a, **k):
        raise TraceError("unsupported use of the symbolic parameter: float.%s" % name)

    return f


_SYMF_KEEP = {"__new__", "__init__", "__class__", "__getattribute__", "__setattr__", "__delattr__", "__dir__",
              "__doc__", "__init_subclass__", "__subclasshook__", "__reduce__", "__reduce_ex__", "__sizeof__",
              "__getnewargs__", "__getformat__", "__getstate__", "__str__", "__format__", "__class_getitem__"}
for _n in dir(float):
    if _n not in SymF.__dict__ and _n not in _SYMF_KEEP:
        setattr(SymF, _n, _symf_forbid(_n))


# ------------------------------------------------------------------------------------------------
# formal combinations
# ------------------------------------------------------------------------------------------------
def _ew(arr, fn):
    out = np.empty(arr.shape, dtype=object)
    for idx in np.ndindex(arr.shape):
        out[idx] = fn(arr[idx])
    return out


class Lin:
    """sum_k coeff_k * symbol_k, symbol = (point, o1, o2), coeff = Aff."""

    __array_ufunc__ = None
    __slots__ = ("d",)

    def __init__(self, d=None):
        self.d = d or {}

    @staticmethod
    def sym(p, o1, o2):
        return Lin({(p, o1, o2): Aff(1)})

    def _comb(self, o, sign):
        if isinstance(o, np.ndarray):
            raise TraceError("internal: array operand reached Lin._comb")
        if not isinstance(o, Lin):
            if isinstance(o, (SymF, Aff)) or to_frac(o) != 0:
                raise TraceError("a number was added to a combination of density-matrix derivatives")
            return self
        r = dict(self.d)
        for k, v in o.d.items():
            nv = (r[k] + v * sign) if k in r else v * sign
            if nv.is_zero():
                r.pop(k, None)
            else:
                r[k] = nv
        return Lin(r)

    def __add__(self, o):
        if isinstance(o, np.ndarray):
            return _ew(o, lambda e: self + e)
        return self._comb(o, 1)

    __radd__ = __add__

    def __sub__(self, o):
        if isinstance(o, np.ndarray):
            return _ew(o, lambda e: self - e)
        return self._comb(o, -1)

    def __rsub__(self, o):
        if isinstance(o, np.ndarray):
            return _ew(o, lambda e: e - self)
        return (-self)._comb(o, 1)

    def __neg__(self):
        return self * (-1)

    def __mul__(self, c):
        if isinstance(c, np.ndarray):
            return _ew(c, lambda e: self * e)
        if isinstance(c, Lin):
            raise TraceError("product of two combinations (not bilinear in the orbitals)")
        c = Aff.of(c)
        r = {}
        for k, v in self.d.items():
            nv = v * c
            if not nv.is_zero():
                r[k] = nv
        return Lin(r)

    __rmul__ = __mul__

    def __truediv__(self, c):
        q = to_frac(c)
        if q == 0:
            raise TraceError("division by zero")
        return self * (1 / q)

    def _no(self, *a, **k):
        raise TraceError("unsupported operation on a formal combination")

    __rtruediv__ = __pow__ = __rpow__ = __lt__ = __le__ = __gt__ = __ge__ = __bool__ = __float__ = __int__ = _no
    __abs__ = __floordiv__ = __mod__ = __eq__ = __ne__ = _no
    __hash__ = None

    def __repr__(self):
        return "Lin(%r)" % (self.d,)


# ------------------------------------------------------------------------------------------------
# symbolic orbitals / density matrix
# ------------------------------------------------------------------------------------------------
class _Opaque:
    __array_ufunc__ = None

    def _no(self, *a, **k):
        raise TraceError("unsupported operation on %s" % type(self).__name__)

    __add__ = __radd__ = __sub__ = __rsub__ = __mul__ = __rmul__ = __truediv__ = __rtruediv__ = _no
    __iadd__ = __isub__ = __imul__ = __itruediv__ = __neg__ = __pow__ = __matmul__ = __rmatmul__ = _no
    __getitem__ = __setitem__ = __len__ = __iter__ = __bool__ = __float__ = _no
    __lt__ = __le__ = __gt__ = __ge__ = _no

    def __getattr__(self, name):
        raise TraceError("unsupported attribute %s.%s" % (type(self).__name__, name))


class PhiArr(_Opaque):
    """d^order of every basis function at every point: array (K, N)."""

    def __init__(self, order):
        self.__dict__["order"] = order


class PPhi(_Opaque):
    """P . Phi(order): array (K, N), element [a, n] = sum_b P_ab phi^order_b(r_n)."""

    def __init__(self, order):
        self.__dict__["order"] = order

    def __mul__(self, o):
        if not isinstance(o, PhiArr):
            raise TraceError("P.dot(Phi) multiplied by something that is not an orbital array")
        return Prod(o.order, self.order)

    __rmul__ = __imul__ = __mul__


class Prod(_Opaque):
    """element [a, n] = phi^o1_a(r_n) * sum_b P_ab phi^o2_b(r_n)."""

    def __init__(self, o1, o2):
        self.__dict__["o1"] = o1
        self.__dict__["o2"] = o2


class PSym(_Opaque):
    """The density matrix."""

    def dot(self, o):
        if not isinstance(o, PhiArr):
            raise TraceError("density matrix applied to something that is not an orbital array")
        return PPhi(o.order)


class Sentinel:
    def __init__(self, name):
        self.name = name

    def __getattr__(self, name):
        raise TraceError("the traced code inspected the %s object (.%s)" % (self.__dict__.get("name"), name))


NPTS = 2


class NPProxy:
    """numpy, except zeros (formal zeros) and sum (of the symbolic product)."""

    def __getattr__(self, name):
        return getattr(np, name)

    @staticmethod
    def zeros(shape, *a, **k):
        if a or k:
            raise TraceError("np.zeros with dtype/order arguments")
        z = np.empty(shape, dtype=object)
        zero = Lin()
        for idx in np.ndindex(z.shape):
            z[idx] = zero
        return z

    @staticmethod
    def sum(x, *a, **k):
        if isinstance(x, Prod):
            if a != () or k != {"axis": 0}:
                raise TraceError("np.sum over the symbolic product with arguments other than axis=0")
            out = np.empty((NPTS,), dtype=object)
            for p in range(NPTS):
                out[p] = Lin.sym(p, x.o1, x.o2)
            return out
        if isinstance(x, _Opaque):
            raise TraceError("np.sum of %s" % type(x).__name__)
        return np.sum(x, *a, **k)


def _order(o):
    o = np.asarray(o)
    if o.shape != (3,) or o.dtype.kind not in "iu":
        raise TraceError("derivative orders are not three integers: %r" % (o,))
    t = tuple(int(x) for x in o)
    if min(t) < 0:
        raise TraceError("negative derivative order")
    return t


class Tracer:
    """Context in which stress_tensor.py / density.py run on symbols."""

    def __init__(self, level="deep"):
        self.level = level
        self.st = importlib.import_module("gbasis.evals.stress_tensor")
        self.dens = importlib.import_module("gbasis.evals.density")
        self.P = PSym()
        self.basis = Sentinel("basis")
        self.points = np.zeros((NPTS, 3))
        self.transform = None

    def _deriv_basis(self, basis, points, orders, transform=None, deriv_type="general"):
        if basis is not self.basis or points is not self.points:
            raise TraceError("evaluate_deriv_basis called with a different basis / points object")
        if transform is not self.transform:
            raise TraceError("evaluate_deriv_basis called with a different transform")
        if deriv_type not in ("general", "direct"):
            raise TraceError("unknown deriv_type %r" % (deriv_type,))
        return PhiArr(_order(orders))

    # ---- "shallow" level: the three functions of density.py that stress_tensor.py imports are replaced
    # by their documented meaning (used only when density.py itself cannot be traced, e.g. after a refactoring
    # to einsum; property C06 is what ties those functions to their documentation) ----
    def _chk(self, dm, basis, points, transform):
        if dm is not self.P or basis is not self.basis or points is not self.points or transform is not self.transform:
            raise TraceError("a density.py function was called with different matrix / basis / points / transform")

    def _sym_arr(self, terms):
        out = np.empty((NPTS,), dtype=object)
        for p in range(NPTS):
            acc = Lin()
            for c, o1, o2 in terms:
                acc = acc + Lin.sym(p, o1, o2) * c
            out[p] = acc
        return out

    def _sh_rdm(self, orders_one, orders_two, dm, basis, points, transform=None, deriv_type="general"):
        self._chk(dm, basis, points, transform)
        return self._sym_arr([(1, _order(orders_one), _order(orders_two))])

    def _sh_deriv_density(self, orders, dm, basis, points, transform=None, deriv_type="general"):
        self._chk(dm, basis, points, transform)
        L = _order(orders)
        terms = []
        for l in np.ndindex(*(x + 1 for x in L)):
            c = math.comb(L[0], l[0]) * math.comb(L[1], l[1]) * math.comb(L[2], l[2])
            terms.append((c, tuple(int(x) for x in l), tuple(a - int(b) for a, b in zip(L, l))))
        return self._sym_arr(terms)

    def _sh_laplacian(self, dm, basis, points, transform=None, deriv_type="general"):
        self._chk(dm, basis, points, transform)
        terms = []
        for k in range(3):
            e = tuple(1 if i == k else 0 for i in range(3))
            e2 = tuple(2 * x for x in e)
            terms += [(1, e2, (0, 0, 0)), (2, e, e), (1, (0, 0, 0), e2)]
        return self._sym_arr(terms)

    SHALLOW = {"evaluate_deriv_reduced_density_matrix": "_sh_rdm", "evaluate_deriv_density": "_sh_deriv_density",
               "evaluate_density_laplacian": "_sh_laplacian"}

    def __enter__(self):
        self.saved = (self.st.np, self.dens.np, self.dens.evaluate_deriv_basis)
        self.saved_st = {}
        if self.level == "shallow":
            # every name stress_tensor.py imported from density.py must be one of the three documented ones
            for name in dir(self.st):
                f = getattr(self.st, name)
                if callable(f) and getattr(f, "__module__", None) == self.dens.__name__ and name not in self.SHALLOW:
                    raise TraceError("stress_tensor.py uses density.%s, whose meaning the shallow tracer does not know" % name)
            self.st.np = NPProxy()
            for name, meth in self.SHALLOW.items():
                if hasattr(self.st, name):
                    self.saved_st[name] = getattr(self.st, name)
                    setattr(self.st, name, getattr(self, meth))
            return self
        # the names stress_tensor.py calls must be the functions of density.py (not re-implemented copies)
        for name in ("evaluate_deriv_reduced_density_matrix", "evaluate_deriv_density", "evaluate_density_laplacian"):
            f = getattr(self.st, name, None)
            if f is not None and f is not getattr(self.dens, name, None):
                raise TraceError("stress_tensor.%s is not density.%s" % (name, name))
        self.st.np = NPProxy()
        self.dens.np = NPProxy()
        self.dens.evaluate_deriv_basis = self._deriv_basis
        return self

    def __exit__(self, *exc):
        self.st.np, self.dens.np, self.dens.evaluate_deriv_basis = self.saved
        for name, f in self.saved_st.items():
            setattr(self.st, name, f)
        return False

    def call(self, fname, alpha, beta, transform, **kw):
        self.transform = transform
        fn = getattr(self.st, fname)
        try:
            return fn(self.P, self.basis, self.points, alpha=alpha, beta=beta, transform=transform, **kw)
        except TraceError:
            raise
        except Exception as exc:  # noqa: BLE001  anything else the symbols provoke is "not understood"
            raise TraceError("%s raised %s: %s" % (fname, type(exc).__name__, str(exc)[:300]))


def canon_key(o1, o2):
    return (o1, o2) if o1 <= o2 else (o2, o1)


def extract(out, shape):
    """Object array of shape (NPTS,)+shape -> list (row-major) of normalised combinations
    {(o1,o2) sorted: (c1,ca,cb)}."""
    if not isinstance(out, np.ndarray) or out.dtype != object or out.shape != (NPTS,) + shape:
        raise TraceError("output is not an array of shape (N,)+%r: %r" % (shape, getattr(out, "shape", type(out))))
    per_point = []
    for p in range(NPTS):
        comps = []
        for idx in np.ndindex(shape):
            e = out[(p,) + idx]
            if not isinstance(e, Lin):
                raise TraceError("output element %r is not a formal combination: %r" % (idx, e))
            comb = {}
            for (pp, o1, o2), c in e.d.items():
                if pp != p:
                    raise TraceError("output at point %d contains a symbol of point %d" % (p, pp))
                k = canon_key(o1, o2)
                old = comb.get(k, (Fraction(0),) * 3)
                comb[k] = tuple(a + b for a, b in zip(old, c.c))
            comps.append({k: v for k, v in comb.items() if v != (0, 0, 0)})
        per_point.append(comps)
    if any(pp != per_point[0] for pp in per_point[1:]):
        raise TraceError("the formula differs from point to point")
    return per_point[0]


SPECIAL_ALPHA = [0, 0.5, 1]
SPECIAL_BETA = [0]
# order must be that of `cases` in coq/Model/Stress.v: beta outer [sym, 0], alpha inner [sym, 0, 1/2, 1]
CASES = [(a, b) for b in [None] + SPECIAL_BETA for a in [None] + SPECIAL_ALPHA]


def trace_all(level="deep"):
    """Returns list of dict(alpha, beta, stress, force, hess, hess_symm) in the order of CASES."""
    res = []
    with Tracer(level) as tr:
        for (a, b) in CASES:
            per_tf = []
            for tf in (None, Sentinel("transform")):
                syms = []

                def mk(v, which):
                    if v is None:
                        s = SymF(which)
                        syms.append(s)
                        return s
                    return v

                calls = {}
                calls["stress"] = extract(tr.call("evaluate_stress_tensor", mk(a, "alpha"), mk(b, "beta"), tf), (3, 3))
                calls["force"] = extract(tr.call("evaluate_ehrenfest_force", mk(a, "alpha"), mk(b, "beta"), tf), (3,))
                calls["hess"] = extract(
                    tr.call("evaluate_ehrenfest_hessian", mk(a, "alpha"), mk(b, "beta"), tf, symmetric=False), (3, 3))
                calls["hess_symm"] = extract(
                    tr.call("evaluate_ehrenfest_hessian", mk(a, "alpha"), mk(b, "beta"), tf, symmetric=True), (3, 3))
                # default of `symmetric` must be False
                dflt = extract(tr.call("evaluate_ehrenfest_hessian", mk(a, "alpha"), mk(b, "beta"), tf), (3, 3))
                if dflt != calls["hess"]:
                    raise TraceError("evaluate_ehrenfest_hessian: default of `symmetric` is not False")
                for s in syms:
                    allowed = {Fraction(x) for x in (SPECIAL_ALPHA if s.which == "alpha" else SPECIAL_BETA)}
                    extra = s.compared - allowed
                    if extra:
                        raise TraceError("%s is compared with %s, which is not traced as a special value"
                                         % (s.which, sorted(extra)))
                per_tf.append(calls)
            if per_tf[0] != per_tf[1]:
                raise TraceError("the formula depends on whether a transform is given")
            d = dict(per_tf[0])
            d["alpha"], d["beta"] = a, b
            res.append(d)
    # default parameter values: alpha=1, beta=0
    with Tracer(level) as tr:
        tr.transform = None
        for fname, key, shape in (("evaluate_stress_tensor", "stress", (3, 3)), ("evaluate_ehrenfest_force", "force", (3,)),
                                  ("evaluate_ehrenfest_hessian", "hess", (3, 3))):
            try:
                out = getattr(tr.st, fname)(tr.P, tr.basis, tr.points)
            except TraceError:
                raise
            except Exception as exc:  # noqa: BLE001
                raise TraceError("%s with default parameters raised %s" % (fname, type(exc).__name__))
            ref = [r for r in res if r["alpha"] == 1 and r["beta"] == 0][0][key]
            if extract(out, shape) != ref:
                raise TraceError("%s: the defaults are not alpha=1, beta=0 (documented)" % fname)
    return res


# ------------------------------------------------------------------------------------------------
# Coq output
# ------------------------------------------------------------------------------------------------
def _q(x):
    x = Fraction(x)
    return "(%d # %d)%%Q" % (x.numerator, x.denominator)


def _comb_v(comb):
    if not comb:
        return "[]"
    terms = []
    for (o1, o2) in sorted(comb):
        c = comb[(o1, o2)]
        terms.append("mkt %s %s %s (%d,%d,%d) (%d,%d,%d)" % ((_q(c[0]), _q(c[1]), _q(c[2])) + o1 + o2))
    return "[" + ";\n      ".join(terms) + "]"


def _list_v(combs):
    return "[\n     " + ";\n     ".join(_comb_v(c) for c in combs) + "]"


def _par_v(v):
    return "None" if v is None else "(Some %s)" % _q(Fraction(v))


HEADER = """(* Gen/StressTrace.v -- GENERATED by harness/trace_stress.py from the current
   gbasis/evals/stress_tensor.py + density.py; do not edit.  Definitions only: the linear
   combination of symbols G(o1,o2) found in every output component, per parameter case
   (None = symbolic parameter on the generic branch, Some v = the literal special value). *)
From Coq Require Import ZArith QArith List.
From GB Require Import Gauss.Jets Model.Stress.
Import ListNotations.
Local Open Scope nat_scope.

"""


def render(res, level="deep"):
    out = [HEADER, "(* trace level: %s *)\n" % level, "Definition trace_table : list trace_case := [\n"]
    items = []
    for r in res:
        items.append("  mkcase %s %s\n    %s\n    %s\n    %s\n    %s" % (
            _par_v(r["alpha"]), _par_v(r["beta"]), _list_v(r["stress"]), _list_v(r["force"]), _list_v(r["hess"]),
            _list_v(r["hess_symm"])))
    out.append(";\n".join(items))
    out.append("\n].\n")
    return "".join(out)


def render_failed(msg):
    safe = msg.replace("(*", "( *").replace("*)", "* )")
    return (HEADER + "(* THE TRACE FAILED (fail-closed: the table is empty, so Proofs/StressTraceP.v cannot check):\n   "
            + safe + " *)\nDefinition trace_table : list trace_case := [].\n")


def to_json(res):
    def cj(comb):
        return [[[str(x) for x in comb[k]], list(k[0]), list(k[1])] for k in sorted(comb)]

    return [{"alpha": None if r["alpha"] is None else str(Fraction(r["alpha"])),
             "beta": None if r["beta"] is None else str(Fraction(r["beta"])),
             **{k: [cj(c) for c in r[k]] for k in ("stress", "force", "hess", "hess_symm")}} for r in res]


def main():
    """python trace_stress.py <out.v> <out.json> ; exit 0 = traced, 3 = trace failed (fail-closed file written)."""
    out_v, out_json = sys.argv[1], sys.argv[2]
    try:
        try:
            res, level, note = trace_all("deep"), "deep", None
        except TraceError as exc:
            note = "deep trace (through density.py) failed: %s" % exc
            res, level = trace_all("shallow"), "shallow"
        text, status, js = render(res, level), 0, {"ok": True, "level": level, "note": note, "cases": to_json(res)}
    except TraceError as exc:
        msg = "%s; shallow trace failed: %s" % (note, exc)
        text, status, js = render_failed(msg), 3, {"ok": False, "error": msg}
    for path, content in ((out_v, text), (out_json, json.dumps(js, indent=0))):
        tmp = path + ".tmp%d" % os.getpid()
        old = None
        if os.path.exists(path):
            with open(path) as f:
                old = f.read()
        if old != content:
            with open(tmp, "w") as f:
                f.write(content)
            os.replace(tmp, path)
    sys.exit(status)


if __name__ == "__main__":
    main()
