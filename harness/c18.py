"""C18 — basis-set import preserves every shell and leaves its arguments intact.

Correspondence: gbasis.parsers.parse_nwchem / parse_gbs / make_contractions and
gbasis.wrappers.from_pyscf of the working tree against the executable Gallina model
coq/Model/Parsers.v.

How the model is evaluated.  The model needs no field arithmetic, so it is NOT run through the
extracted OCaml runner (the `model` co-process argument is unused): for every run the harness
writes batched files `_work/c18_run_<pid>/cases_c18_<k>.v`, each `From GB Require Import
Model.Parsers Model.ParsersRun.` followed by one `Eval vm_compute in (ser_... (...)).` per case
(preceded by a marker `Eval vm_compute in "@@<n>".`), compiles them with
`timeout 600 coqc -noglob -Q <clone>/coq GB <file>` (several files in parallel, each at most
BATCH cases / BATCH_CHARS characters) and parses the printed strings (`     = "..."` /
`     : string`; the serializers are in coq/Model/ParsersRun.v).  The generated files are
removed after a successful run and kept when coqc fails.  Shrinking re-evaluates the model with
one batched coqc call per round.

Parser cases.  A case is an AST (elements -> blocks of literal strings) plus a layout (lines
before/after, filler lines, blanks, letter case).  `print_nwchem` / `print_gbs` below mirror the
Coq printers of Model/Parsers.v; for a seeded subset of the cases (and for every replay and every
shrunk violation) Coq itself evaluates `print_nwchem ast L` / `print_gbs ast L` and compares the
result, inside Coq, with the very lines this module wrote to disk, and evaluates `wf_ast` /
`wf_ast_gbs close_lit` and `filler_nw` / `filler_gbs` on the generated data (`check_nw`,
`check_gbs`).  The implementation's dict is compared exactly with the model's dict (keys, order, l,
every float after float() on both sides) and with the generating AST (`expected`).

make_contractions / from_pyscf cases.  Data built in Python from dyadic floats; the model sees
each number as the literal repr() of the float and each coordinate row as its row index.  Every
argument object is snapshotted bitwise, the call is made TWICE with the same objects, both results
are compared with the model and the arguments as the caller sees them after each call are compared
with the model's second component (unchanged) and with the snapshot.
"""
import copy
import itertools
import json
import os
import random
import re
import shutil
import subprocess
import threading
import time
from concurrent.futures import ThreadPoolExecutor

import numpy as np

from lib import VERIF, WORK, call_impl, case_hash

RULE = ("parser files: 1-5 elements with distinct one-/two-letter symbols (mixed case), 1-8 blocks each, l in s..k, "
        "1-10 primitives, 1-6 columns, combined SP/SPD blocks, plain/E/D literals mixed, signs, indentation 0-8, "
        "token gaps 1-13, trailing blanks 0-3, lower-case letters, comment/blank/separator/garbage filler lines, and "
        "0 / 1 / 2 / many lines before the first element (0 and 1 frequent); separate tagged streams: Gaussian94 "
        "files whose consecutive blocks must fuse / repeated element symbols (implementation vs model only). "
        "make_contractions: 1-4 elements, molecules of 1-5 atoms with repeats, atoms as list or tuple, coord_types "
        "as string, list, tuple over the four spellings, each call made twice on the same objects; an invalid stream "
        "(wrong length, unknown type, unknown atom, atoms/coords mismatch) must be rejected. from_pyscf: fake Mole "
        "objects. A parser case is non-trivial if it has >= 2 shells or l>0 or K>1; distinct by hash of the case")
ASSUMPTIONS = [
    "Python's float(), the re engine, NumPy and the file system are not modelled: number literals are compared "
    "after float() on both sides (model literals are converted with float(lit.lower().replace('d','e')))",
    "files are printable ASCII with blanks as spaces and every line newline-terminated",
    "lower-case e/d exponent marks are outside the quantifier (observation: the row pattern [0-9.DE+-] of "
    "parsers.py:51,133 does not know them, the code silently drops such rows)",
    "parse_nwchem returns 1-D coefficient arrays for the shells split out of a combined (SP) block; accepted: "
    "a 1-D array is read as one column",
    "np.allclose in the Gaussian94 merge rule (parsers.py:154) is replaced in the model by literal equality of the "
    "exponent strings; the generator keeps exponent lists that are not literally identical numerically apart "
    "(not np.allclose) and, in well-formed files, never lets consecutive same-l shells have close exponents",
    "from_iodata is not exercised (iodata is not installed)",
    "from_pyscf is exercised through a fake object of a class named Mole exposing _basis, _atom, cart "
    "(pyscf is not installed)",
    "the link between this module's file writer and the proven Coq printers is checked inside Coq on a seeded "
    "subset of the cases (>= 10 %), on every replay and on every shrunk violation, not on every case",
]
EXTRA = {}

COQ_DIR = os.path.join(VERIF, "coq")
FILES = os.path.join(WORK, "c18_files")
BATCH = 40          # model expressions per generated .v file (and at most ~BATCH_CHARS of text)
BATCH_CHARS = 30000
NPAR = 8            # coqc processes in parallel
LET = "SPDFGHIK"
_FILE_NO = itertools.count()


# ------------------------------------------------------------------------------------------------
# the token classes of Model/Parsers.v, restated (used to filter what the generator emits; the
# Coq predicates themselves are evaluated on the seeded subset)
# ------------------------------------------------------------------------------------------------
def is_word_ch(c):
    return c.isascii() and (c.isalnum() or c == "_")


def tokens(s):
    return [t for t in s.split(" ") if t]


def pure_word(t):
    return t != "" and all(is_word_ch(c) for c in t)


def short_word(t):
    return pure_word(t) and len(t) <= 2


CLASS = set("0123456789.DE+-")


def class_tok(t):
    return t != "" and all(c in CLASS for c in t)


def is_ww(t):
    i = t.find(".")
    return i >= 1 and pure_word(t[:i]) and pure_word(t[i + 1:])


FLOAT_RE = re.compile(r"^[+-]?(?:[0-9]+\.?[0-9]*|\.[0-9]+)(?:[DE][+-]?[0-9]+)?$")


def float_ok(t):
    return FLOAT_RE.match(t) is not None


def wf_lit(t):
    return class_tok(t) and float_ok(t) and not pure_word(t)


def printable(s):
    return all(32 <= ord(c) <= 126 for c in s)


def is_header2(s):
    tk = tokens(s)
    return len(tk) == 2 and short_word(tk[0]) and pure_word(tk[1])


def is_sheader(s):
    tk = tokens(s)
    return len(tk) == 3 and pure_word(tk[0]) and pure_word(tk[1]) and is_ww(tk[2])


def is_row(s):
    tk = tokens(s)
    return len(tk) >= 2 and all(class_tok(t) for t in tk)


def bad_gbs_line(s):
    tk = tokens(s)[::-1]
    if not tk:
        return False
    if len(tk) == 1:
        return is_ww(tk[0]) or short_word(tk[0])
    c, b, rest = tk[0], tk[1], tk[2:]
    return is_ww(c) and pure_word(b) and not (len(rest) == 1 and pure_word(rest[0]))


def filler_nw(s):
    return printable(s) and not is_header2(s) and not is_row(s)


def filler_gbs(s):
    return printable(s) and not bad_gbs_line(s) and not is_header2(s) and not is_sheader(s) and not is_row(s)


def lit_float(lit):
    return float(lit.lower().replace("d", "e"))


# ------------------------------------------------------------------------------------------------
# printers (mirror print_nwchem / print_gbs of Model/Parsers.v)
# ------------------------------------------------------------------------------------------------
def key(pos):
    return ",".join(str(p) for p in pos)


class Lay:
    def __init__(self, d):
        self.d = d

    def _get(self, field, pos, default):
        return self.d.get(field, {}).get(key(pos), default)

    def fill(self, pos):
        return list(self._get("fill", pos, []))

    def pad(self, pos):
        return tuple(self._get("pad", pos, [0, 0, 0]))

    def lower(self, pos):
        return bool(self._get("lower", pos, False))

    def tok2(self, pos):
        return self._get("tok2", pos, "0")

    def tok3(self, pos):
        return self._get("tok3", pos, "1.00")


def letters(lower, ls):
    s = "".join(LET[l] for l in ls)
    return s.lower() if lower else s


def render(pad, toks):
    ind, sep, trail = pad
    return " " * ind + (" " * (sep + 1)).join(toks) + " " * trail


def print_rows(L, pos, exps, cols):
    out = []
    for k in range(len(exps)):
        p = list(pos) + [k]
        out += L.fill(p)
        out.append(render(L.pad(p), [exps[k]] + [col[k] for col in cols]))
    return out


def print_nwchem(ast, layout):
    L = Lay(layout)
    out = list(layout.get("pre", []))
    for i, (sym, blocks) in enumerate(ast):
        for j, (ls, exps, cols) in enumerate(blocks):
            out += L.fill([i, j])
            out.append(render(L.pad([i, j]), [sym, letters(L.lower([i, j]), ls)]))
            out += print_rows(L, [i, j], exps, cols)
    return out + list(layout.get("post", []))


def gbs_subblocks(block):
    ls, exps, cols = block
    if len(ls) == 1:
        return [[ls, exps, [col]] for col in cols]
    return [block]


def print_gbs(ast, layout):
    L = Lay(layout)
    out = list(layout.get("pre", []))
    for i, (sym, blocks) in enumerate(ast):
        out += L.fill([i])
        out.append(render(L.pad([i]), [sym, L.tok2([i])]))
        for j, block in enumerate(blocks):
            for m, (ls, exps, cols) in enumerate(gbs_subblocks(block)):
                p = [i, j, m]
                out += L.fill(p)
                out.append(render(L.pad(p), [letters(L.lower(p), ls), L.tok2(p), L.tok3(p)]))
                out += print_rows(L, p, exps, cols)
    return out + list(layout.get("post", []))


def expected(ast):
    """What the property says the import must return (Model/Parsers.v `expected`), as floats."""
    out = []
    for sym, blocks in ast:
        shells = []
        for ls, exps, cols in blocks:
            fe = [lit_float(e) for e in exps]
            fc = [[lit_float(c) for c in col] for col in cols]
            if len(ls) == 1:
                shells.append([ls[0], fe, fc])
            else:
                for l, col in zip(ls, fc):
                    shells.append([l, fe, [col]])
        out.append([sym, shells])
    return out


def fillers_of(layout):
    out = list(layout.get("pre", [])) + list(layout.get("post", []))
    for v in layout.get("fill", {}).values():
        out += v
    return out


def no_fuse(ast):
    """No two consecutive expected shells of one element with equal l have np.allclose exponents."""
    for _, shells in expected(ast):
        for s1, s2 in zip(shells, shells[1:]):
            if s1[0] == s2[0] and len(s1[1]) == len(s2[1]) and np.allclose(s1[1], s2[1]):
                return False
    return True


def exps_apart(ast):
    """Exponent lists of consecutive same-l, same-length expected shells are literally identical or not close."""
    for sym, blocks in ast:
        flat = []
        for ls, exps, cols in blocks:
            for l in ls:
                flat.append((l, exps))
        for (l1, e1), (l2, e2) in zip(flat, flat[1:]):
            if l1 == l2 and len(e1) == len(e2) and e1 != e2 and \
                    np.allclose([lit_float(x) for x in e1], [lit_float(x) for x in e2]):
                return False
    return True


def valid_parser_case(case):
    """Well-formedness of a (possibly shrunk) parser case, as the model's wf_ast / layout_ok state it."""
    ast, layout, gbs = case["ast"], case["layout"], case["kind"] == "gbs"
    stream = case.get("stream", "wf")
    if not ast:
        return False
    syms = [e[0] for e in ast]
    if stream == "wf" and len(set(syms)) != len(syms):
        return False
    for sym, blocks in ast:
        if not (1 <= len(sym) <= 2 and sym.isascii() and sym.isalpha()) or not blocks:
            return False
        for ls, exps, cols in blocks:
            if not ls or any(not 0 <= l <= 7 for l in ls) or not exps or not cols:
                return False
            if not all(wf_lit(e) for e in exps):
                return False
            if any(len(col) != len(exps) or not all(wf_lit(c) for c in col) for col in cols):
                return False
            if len(ls) != 1 and len(ls) != len(cols):
                return False
    fil = filler_gbs if gbs else filler_nw
    if not all(fil(s) for s in fillers_of(layout)):
        return False
    if gbs:
        if not all(pure_word(t) for t in layout.get("tok2", {}).values()):
            return False
        if not all(is_ww(t) for t in layout.get("tok3", {}).values()):
            return False
        if stream == "wf" and not no_fuse(ast):
            return False
        if not exps_apart(ast):
            return False
    return True


# ------------------------------------------------------------------------------------------------
# Coq text
# ------------------------------------------------------------------------------------------------
def cq(s):
    if not printable(s):
        raise RuntimeError("non-printable string handed to Coq: %r" % s)
    return '"' + s.replace('"', '""') + '"'


def cq_list(xs, f=cq):
    return "[" + "; ".join(f(x) for x in xs) + "]"


def cq_nats(xs):
    return "[" + "; ".join(str(int(x)) for x in xs) + "]"


def cq_block(b):
    ls, exps, cols = b
    return "{| b_ls := %s; b_exps := %s; b_cols := %s |}" % (
        cq_nats(ls), cq_list(exps), cq_list(cols, lambda c: cq_list(c)))


def cq_ast(ast):
    return "[" + "; ".join("(%s, %s)" % (cq(sym), cq_list(blocks, cq_block)) for sym, blocks in ast) + "]"


def cq_table(tbl, fval):
    return "[" + "; ".join("(%s, %s)" % (cq_nats(k.split(",")), fval(v)) for k, v in tbl.items()) + "]"


def cq_layout(layout):
    return ("{| lay_pre := %s; lay_post := %s; lay_fill := lookup (X:=list string) %s []; "
            "lay_pad := lookup (X:=nat*nat*nat) %s (0,0,0); lay_lower := lookup (X:=bool) %s false; "
            "lay_tok2 := lookup (X:=string) %s \"0\"; lay_tok3 := lookup (X:=string) %s \"1.00\" |}" % (
                cq_list(layout.get("pre", [])), cq_list(layout.get("post", [])),
                cq_table(layout.get("fill", {}), cq_list),
                cq_table(layout.get("pad", {}), lambda p: "(%d,%d,%d)" % tuple(p)),
                cq_table(layout.get("lower", {}), lambda b: "true" if b else "false"),
                cq_table(layout.get("tok2", {}), cq),
                cq_table(layout.get("tok3", {}), cq)))


def cq_shell(sh):
    l, exps, cols = sh
    return "(%d, %s, %s)" % (l, cq_list(exps), cq_list(cols, lambda c: cq_list(c)))


def cq_dict(d):
    return "[" + "; ".join("(%s, %s)" % (cq(sym), cq_list(shells, cq_shell)) for sym, shells in d) + "]"


PRELUDE = """From Coq Require Import List String.
From GB Require Import Model.Parsers Model.ParsersRun.
Import ListNotations.
Open Scope string_scope. Open Scope list_scope. Open Scope nat_scope.
Set Printing Width 1000000.
Set Printing Depth 1000000.
"""

_RES = re.compile(r'^\s+= "(.*)"$')


class CoqRun:
    """Evaluates closed Coq terms of type string, in batches, several coqc processes in parallel."""

    def __init__(self):
        self.dir = os.path.join(WORK, "c18_run_%d" % os.getpid())
        os.makedirs(self.dir, exist_ok=True)
        self.nfile = itertools.count()
        self.lock = threading.Lock()
        self.ncalls = 0
        self.wall = 0.0

    def _one(self, args):
        k, chunk = args
        path = os.path.join(self.dir, "cases_c18_%d.v" % k)
        with open(path, "w") as f:
            f.write(PRELUDE)
            for n, (defs, expr) in chunk:
                f.write(defs)
                f.write('Eval vm_compute in "@@%d".\n' % n)
                f.write("Eval vm_compute in (%s).\n" % expr)
        p = subprocess.run(["timeout", "600", "coqc", "-noglob", "-Q", COQ_DIR, "GB", path], cwd=self.dir,
                           capture_output=True, text=True)
        if p.returncode != 0:
            raise RuntimeError("coqc failed on %s (rc=%d): %s" % (path, p.returncode, (p.stderr or p.stdout)[-1500:]))
        vals = []
        for line in p.stdout.split("\n"):
            m = _RES.match(line)
            if m:
                vals.append(m.group(1).replace('""', '"'))
        out = {}
        if len(vals) != 2 * len(chunk):
            raise RuntimeError("cannot parse coqc output of %s: %d strings for %d expressions"
                               % (path, len(vals), len(chunk)))
        for (n, _), mark, val in zip(chunk, vals[0::2], vals[1::2]):
            if mark != "@@%d" % n:
                raise RuntimeError("marker mismatch in output of %s: %s vs @@%d" % (path, mark, n))
            out[n] = val
        for ext in (".v", ".vo", ".vok", ".vos", ".glob"):
            try:
                os.remove(path[:-2] + ext)
            except OSError:
                pass
        try:
            os.remove(os.path.join(self.dir, ".cases_c18_%d.aux" % k))
        except OSError:
            pass
        return out

    def eval(self, items):
        """items: list of (defs, expr); returns the list of result strings."""
        t0 = time.time()
        numbered = list(enumerate(items))
        chunks = []
        # keep files modest: at most BATCH expressions and ~BATCH_CHARS of text each
        cur, size = [], 0
        for n, it in numbered:
            sz = len(it[0]) + len(it[1])
            if cur and (len(cur) >= BATCH or size + sz > BATCH_CHARS):
                chunks.append(cur)
                cur, size = [], 0
            cur.append((n, it))
            size += sz
        if cur:
            chunks.append(cur)
        jobs = [(next(self.nfile), ch) for ch in chunks]
        res = {}
        if len(jobs) == 1:
            res.update(self._one(jobs[0]))
        else:
            with ThreadPoolExecutor(NPAR) as ex:
                for r in ex.map(self._one, jobs):
                    res.update(r)
        with self.lock:
            self.ncalls += len(jobs)
            self.wall += time.time() - t0
        return [res[n] for n in range(len(items))]

    def close(self):
        shutil.rmtree(self.dir, ignore_errors=True)


# ------------------------------------------------------------------------------------------------
# model expressions and parsing of the serialized results
# ------------------------------------------------------------------------------------------------
def case_lines(case):
    if case["kind"] == "nwchem":
        return print_nwchem(case["ast"], case["layout"])
    return print_gbs(case["ast"], case["layout"])


def lines_before_first(case):
    """Number of lines before the first element header: the pre lines and the fillers printed before it."""
    lay = case["layout"]
    first = "0" if case["kind"] == "gbs" else "0,0"
    return len(lay.get("pre", [])) + len(lay.get("fill", {}).get(first, []))


def model_items(case, idx, check):
    """Coq items (defs, expr) for one case (a list with one item)."""
    kind = case["kind"]
    if kind in ("nwchem", "gbs"):
        lines = case_lines(case)
        if check:   # the lines are used twice: name them
            name = "lines_%d" % idx
            defs = "Definition %s : list string := %s.\n" % (name, cq_list(lines))
        else:
            name, defs = cq_list(lines), ""
        if kind == "nwchem":
            expr = "ser_odict (parse_nwchem_model %s)" % name
        else:
            expr = "ser_odict (parse_gbs_model close_lit %s)" % name
        if check:   # one expression per case: result ~ flags
            lay = case["layout"]
            if kind == "nwchem":
                chk = "check_nw %s %s %s %s" % (cq_ast(case["ast"]), cq_layout(lay), name, cq_list(fillers_of(lay)))
            else:
                t2 = list(lay.get("tok2", {}).values()) + ["0"]
                t3 = list(lay.get("tok3", {}).values()) + ["1.00"]
                chk = "check_gbs %s %s %s %s %s %s" % (cq_ast(case["ast"]), cq_layout(lay), name,
                                                      cq_list(fillers_of(lay)), cq_list(t2), cq_list(t3))
            expr = '(%s) +++ "~" +++ (%s)' % (expr, chk)
        return [(defs, expr)]
    if kind == "mc":
        d = [(sym, [(sh["l"], [repr(float(e)) for e in sh["exps"]],
                     [[repr(float(row[m])) for row in sh["coeffs"]] for m in range(len(sh["coeffs"][0]))])
                    for sh in shells]) for sym, shells in case["basis"]]
        ct = case["ctypes"]
        if ct["as"] == "str":
            cts = "CStr %s" % cq(ct["v"])
        else:
            cts = "%s %s" % ("CList" if ct["as"] == "list" else "CTuple", cq_list(ct["v"]))
        return [("", "ser_mc (make_contractions_model (C:=nat) (%s, %s, %s, %s))" % (
            cq_dict(d), cq_list(case["atoms"]), cq_nats(range(len(case["coords"]))), cts))]
    if kind == "pyscf":
        basis = "[" + "; ".join(
            "(%s, [%s])" % (cq(sym), "; ".join(
                "(%d, [%s])" % (sh[0], "; ".join(
                    "(%s, %s)" % (cq(repr(float(row[0]))), cq_list([repr(float(c)) for c in row[1:]]))
                    for row in sh[1:])) for sh in shells)) for sym, shells in case["basis"]) + "]"
        atoms = "[" + "; ".join("(%s, %d)" % (cq(a[0]), i) for i, a in enumerate(case["atoms"])) + "]"
        return [("", "ser_pyscf (from_pyscf_model (C:=nat) (N:=string) %s %s %s)" % (
            atoms, basis, "true" if case["cart"] else "false"))]
    raise ValueError(kind)


def parse_ser_shell(s):
    parts = s.split("/")
    exps = parts[1].split(",") if parts[1] else []
    cols = [p.split(",") if p else [] for p in parts[2:]]
    return [int(parts[0]), [lit_float(e) for e in exps], [[lit_float(c) for c in col] for col in cols]]


def parse_ser_dict(body):
    out = []
    if body == "":
        return out
    for el in body.split("|"):
        sym, rest = el.split(":", 1)
        out.append([sym, [parse_ser_shell(sh) for sh in rest.split(";")] if rest else []])
    return out


def parse_ser_odict(s):
    return None if s == "N" else parse_ser_dict(s[1:])


# ------------------------------------------------------------------------------------------------
# implementation side: parsers
# ------------------------------------------------------------------------------------------------
def norm_impl_dict(d):
    out = []
    for sym, shells in d.items():
        ss = []
        for (l, exps, coeffs) in shells:
            arr = np.asarray(coeffs, dtype=float)
            if arr.ndim == 1:  # split SP shells of parse_nwchem (accepted, see ASSUMPTIONS)
                arr = arr.reshape(-1, 1) if arr.size else arr.reshape(0, 0)
            ss.append([int(l), [float(x) for x in np.asarray(exps, dtype=float).ravel().tolist()],
                       [[float(x) for x in col] for col in arr.T.tolist()]])
        out.append([str(sym), ss])
    return out


def first_diff(a, b, path=""):
    if isinstance(a, list) and isinstance(b, list):
        if len(a) != len(b):
            return "%s: lengths %d vs %d" % (path or "top", len(a), len(b))
        for i, (x, y) in enumerate(zip(a, b)):
            d = first_diff(x, y, "%s[%d]" % (path, i))
            if d:
                return d
        return None
    if type(a) is not type(b) or a != b:
        return "%s: %r vs %r" % (path or "top", a, b)
    return None


def brief(d):
    s = json.dumps(d)
    return s if len(s) <= 600 else s[:600] + "..."


def summary(d):
    return [[sym, [[sh[0], len(sh[1]), len(sh[2])] for sh in shells]] for sym, shells in d]


def eval_parser(case, mres, mchk):
    """Compare the implementation with the model's answer; returns the outcome dict."""
    from gbasis.parsers import parse_gbs, parse_nwchem

    kind = case["kind"]
    stream = case.get("stream", "wf")
    lines = case_lines(case)
    npre = lines_before_first(case)
    tag = "%s %s pre=%s" % (kind, stream, npre if npre < 3 else "many")
    if mchk is not None:
        want = "print=T;wf=%s;fill=T" % ("T" if stream == "wf" else "F")
        if kind == "gbs":
            want += ";tok=T"
        got = mchk
        if stream != "wf":  # duplicate symbols / fusing blocks: wf is not required there
            got = re.sub(r"wf=[TF]", "wf=F", got)
        if got != want:
            raise RuntimeError("in-Coq check of the generated file failed (%s) for case %s" % (mchk, brief(case)))
    model = parse_ser_odict(mres)
    os.makedirs(FILES, exist_ok=True)
    path = os.path.join(FILES, "%s_%d_%d.%s" % (case_hash(case), os.getpid(), next(_FILE_NO),
                                                "nwchem" if kind == "nwchem" else "gbs"))
    with open(path, "w", newline="\n") as f:
        f.write("\n".join(lines) + "\n")
    try:
        st, impl = call_impl(parse_nwchem if kind == "nwchem" else parse_gbs, path)
        if st == "ok":
            # normalisation touches the returned arrays only; a failure there is treated like a raise
            st2, nimpl = call_impl(norm_impl_dict, impl)
            if st2 != "ok":
                st, impl = "rejected", "result not of the documented form: " + nimpl
            else:
                impl = nimpl
    finally:
        try:
            os.remove(path)
        except OSError:
            pass
    nshell = sum(len(b[0]) if len(b[0]) > 1 else 1 for e in case["ast"] for b in e[1])
    nontriv = nshell >= 2 or any(l > 0 for e in case["ast"] for b in e[1] for l in b[0]) or \
        any(len(b[1]) > 1 for e in case["ast"] for b in e[1])
    out = {"nontrivial": bool(nontriv), "tag": tag, "detail": None}
    if model is None:
        if st == "ok":
            raise RuntimeError("model answers None on a generated file (implementation returns a value): %s"
                               % brief(case))
        raise RuntimeError("model answers None on a generated file: %s" % brief(case))
    if st != "ok":
        out["detail"] = {"kind": "rejected", "impl": impl, "model": brief(summary(model)), "pre_lines": npre,
                         "file": lines[:12]}
        return out
    d = first_diff(impl, model)
    if d is not None:
        out["detail"] = {"kind": "value", "against": "model", "where": d, "impl": brief(impl), "model": brief(model),
                         "impl_keys": [e[0] for e in impl], "model_keys": [e[0] for e in model], "pre_lines": npre,
                         "file": lines[:12]}
        return out
    if stream == "wf":
        d = first_diff(impl, expected(case["ast"]))
        if d is not None:
            out["detail"] = {"kind": "value", "against": "ast", "where": d, "impl": brief(impl),
                             "expected": brief(expected(case["ast"])), "pre_lines": npre, "file": lines[:12]}
    return out


# ------------------------------------------------------------------------------------------------
# implementation side: make_contractions, from_pyscf
# ------------------------------------------------------------------------------------------------
def snap_array(a):
    return (a.tobytes(), a.dtype.str, a.shape)


def snap_basis(bd):
    return [(k, [(l, snap_array(e), snap_array(c)) for (l, e, c) in v]) for k, v in bd.items()]


def norm_shell(sh, with_ic=True):
    co = np.asarray(sh.coeffs)
    return [sh.icenter if with_ic else None, [float(x) for x in np.asarray(sh.coord).tolist()], int(sh.angmom),
            [float(x) for x in np.asarray(sh.exps).tolist()],
            [[float(x) for x in col] for col in co.T.tolist()], sh.coord_type]


def ser_py_dict(bd):
    """The caller's basis_dict after the call, in the format of ParsersRun.ser_dict."""
    els = []
    for sym, shells in bd.items():
        ss = []
        for (l, e, c) in shells:
            c2 = c.reshape(-1, 1) if c.ndim == 1 else c
            ss.append("/".join([str(l), ",".join(repr(float(x)) for x in e)] +
                               [",".join(repr(float(x)) for x in col) for col in c2.T.tolist()]))
        els.append(sym + ":" + ";".join(ss))
    return "|".join(els)


def ser_py_ctypes(ct):
    if isinstance(ct, str):
        return "s=" + ct
    return ("l=" if isinstance(ct, list) else "t=") + ",".join(str(x) for x in ct)


def eval_mc(case, mres):
    from gbasis.parsers import make_contractions

    stream = case.get("stream", "valid")
    ct = case["ctypes"]
    tag = "mc %s %s" % (stream, ct["as"])
    bd = {}
    for sym, shells in case["basis"]:
        bd[sym] = []
        for sh in shells:
            co = np.array(sh["coeffs"], dtype=float)
            if sh.get("flat") and co.shape[1] == 1:
                co = co[:, 0].copy()
            bd[sym].append((sh["l"], np.array(sh["exps"], dtype=float), co))
    atoms = list(case["atoms"]) if case["atoms_as"] == "list" else tuple(case["atoms"])
    coords = np.array(case["coords"], dtype=float).reshape(-1, 3)
    ctv = ct["v"] if ct["as"] == "str" else (list(ct["v"]) if ct["as"] == "list" else tuple(ct["v"]))
    coords0 = coords.copy()
    before = (snap_basis(bd), (type(atoms).__name__, list(atoms)), snap_array(coords),
              (type(ctv).__name__, copy.deepcopy(ctv)))
    mres_res, mres_args = mres.split("!", 1)
    if mres_res == "N":
        model = None
    else:
        model = []
        for it in (mres_res[1:].split("|") if len(mres_res) > 1 else []):
            ic, ci, sh, ty = it.split("@")
            l, e, cols = parse_ser_shell(sh)
            model.append([int(ic), [float(x) for x in coords0[int(ci)].tolist()], l, e, cols, ty])
    if (model is None) != (stream == "invalid"):
        raise RuntimeError("generator and model disagree on validity: %s" % brief(case))

    def after():
        now = (snap_basis(bd), (type(atoms).__name__, list(atoms)), snap_array(coords),
               (type(ctv).__name__, copy.deepcopy(ctv)))
        which = [n for n, a, b in zip(("basis_dict", "atoms", "coords", "coord_types"), before, now) if a != b]
        ser = "#".join([ser_py_dict(bd), ",".join(atoms), ",".join(str(i) for i in range(coords.shape[0])),
                        ser_py_ctypes(ctv)])
        if not which and ser != mres_args:
            raise RuntimeError("argument serialisation differs from the model's although the snapshot is equal: "
                               "%s vs %s" % (ser, mres_args))
        return which

    out = {"nontrivial": True, "tag": tag, "detail": None}
    results = []
    for ncall in (1, 2):
        st, r = call_impl(make_contractions, bd, atoms, coords, ctv)
        if st == "ok":
            st2, nr = call_impl(lambda t: [norm_shell(s) for s in t], r)
            st, r = (st2, nr) if st2 == "ok" else ("rejected", "result not of the documented form: " + nr)
        results.append((st, r, after()))
    (st1, r1, mod1), (st2, r2, mod2) = results
    det = None
    if model is None:
        if st1 == "ok" or st2 == "ok":
            det = {"kind": "accepted-invalid", "impl": brief(r1 if st1 == "ok" else r2),
                   "reason": case.get("reason")}
        elif mod1 or mod2:
            det = {"kind": "args-modified", "which": mod1 or mod2, "note": "call rejected (as the model says) but "
                   "an argument object was altered", "reason": case.get("reason")}
    else:
        if st1 != "ok":
            det = {"kind": "rejected", "impl": r1, "coord_types_as": ct["as"]}
        elif first_diff(r1, model) is not None:
            det = {"kind": "value", "where": first_diff(r1, model), "impl": brief(r1), "model": brief(model)}
        elif mod1:
            det = {"kind": "args-modified", "which": mod1, "after_first_call": ser_py_ctypes(ctv),
                   "second_call": st2 if st2 == "ok" else r2}
        elif st2 != "ok":
            det = {"kind": "second-call-differs", "second_call": r2}
        elif first_diff(r2, r1) is not None:
            det = {"kind": "second-call-differs", "where": first_diff(r2, r1)}
        elif mod2:
            det = {"kind": "args-modified", "which": mod2, "call": 2}
    out["detail"] = det
    return out


def eval_pyscf(case, mres):
    from gbasis.wrappers import from_pyscf

    class Mole:  # the name is what wrappers.from_pyscf looks at (:287)
        pass

    mol = Mole()
    mol._basis = {sym: copy.deepcopy(shells) for sym, shells in case["basis"]}
    mol._atom = [(a[0], list(a[1])) for a in case["atoms"]]
    mol.cart = bool(case["cart"])
    before = (copy.deepcopy(mol._basis), copy.deepcopy(mol._atom), mol.cart, list(mol._basis.keys()))
    if mres == "N":
        model = None
    else:
        model = []
        for it in (mres[1:].split("|") if len(mres) > 1 else []):
            l, ci, e, rows, ty = it.split("@")
            rows = [[float(x) for x in r.split(",")] if r else [] for r in rows.split("/")]
            ncol = len(rows[0])
            model.append([None, [float(x) for x in case["atoms"][int(ci)][1]], int(l),
                          [float(x) for x in e.split(",")],
                          [[row[m] for row in rows] for m in range(ncol)], ty])
    stream = case.get("stream", "valid")
    if (model is None) != (stream == "invalid"):
        raise RuntimeError("generator and model disagree on validity: %s" % brief(case))
    out = {"nontrivial": True, "tag": "pyscf %s %s" % (stream, "cart" if case["cart"] else "sph"), "detail": None}
    results = []
    for ncall in (1, 2):
        st, r = call_impl(from_pyscf, mol)
        if st == "ok":
            st2, nr = call_impl(lambda t: [norm_shell(s, with_ic=False) for s in t], r)
            st, r = (st2, nr) if st2 == "ok" else ("rejected", "result not of the documented form: " + nr)
        now = (mol._basis, mol._atom, mol.cart, list(mol._basis.keys()))
        results.append((st, r, [n for n, a, b in zip(("_basis", "_atom", "cart", "_basis keys"), before, now)
                                if a != b]))
    (st1, r1, mod1), (st2, r2, mod2) = results
    det = None
    if model is None:
        if st1 == "ok" or st2 == "ok":
            det = {"kind": "accepted-invalid", "impl": brief(r1 if st1 == "ok" else r2)}
        elif mod1 or mod2:
            det = {"kind": "args-modified", "which": mod1 or mod2}
    elif st1 != "ok":
        det = {"kind": "rejected", "impl": r1}
    elif first_diff(r1, model) is not None:
        det = {"kind": "value", "where": first_diff(r1, model), "impl": brief(r1), "model": brief(model)}
    elif mod1 or mod2:
        det = {"kind": "args-modified", "which": mod1 or mod2}
    elif st2 != "ok" or first_diff(r2, r1) is not None:
        det = {"kind": "second-call-differs", "second_call": r2 if st2 != "ok" else first_diff(r2, r1)}
    out["detail"] = det
    return out


# ------------------------------------------------------------------------------------------------
# evaluating a list of cases (model in batches, implementation in-process)
# ------------------------------------------------------------------------------------------------
def evaluate(coq, cases, checks):
    """Returns the list of outcome dicts; checks[i] says whether the in-Coq printer check is done."""
    items, owner = [], []
    for i, (c, chk) in enumerate(zip(cases, checks)):
        its = model_items(c, i, chk and c["kind"] in ("nwchem", "gbs"))
        for it in its:
            items.append(it)
            owner.append(i)
    vals = coq.eval(items)
    per = {}
    for i, v in zip(owner, vals):
        per.setdefault(i, []).append(v)
    outs = []
    for i, c in enumerate(cases):
        v = per[i]
        if c["kind"] in ("nwchem", "gbs"):
            res, _, chk = v[0].partition("~")
            outs.append(eval_parser(c, res, chk if "~" in v[0] else None))
        elif c["kind"] == "mc":
            outs.append(eval_mc(c, v[0]))
        else:
            outs.append(eval_pyscf(c, v[0]))
    return outs


# ------------------------------------------------------------------------------------------------
# generators
# ------------------------------------------------------------------------------------------------
SYMS = ["H", "He", "Li", "Be", "B", "C", "N", "O", "F", "Ne", "Na", "Cl", "Kr", "Zn", "U", "Og", "Xx", "D", "E", "S",
        "P", "K"]


def gen_symbols(rng, n):
    out = []
    while len(out) < n:
        s = rng.choice(SYMS)
        r = rng.random()
        if r < 0.08:
            s = s.lower()
        elif r < 0.16:
            s = s.upper()
        elif r < 0.20:
            s = "".join(rng.choice("ABCDEFGHIJKLMNOPQRSTUVWXYZabcdefghijklmnopqrstuvwxyz")
                        for _ in range(rng.randint(1, 2)))
        if s not in out:
            out.append(s)
    return out


def digits(rng, n, first_nonzero=False):
    s = "".join(rng.choice("0123456789") for _ in range(n))
    if first_nonzero and s[0] == "0":
        s = rng.choice("123456789") + s[1:]
    return s


def gen_lit(rng, style, coef):
    """One number literal satisfying wf_lit; exponents (coef=False) are positive."""
    while True:
        sign = rng.choice(["", "", "", "-", "-", "+"]) if coef else rng.choice(["", "", "", "", "", "+"])
        if style == "plain":
            ip = rng.choice(["0", digits(rng, 1), digits(rng, rng.randint(2, 5), True)])
            lit = sign + ip + "." + digits(rng, rng.randint(1, 10))
        elif style in ("E", "D"):
            form = rng.random()
            if form < 0.6:
                mant = "0." + digits(rng, rng.randint(4, 10), True)
            elif form < 0.9:
                mant = digits(rng, 1, True) + "." + digits(rng, rng.randint(1, 6))
            else:
                mant = digits(rng, 1, True)
            es = rng.choice(["+", "-", "+", "-", ""]) if "." in mant else rng.choice(["+", "-"])
            lit = sign + mant + style + es + rng.choice(["0", "00", "01", "02", "03", "1", "2", "4"])
        else:  # odd but legal spellings
            lit = sign + rng.choice([".5", "5.", "1.E+01", ".25E+01", "00.50", "3.D-01", "12.", ".0625", "7.5E0"])
        if not wf_lit(lit):
            raise RuntimeError("generator produced a literal outside wf_lit: " + lit)
        v = lit_float(lit)
        if not coef and not v > 0:
            continue
        return lit


def pick_style(rng, file_style):
    if file_style == "mixed":
        return rng.choices(["plain", "E", "D", "odd"], [4, 3, 3, 1])[0]
    return file_style if rng.random() < 0.9 else rng.choices(["plain", "E", "D", "odd"], [4, 3, 3, 1])[0]


def gen_block(rng, file_style, small, ls=None):
    if ls is None:
        r = rng.random()
        if r < 0.70:
            ls = [rng.choice([0, 0, 1, 1, 2, 2, 3, 4, 5, 6, 7])]
        elif r < 0.90:
            ls = [0, 1]
        elif r < 0.96:
            ls = [0, 1, 2]
        else:
            n = rng.randint(2, 3)
            ls = []
            while len(ls) < n:
                l = rng.randint(0, 7)
                if not ls or ls[-1] != l:
                    ls.append(l)
    k = rng.choice([1, 1, 2, 3, 3, 4, 6] if small else [1, 1, 2, 3, 4, 6, 8, 10])
    m = len(ls) if len(ls) > 1 else rng.choice([1, 1, 1, 2, 3] if small else [1, 1, 1, 2, 2, 3, 4, 6])
    exps = [gen_lit(rng, pick_style(rng, file_style), False) for _ in range(k)]
    cols = [[gen_lit(rng, pick_style(rng, file_style), True) for _ in range(k)] for _ in range(m)]
    return [ls, exps, cols]


NW_FILL = ["#BASIS SET: (6s) -> [1s]", "#BASIS SET: (12s,6p) -> [2s,1p]", "# comment", "#", "", "   ", "",
           "# H S", "# 1.0 2.0", "#  STO-6G  EMSL  Basis Set Exchange Library  4/8/19 4:05 PM"]
NW_PRE = NW_FILL + ['BASIS "ao basis" PRINT', 'BASIS "ao basis" PRINT', "# Elements      References",
                    "basis spherical", "# --------", "H S P", "1.0", "abc S", "1.0 x", "H  S!"]
GBS_FILL = ["! comment", "!", "", "   ", "", "!----------------------------------------------------------------------",
            "! Basis set: 6-31G", "!  H 0", "! S 3 1.00 x", "****"]
GBS_PRE = GBS_FILL[:-1] + ["! Basis Set Exchange", "! Version v0.8.12", "! https://www.basissetexchange.org",
                           "!        Role: orbital", "H 0 0", "S 3 1.00 !", "-H 0", "spherical basis set"]


def gen_garbage(rng, ok):
    for _ in range(50):
        n = rng.randint(1, 24)
        s = "".join(rng.choice(" !\"#$%&'()*+,-./0123456789:;<=>?@ABCDEFGHIJKLMNOPQRSTUVWXYZ[\\]^_`abcdefghijklmnopqrstu"
                               "vwxyz{|}~    ") for _ in range(n))
        if ok(s):
            return s
    return ""


def gen_filler(rng, pool, ok):
    if rng.random() < 0.12:
        return gen_garbage(rng, ok)
    s = rng.choice(pool)
    if not ok(s):
        raise RuntimeError("filler pool entry rejected by the filler predicate: %r" % s)
    return s


def gen_pad(rng):
    return [rng.choice([0, 0, 1, 2, 4, 5, 6, 8]), rng.choice([0, 0, 1, 2, 3, 6, 12]), rng.choice([0, 0, 0, 1, 2, 3])]


def gen_layout(rng, kind, ast, npre):
    gbs = kind == "gbs"
    ok = filler_gbs if gbs else filler_nw
    pre_pool, fill_pool = (GBS_PRE, GBS_FILL[:-1]) if gbs else (NW_PRE, NW_FILL)
    lay = {"pre": [], "post": [], "fill": {}, "pad": {}, "lower": {}, "tok2": {}, "tok3": {}}
    if npre == 1:
        r = rng.random()
        lay["pre"] = [rng.choice(["", "  "]) if r < 0.25 else gen_filler(rng, pre_pool, ok)]
    elif npre >= 2:
        if rng.random() < 0.15:
            lay["pre"] = [rng.choice(["", " "]) for _ in range(npre)]     # only blank lines
        else:
            lay["pre"] = [gen_filler(rng, pre_pool, ok) for _ in range(npre)]
    plain = rng.random() < 0.25     # a quarter of the files: no blanks beyond the minimum, no fillers
    pfill = 0.0 if plain else rng.choice([0.0, 0.3, 0.6])
    prow = 0.0 if plain else rng.choice([0.0, 0.0, 0.05])
    ppad = 0.0 if plain else rng.choice([0.3, 0.7, 1.0])
    plow = 0.0 if plain else rng.choice([0.0, 0.2, 1.0])
    tok3 = rng.choice(["1.00", "1.00", "1.0", "0.50"])

    def deco(pos, header):
        k = key(pos)
        if k != "0,0" and rng.random() < (pfill if header else prow):
            lay["fill"][k] = [gen_filler(rng, fill_pool, ok) for _ in range(rng.randint(1, 2))]
        if rng.random() < ppad:
            lay["pad"][k] = gen_pad(rng)
        if header and rng.random() < plow:
            lay["lower"][k] = True

    for i, (sym, blocks) in enumerate(ast):
        if gbs:
            k = key([i])
            if rng.random() < ppad:
                lay["pad"][k] = gen_pad(rng)
            fl = []
            if i > 0 and rng.random() < 0.9:
                fl.append("****")
            if i > 0 and rng.random() < pfill:   # lines before the first element are the pre lines only
                fl.append(gen_filler(rng, fill_pool, ok))
            if fl:
                lay["fill"][k] = fl
            lay["tok2"][k] = "0"
        for j, block in enumerate(blocks):
            if gbs:
                for m, (ls, exps, cols) in enumerate(gbs_subblocks(block)):
                    deco([i, j, m], True)
                    lay["tok2"][key([i, j, m])] = str(len(exps))
                    if tok3 != "1.00":
                        lay["tok3"][key([i, j, m])] = tok3
                    for kk in range(len(exps)):
                        deco([i, j, m, kk], False)
            else:
                deco([i, j], True)
                for kk in range(len(block[1])):
                    deco([i, j, kk], False)
    r = rng.random()
    if gbs:
        lay["post"] = [] if r < 0.15 else ["****"] if r < 0.7 else ["****", ""] if r < 0.85 else ["****", "", "! end"]
    else:
        lay["post"] = [] if r < 0.25 else ["END"] if r < 0.75 else ["END", ""] if r < 0.9 else ["", "# end", "END"]
    for s in fillers_of(lay):
        if not ok(s):
            raise RuntimeError("generated filler rejected by the filler predicate: %r" % s)
    return {k: v for k, v in lay.items() if v or k in ("pre", "post")}


def pick_npre(rng):
    r = rng.random()
    return 0 if r < 0.3 else 1 if r < 0.6 else 2 if r < 0.75 else rng.randint(3, 12)


def gen_parser_case(rng, kind, stream, small, check):
    gbs = kind == "gbs"
    for _ in range(200):
        file_style = rng.choice(["mixed", "mixed", "plain", "E", "D"])
        ne = rng.choice([1, 1, 2, 2, 3] if small else [1, 2, 2, 3, 4, 5])
        syms = gen_symbols(rng, ne)
        ast = []
        for s in syms:
            nb = rng.choice([1, 2, 2, 3, 4] if small else [1, 2, 3, 4, 6, 8])
            ast.append([s, [gen_block(rng, file_style, small) for _ in range(nb)]])
        if stream == "merge":       # gbs: blocks that the parser must fuse; S followed by SP; repeated symbol
            e = rng.choice(ast)
            j = rng.randrange(len(e[1]))
            b = e[1][j]
            what = rng.choice(["same", "s-sp", "repeat", "same", "chain", "chain"])
            if what == "same":
                l = b[0][0] if len(b[0]) == 1 else 0
                b2 = gen_block(rng, file_style, True, ls=[l])
                k = len(b2[1])
                nb = gen_block(rng, file_style, True, ls=[l])
                while len(nb[1]) != k:
                    nb = gen_block(rng, file_style, True, ls=[l])
                nb[1] = list(b2[1])
                e[1][j:j + 1] = [b2, nb]
            elif what == "chain":
                # 2-3 consecutive blocks sharing one exponent list, each a single-l or a combined (SP, SPD, ...)
                # block: P then SP, SP then P, SP then SP, D then SPD, ... (the merge rule looks at the shell
                # appended last, which for a combined block changes from one angular momentum to the next)
                first = gen_block(rng, file_style, True)
                chain = [first]
                lpool = sorted(set(first[0]) | {0, 1, 2})
                for _ in range(rng.randint(1, 2)):
                    r = rng.random()
                    ls = [rng.choice(lpool)] if r < 0.4 else [0, 1] if r < 0.75 else [0, 1, 2] if r < 0.9 else None
                    nb = gen_block(rng, file_style, True, ls=ls)
                    while len(nb[1]) != len(first[1]):
                        nb = gen_block(rng, file_style, True, ls=ls)
                    nb[1] = list(first[1])
                    chain.append(nb)
                e[1][j:j + 1] = chain
            elif what == "s-sp":
                s = gen_block(rng, file_style, True, ls=[0])
                sp = gen_block(rng, file_style, True, ls=[0, 1])
                while len(sp[1]) != len(s[1]):
                    sp = gen_block(rng, file_style, True, ls=[0, 1])
                sp[1] = list(s[1])
                e[1][j:j + 1] = [s, sp]
            else:
                src = rng.choice(ast)
                ast.insert(rng.randint(0, len(ast)), [src[0], [gen_block(rng, file_style, True) for _ in range(2)]])
        elif stream == "repeat":    # nwchem: a symbol appears again later in the file
            src = rng.choice(ast)
            other = gen_symbols(rng, 1)[0]
            if other not in [e[0] for e in ast]:
                ast.append([other, [gen_block(rng, file_style, True)]])
            ast.append([src[0], [gen_block(rng, file_style, True) for _ in range(rng.randint(1, 2))]])
        case = {"kind": kind, "stream": stream, "ast": ast, "layout": None, "check_print": bool(check)}
        case["layout"] = gen_layout(rng, kind, ast, pick_npre(rng))
        if valid_parser_case(case) and (not gbs or stream != "wf" or no_fuse(ast)):
            return case
    raise RuntimeError("could not generate a valid %s case" % kind)


def dyadic(rng, lo, hi, den):
    return rng.randint(lo, hi) / den


def gen_mc_basis(rng, nel):
    basis = []
    for sym in gen_symbols(rng, nel):
        shells = []
        for _ in range(rng.choice([1, 1, 2, 3])):
            k = rng.choice([1, 1, 2, 3])
            m = rng.choice([1, 1, 2, 3])
            exps = []
            while len(exps) < k:
                e = dyadic(rng, 1, 400, 8)
                if e not in exps:
                    exps.append(e)
            coeffs = [[rng.choice([-1, 1]) * dyadic(rng, 1, 24, 8) for _ in range(m)] for _ in range(k)]
            shells.append({"l": rng.choice([0, 0, 1, 1, 2, 3, 4, 7]), "exps": exps, "coeffs": coeffs,
                           "flat": m == 1 and rng.random() < 0.3})
        basis.append([sym, shells])
    return basis


TYPES = ["cartesian", "spherical", "c", "p"]


def gen_mc_case(rng, invalid=False):
    basis = gen_mc_basis(rng, rng.randint(1, 4))
    syms = [b[0] for b in basis]
    nat = rng.randint(1, 5)
    atoms = [rng.choice(syms) for _ in range(nat)]
    if nat >= 2 and rng.random() < 0.6:
        atoms[rng.randrange(1, nat)] = atoms[0]     # a repeated element
    coords = [[dyadic(rng, -64, 64, 16) for _ in range(3)] for _ in range(nat)]
    nsh = sum(len(dict((b[0], b[1]) for b in basis)[a]) for a in atoms)
    form = rng.choice(["str", "list", "list", "tuple", "tuple"])
    v = rng.choice(TYPES) if form == "str" else [rng.choice(TYPES) for _ in range(nsh)]
    case = {"kind": "mc", "stream": "valid", "basis": basis, "atoms": atoms,
            "atoms_as": rng.choice(["list", "tuple"]), "coords": coords, "ctypes": {"as": form, "v": v}}
    if invalid:
        case["stream"] = "invalid"
        why = rng.choice(["length", "length", "type-str", "type-item", "atom", "natoms"])
        if why == "length":
            form = rng.choice(["list", "tuple"])
            n = rng.choice([x for x in (0, nsh - 1, nsh + 1, nsh + 3) if x >= 0 and x != nsh])
            case["ctypes"] = {"as": form, "v": [rng.choice(TYPES) for _ in range(n)]}
        elif why == "type-str":
            case["ctypes"] = {"as": "str", "v": rng.choice(["sph", "cart", "Cartesian", "s", "pure", "x"])}
        elif why == "type-item":
            form = rng.choice(["list", "tuple"])
            v = [rng.choice(TYPES) for _ in range(nsh)]
            v[rng.randrange(nsh)] = rng.choice(["sph", "cart", "Spherical", "s", "x"])
            case["ctypes"] = {"as": form, "v": v}
        elif why == "atom":
            bad = "Qq" if "Qq" not in syms else "Zz"
            case["atoms"][rng.randrange(nat)] = bad
        else:
            if nat > 1 and rng.random() < 0.5:
                case["coords"] = coords[:-1]
            else:
                case["coords"] = coords + [[0.0, 0.0, 0.0]]
        case["reason"] = why
    return case


def gen_pyscf_case(rng, invalid=False):
    basis = []
    for sym, shells in gen_mc_basis(rng, rng.randint(1, 3)):
        basis.append([sym, [[sh["l"]] + [[e] + row for e, row in zip(sh["exps"], sh["coeffs"])] for sh in shells]])
    syms = [b[0] for b in basis]
    nat = rng.randint(1, 5)
    atoms = [[rng.choice(syms), [dyadic(rng, -64, 64, 16) for _ in range(3)]] for _ in range(nat)]
    case = {"kind": "pyscf", "stream": "valid", "basis": basis, "atoms": atoms, "cart": rng.random() < 0.5}
    if invalid:
        case["stream"] = "invalid"
        atoms[rng.randrange(nat)][0] = "Qq" if "Qq" not in syms else "Zz"
    return case


def gen_cases(tier, seed):
    rng = random.Random(1000003 * seed + 18)
    mult = 1 if tier == "quick" else 10
    cases = []
    for kind, alt in (("nwchem", "repeat"), ("gbs", "merge")):
        for i in range(60 * mult):
            stream = alt if i % 7 == 3 else "wf"
            small = tier == "quick" and i % 3 != 0
            cases.append(gen_parser_case(rng, kind, stream, small, check=(i % 5 == 0)))
    # the Gaussian94 merge rule is the most intricate piece of parser state: a dedicated stream of small files
    # whose consecutive blocks share exponent lists (single-l and combined blocks in every order)
    for i in range(45 * mult):
        cases.append(gen_parser_case(rng, "gbs", "merge", True, check=(i % 9 == 0)))
    for i in range(40 * mult):
        cases.append(gen_mc_case(rng, invalid=(i % 5 == 4)))
    for i in range(10 * mult):
        cases.append(gen_pyscf_case(rng, invalid=(i % 10 == 9)))
    return cases


# ------------------------------------------------------------------------------------------------
# shrinking
# ------------------------------------------------------------------------------------------------
def remap_layout(layout, f):
    new = {"pre": list(layout.get("pre", [])), "post": list(layout.get("post", []))}
    for field in ("fill", "pad", "lower", "tok2", "tok3"):
        tbl = {}
        for k, v in layout.get(field, {}).items():
            q = f(tuple(int(x) for x in k.split(",")))
            if q is not None:
                tbl[key(q)] = v
        if tbl:
            new[field] = tbl
    return new


def drop_at(pos, depth, prefix, idx):
    """Position after deleting index `idx` at `depth` under `prefix` (None: the position disappears)."""
    if len(pos) > depth and tuple(pos[:depth]) == tuple(prefix):
        if pos[depth] == idx:
            return None
        if pos[depth] > idx:
            return pos[:depth] + (pos[depth] - 1,) + pos[depth + 1:]
    return pos


def shrink_parser(case):
    gbs = case["kind"] == "gbs"
    ast, lay = case["ast"], case["layout"]

    def mk(ast2, lay2):
        c = dict(case)
        c["ast"], c["layout"], c["check_print"] = ast2, lay2, False
        return c

    # big steps first: bare layout, first element only, first block only, first primitive / column only
    if any(lay.get(f) for f in ("fill", "pad", "lower", "tok2", "tok3")):
        yield mk(ast, {"pre": lay.get("pre", []), "post": lay.get("post", [])})
    if len(ast) > 1:
        yield mk(ast[:1], remap_layout(lay, lambda p: p if p[0] == 0 else None))
    if any(len(e[1]) > 1 for e in ast):
        yield mk([[e[0], e[1][:1]] for e in ast], remap_layout(lay, lambda p: p if len(p) < 2 or p[1] == 0 else None))
    if any(len(b[1]) > 1 or (len(b[0]) == 1 and len(b[2]) > 1) for e in ast for b in e[1]):
        def first_only(b):
            ls, exps, cols = b
            cols = cols[:1] if len(ls) == 1 else cols
            return [ls, exps[:1], [col[:1] for col in cols]]

        def f(p):
            if gbs:
                return None if (len(p) >= 3 and p[2] != 0) or (len(p) == 4 and p[3] != 0) else p
            return None if len(p) == 3 and p[2] != 0 else p
        yield mk([[e[0], [first_only(b) for b in e[1]]] for e in ast], remap_layout(lay, f))
    if lay.get("post"):
        yield mk(ast, dict(lay, post=[]))
    pre = lay.get("pre", [])
    if len(pre) > 1:
        yield mk(ast, dict(lay, pre=pre[:len(pre) // 2]))
        yield mk(ast, dict(lay, pre=pre[1:]))
    elif len(pre) == 1 and pre[0] not in ("#", "!"):
        yield mk(ast, dict(lay, pre=["!" if gbs else "#"]))
    # elements
    if len(ast) > 1:
        for i in range(len(ast)):
            yield mk(ast[:i] + ast[i + 1:], remap_layout(lay, lambda p, i=i: drop_at(p, 0, (), i)))
    # blocks
    for i, (sym, blocks) in enumerate(ast):
        if len(blocks) > 1:
            for j in range(len(blocks)):
                a2 = ast[:i] + [[sym, blocks[:j] + blocks[j + 1:]]] + ast[i + 1:]
                yield mk(a2, remap_layout(lay, lambda p, i=i, j=j: drop_at(p, 1, (i,), j)))
    # primitives, columns, letters
    for i, (sym, blocks) in enumerate(ast):
        for j, (ls, exps, cols) in enumerate(blocks):
            def with_block(b, lay2):
                return mk(ast[:i] + [[sym, blocks[:j] + [b] + blocks[j + 1:]]] + ast[i + 1:], lay2)
            if len(exps) > 1:
                for k in ([None] if len(exps) > 2 else []) + list(range(len(exps))):
                    keep = [0] if k is None else [x for x in range(len(exps)) if x != k]
                    b = [ls, [exps[x] for x in keep], [[col[x] for x in keep] for col in cols]]

                    def f(p, keep=keep):
                        depth = 3 if gbs else 2
                        if len(p) == depth + 1 and p[:2] == (i, j):
                            return p[:depth] + (keep.index(p[depth]),) if p[depth] in keep else None
                        return p
                    yield with_block(b, remap_layout(lay, f))
            if len(ls) == 1 and len(cols) > 1:
                for c in range(len(cols)):
                    b = [ls, exps, cols[:c] + cols[c + 1:]]
                    if gbs:
                        yield with_block(b, remap_layout(lay, lambda p, c=c: drop_at(p, 2, (i, j), c)))
                    else:
                        yield with_block(b, lay)
            if len(ls) > 1:
                for c in range(len(ls)):
                    yield with_block([ls[:c] + ls[c + 1:], exps, cols[:c] + cols[c + 1:]], lay)
            if len(ls) == 1 and ls[0] > 0:
                yield with_block([[0], exps, cols], lay)
    # plain numbers, all exponents distinct
    n = [0]

    def simple(b):
        ls, exps, cols = b
        e2 = []
        for _ in exps:
            n[0] += 1
            e2.append("%d.5" % n[0])
        return [ls, e2, [["1.0" for _ in col] for col in cols]]
    a2 = [[sym, [simple(b) for b in blocks]] for sym, blocks in ast]
    if a2 != ast:
        yield mk(a2, lay)
    syms = [e[0] for e in ast]
    if len(set(syms)) == len(syms) and any(s != t for s, t in zip(syms, ["H", "He", "Li", "Be", "B"])):
        yield mk([[t, e[1]] for e, t in zip(ast, ["H", "He", "Li", "Be", "B"])], lay)


def mc_offsets(case):
    bd = dict((b[0], b[1]) for b in case["basis"])
    offs, n = [], 0
    for a in case["atoms"]:
        offs.append((n, n + len(bd[a])))
        n += len(bd[a])
    return offs


def shrink_mc(case):
    if case.get("stream") != "valid":
        return
    ct = case["ctypes"]
    offs = mc_offsets(case)
    nat = len(case["atoms"])
    if nat > 1:
        for a in range(nat):
            c = copy.deepcopy(case)
            del c["atoms"][a]
            del c["coords"][a]
            if ct["as"] != "str":
                c["ctypes"]["v"] = ct["v"][:offs[a][0]] + ct["v"][offs[a][1]:]
            yield c
    used = set(case["atoms"])
    if any(b[0] not in used for b in case["basis"]):
        c = copy.deepcopy(case)
        c["basis"] = [b for b in c["basis"] if b[0] in used]
        yield c
    for bi, (sym, shells) in enumerate(case["basis"]):
        if len(shells) > 1 and sym in used:
            for si in range(len(shells)):
                c = copy.deepcopy(case)
                del c["basis"][bi][1][si]
                if ct["as"] != "str":
                    v = []
                    for a, (lo, hi) in zip(case["atoms"], offs):
                        seg = ct["v"][lo:hi]
                        if a == sym:
                            seg = seg[:si] + seg[si + 1:]
                        v += seg
                    c["ctypes"]["v"] = v
                yield c
    for bi, (sym, shells) in enumerate(case["basis"]):
        for si, sh in enumerate(shells):
            if len(sh["exps"]) > 1 or len(sh["coeffs"][0]) > 1 or sh["l"] > 0:
                c = copy.deepcopy(case)
                c["basis"][bi][1][si] = {"l": 0, "exps": sh["exps"][:1], "coeffs": [sh["coeffs"][0][:1]],
                                         "flat": False}
                yield c
            elif sh["exps"] != [1.0] or sh["coeffs"] != [[1.0]] or sh.get("flat"):
                c = copy.deepcopy(case)
                c["basis"][bi][1][si] = {"l": 0, "exps": [1.0], "coeffs": [[1.0]], "flat": False}
                yield c
    if any(x != 0.0 for row in case["coords"] for x in row):
        c = copy.deepcopy(case)
        c["coords"] = [[float(i), 0.0, 0.0] for i in range(len(case["coords"]))]
        if c["coords"] != case["coords"]:
            yield c


def shrink_pyscf(case):
    if case.get("stream") != "valid":
        return
    if len(case["atoms"]) > 1:
        for a in range(len(case["atoms"])):
            c = copy.deepcopy(case)
            del c["atoms"][a]
            yield c
    used = set(a[0] for a in case["atoms"])
    if any(b[0] not in used for b in case["basis"]):
        c = copy.deepcopy(case)
        c["basis"] = [b for b in c["basis"] if b[0] in used]
        yield c
    for bi, (sym, shells) in enumerate(case["basis"]):
        if len(shells) > 1:
            for si in range(len(shells)):
                c = copy.deepcopy(case)
                del c["basis"][bi][1][si]
                yield c


def candidates(case):
    if case["kind"] in ("nwchem", "gbs"):
        for c in shrink_parser(case):
            if valid_parser_case(c):
                yield c
    elif case["kind"] == "mc":
        yield from shrink_mc(case)
    else:
        yield from shrink_pyscf(case)


def shrink(coq, case, detail, rounds=14, per_round=16):
    """Greedy shrinking; one batched coqc call per round. Keeps the detail kind."""
    for _ in range(rounds):
        cands = []
        for c in candidates(case):
            cands.append(c)
            if len(cands) >= per_round:
                break
        if not cands:
            break
        try:
            outs = evaluate(coq, cands, [False] * len(cands))
        except RuntimeError:
            # a candidate left the modelled fragment: evaluate one by one, skipping those
            outs = []
            for c in cands:
                try:
                    outs.append(evaluate(coq, [c], [False])[0])
                except RuntimeError:
                    outs.append({"detail": None})
        hit = None
        for c, o in zip(cands, outs):
            d = o.get("detail")
            if d is not None and d["kind"] == detail["kind"]:
                hit = (c, d)
                break
        if hit is None:
            break
        case, detail = hit
    return case, detail


# ------------------------------------------------------------------------------------------------
def run(rep, tier, seed, model, replay):
    coq = CoqRun()
    try:
        if replay is not None:
            cases = [replay["case"]]
            checks = [True]
        else:
            cases = gen_cases(tier, seed)
            checks = [bool(c.get("check_print")) for c in cases]
        outs = evaluate(coq, cases, checks)
        viol = []
        for c, o in zip(cases, outs):
            rep.count(c, nontrivial=o["nontrivial"], tag=o["tag"])
            if o["detail"] is not None:
                viol.append((c, o["detail"]))
        per_kind, per_case_kind, todo = {}, {}, []
        for c, d in viol:      # written: at most 10 per case kind; shrunk: the first 2 of every (case kind, detail kind)
            k = (c["kind"], d["kind"])
            per_kind[k] = per_kind.get(k, 0) + 1
            first = per_kind[k] <= 2 and replay is None
            if first or per_case_kind.get(c["kind"], 0) < 10:
                per_case_kind[c["kind"]] = per_case_kind.get(c["kind"], 0) + 1
                todo.append((c, d, first))

        def work(item):
            c, d, do_shrink = item
            if do_shrink:
                c, d = shrink(coq, c, d)
                if c["kind"] in ("nwchem", "gbs"):
                    c = dict(c, check_print=True)
                    o = evaluate(coq, [c], [True])[0]   # printer tie re-checked inside Coq for the shrunk case
                    d = o["detail"] or d
            return c, d

        if todo:
            with ThreadPoolExecutor(6) as ex:
                done = list(ex.map(work, todo))
            seen = set()
            for c, d in done:
                h = case_hash(c)
                if h in seen:
                    continue
                seen.add(h)
                rep.violation(c, d)
        EXTRA.update({
            "model_evaluation": "in-Coq vm_compute, %d coqc batch files, %.1fs" % (coq.ncalls, coq.wall),
            "printer_tie_checked_in_coq": sum(1 for c, k in zip(cases, checks) if k and c["kind"] in ("nwchem", "gbs")),
            "violations_by_kind": {"%s/%s" % k: v for k, v in sorted(per_kind.items())},
        })
    except Exception:
        print("C18: harness error; generated Coq files kept in " + coq.dir)
        raise
    coq.close()
