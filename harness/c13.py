"""C13 — contractions behave as the linear combinations they denote.

Search / correspondence harness.  The PUBLIC API of the working tree is driven on a basis and on a
rewritten-but-equivalent basis; the two results must agree after the known index bookkeeping:

  segment   a generalized shell (K x M coefficients) -> M single-column shells sharing its primitives, listed
            in its place: SAME functions in the SAME order (no bookkeeping at all);
  perm      the primitives (exponent, coefficient row) of a shell listed in another order: unchanged;
  split     primitive (alpha, d) -> (alpha, d1), (alpha, d - d1): unchanged;
  scale     column m of a shell multiplied by k (|k| = c 2^e over 2^-20 .. 2^20, i.e. 1e-6 .. 1e6, both signs):
            contractions are renormalised, so k > 0 changes nothing and k < 0 flips the sign s = -1 of the
            functions of that column only: two-index results s_i s_j A_ij, one-index s_i A_i, four-index
            s_i s_j s_k s_l, density-type fields unchanged when the density matrix is carried along (S P S);
            a user transform T is carried along as T S.

Levels:
  "basis"  every integral and evaluation function on whole bases (1-3 shells, K 1-4, M 1-4, l 0-4, Cartesian /
           spherical / mixed, with and without a transform): overlap, overlap_asymm (rewritten basis on either
           side), kinetic, moment, momentum, angular momentum, point charge, nuclear attraction, electron repulsion
           (small bases, both notations), evaluate_basis, evaluate_deriv_basis (both back-ends), density,
           gradient, laplacian, hessian, both kinetic-energy densities, stress tensor, Ehrenfest force / Hessian,
           electrostatic potential.
  "block"  the shell-level construct_array_contraction of every kernel class (un-normalised): the (ma, mb) slice of
           the generalized block against the block of the single-column shells; every permutation of the
           primitives (all K! for K <= 4); splits; column factor k on the un-normalised block and 1/|k| on
           norm_cont; additivity and homogeneity in the coefficient matrix (un-normalised linearity).
Tolerance 1e-9 relative to the magnitude of the result (max |entry| of the array or, for stacked results, of the
slice; never below 1e-9 absolute for contraction-normalised quantities; at block level never below 1e-9 of the
magnitude of the terms, i.e. of the block with |coefficients|): scaling by 1e+-6 goes through the renormalisation, so
the comparison is relative to the normalised result.  Electron repulsion: 1e-6 (the accuracy clause of C04; two
evaluations of one integral through different quartets differ by the rounding of the recursion, up to 5e-9 seen for
exponent ratios of 4000).  For a seeded subset the exact Coq model
(runner commands 1-21, 100-102) is evaluated on BOTH the original and the rewritten input: implementation against
model (1e-8 of the scale) and model against model (1e-15: the executable model obeys the law it is proved to obey;
the residue is the 72-bit rounding of the oracle square roots of the renormalisation).
Exceptions are canonicalised to `rejected`; a valid input rejected on one side only is a disagreement.
  "setter" a shell object rewritten IN PLACE through its public setters (coeffs / exps) followed by the documented
           assign_norm_cont() must behave like the constructor-built shell (see SETTER_STREAM below).
Replay: ./check C13 --replay <file> re-runs exactly the minimised case.  No model command was added (the model
is evaluated by the existing runner)."""
import itertools
import math
import random
from fractions import Fraction

import numpy as np

import twoindex
from lib import XShell, call_impl, exp_cap, run_cases, short_float, shrink_shell_json, sx

RULE = ("basis level: 1-3 shells on 1-3 centres, every (K, M, l) in 1..4 x 1..4 x 0..4 occurs as the rewritten shell "
        "on every run (thorough: 10 times), Cartesian / spherical / mixed, centres k/16, exponents log-uniform "
        "0.02..cap(l) with 8-bit mantissas, coefficients k/8 with exact zeros; rewrites: segment, perm (quick: one "
        "seeded permutation incl. reversals; thorough: all K! permutations), split (adjacent or appended, |d1| up to "
        "8|d|, zero coefficients split too), scale (c 2^e, c in {1, 3/2, 5/4}, e drawn without replacement from "
        "-20..20, both signs), in 30% of the cases a second rewrite of another shell and in 15% segmentation after "
        "the rewrite; every public module on every case (ERI on bases of <= 12 Cartesian functions and l <= 2 (3 in "
        "thorough), Ehrenfest Hessian on a third, a transform on a quarter); block level: "
        "construct_array_contraction of all nine kernel classes for every (K, M) in 1..4^2 and l in 0..4 (ERI l <= "
        "1/2), partner shells with the same K and another M half of the time, all K! permutations, all column "
        "slices, splits, column factors and norm_cont, additivity / homogeneity; setter level: shells rewritten in "
        "place through the coeffs / exps setters + assign_norm_cont(); exact model on both sides for a seeded "
        "subset (l <= 2, K <= 3); stream wide-range (ERI only; quick 64 block + 3 basis cases): contracted shells spanning "
        "tight and diffuse exponents (s 98304/65536 with 1/4..1/2, p 8192 with 1/2, d 2 with 1/32, f 4 with 1/32 or "
        "5/16), quartets (pp|ff), (ss|ff), (ss|dd), (sp|df), the re-listed shell in each of the four positions, the "
        "other shells listed ascending or descending, every permutation (quick, K = 3: the reversal + two), and bases [tight "
        "shell, diffuse shell] through electron_repulsion_integral with every shell reversed. Non-trivial: the rewritten input differs from the original and the compared "
        "arrays are not identically zero; distinct by the hash of the exact input")
ASSUMPTIONS = [
    "floating-point rounding of the NumPy pipeline is not modelled: 'unchanged' is decided with tolerance 1e-9 "
    "relative to the magnitude of the (normalised) result",
    "the Coq theorems are about the executable models; the models are tied to /repo by this run (seeded subset) "
    "and by the checks of C01-C08",
    "column_scale: sqrt(k^2 x) = |k| sqrt x is a hypothesis of the generic theorem, discharged for the real "
    "square root (C13_sqrt_scale_R, C13_column_scale_R)",
]
EXTRA = {}
TOL = 1e-9
TOL_MODEL = 1e-8
TOL_MODEL_ERI = 1e-6
TOL_ERI = 1e-6
TOL_MM = 1e-15
# the fast runner rounds individual terms of long sums to multiples of 2^-400 (Base/Field.v, fapx): model values
# are meaningful down to ~1e-115 only; un-normalised blocks of primitive-normalised functions have natural scale 1
FLOOR_MODEL = 1e-100
# un-normalised blocks whose terms are all below ~1e-290 live in the subnormal range of double precision (far-apart
# tight shells: absolute error 2^-1074, no relative accuracy at all): nothing below this magnitude is compared
BLOCK_FLOOR = 1e-280

BLOCK_CLASSES = ["overlap", "kinetic", "moment", "momentum", "angmom", "pointcharge", "eval", "evalderiv", "eri"]


# ----------------------------------------------------------------------------------------------
# shells and rewrites
# ----------------------------------------------------------------------------------------------
def F(x):
    return Fraction(x)


def ncomp(s):
    return (2 * s.l + 1) if s.sph else (s.l + 1) * (s.l + 2) // 2


def gen_shell_km(rng, l, k, m, sph, coord=None, span=2):
    if coord is None:
        coord = [Fraction(rng.randint(-16 * span, 16 * span), 16) for _ in range(3)]
    exps = []
    while len(exps) < k:
        e = short_float(rng, 0.02, exp_cap(l), 8)
        if e not in exps:
            exps.append(e)
    while True:
        coeffs = [[Fraction(rng.choice([c for c in range(-16, 17) if c != 0]), 8) for _ in range(m)] for _ in range(k)]
        if k > 1 and rng.random() < 0.3:
            for col in range(m):
                keep = rng.randrange(k)
                for row in range(k):
                    if row != keep and rng.random() < 0.4:
                        coeffs[row][col] = Fraction(0)
        if all(any(coeffs[r][c] != 0 for r in range(k)) for c in range(m)):
            break
    return XShell(l, coord, exps, coeffs, sph)


def copy_shell(s, exps=None, coeffs=None):
    return XShell(s.l, list(s.coord), list(s.exps if exps is None else exps),
                  [list(r) for r in (s.coeffs if coeffs is None else coeffs)], s.sph, s.comps, s.labels)


def rw_shell(s, rw):
    """-> (list of shells replacing s, list of signs for the functions of s)"""
    t = rw["type"]
    k, m = len(s.exps), len(s.coeffs[0])
    nc = ncomp(s)
    if t == "segment":
        return [copy_shell(s, coeffs=[[row[j]] for row in s.coeffs]) for j in range(m)], [1] * (m * nc)
    if t == "perm":
        p = rw["perm"]
        return [copy_shell(s, exps=[s.exps[i] for i in p], coeffs=[s.coeffs[i] for i in p])], [1] * (m * nc)
    if t == "split":
        j = rw["prim"]
        d1 = [F(x) for x in rw["d1"]]
        d2 = [a - b for a, b in zip(s.coeffs[j], d1)]
        exps = list(s.exps)
        coeffs = [list(r) for r in s.coeffs]
        coeffs[j] = d1
        if rw.get("where") == "end":
            exps.append(s.exps[j])
            coeffs.append(d2)
        else:
            exps.insert(j + 1, s.exps[j])
            coeffs.insert(j + 1, d2)
        return [copy_shell(s, exps=exps, coeffs=coeffs)], [1] * (m * nc)
    if t == "scale":
        col, kk = rw["col"], F(rw["k"])
        coeffs = [[c * kk if j == col else c for j, c in enumerate(row)] for row in s.coeffs]
        sg = [(-1 if (kk < 0 and j == col) else 1) for j in range(m) for _ in range(nc)]
        return [copy_shell(s, coeffs=coeffs)], sg
    raise ValueError(t)


def rw_valid(s, rw):
    k, m = len(s.exps), len(s.coeffs[0])
    t = rw["type"]
    if t == "segment":
        return True
    if t == "perm":
        return sorted(rw["perm"]) == list(range(k))
    if t == "split":
        return rw["prim"] < k and len(rw["d1"]) == m
    if t == "scale":
        return rw["col"] < m and F(rw["k"]) != 0
    return False


def apply_rws(basis, rws):
    """rws: list of rewrites, each addressed to a shell index of the ORIGINAL basis (at most one per shell).
    -> (new basis, sign vector over the functions)"""
    by = {}
    for rw in rws:
        by.setdefault(rw["shell"], []).append(rw)
    out, signs = [], []
    for i, s in enumerate(basis):
        cur, sg = [s], [1] * (len(s.coeffs[0]) * ncomp(s))
        for rw in by.get(i, []):
            assert len(cur) == 1
            cur, sg2 = rw_shell(cur[0], rw)
            sg = [a * b for a, b in zip(sg, sg2)]
        out.extend(cur)
        signs.extend(sg)
    return out, signs


def rws_valid(basis, rws):
    seen_seg = set()
    for rw in rws:
        i = rw["shell"]
        if i >= len(basis) or i in seen_seg:
            return False
        # validity is checked against the shell as rewritten so far
        cur = basis[i]
        for prev in rws:
            if prev is rw:
                break
            if prev["shell"] == i:
                cur = rw_shell(cur, prev)[0][0]
        if not rw_valid(cur, rw):
            return False
        if rw["type"] == "segment":
            seen_seg.add(i)
    return True


# ----------------------------------------------------------------------------------------------
# comparison
# ----------------------------------------------------------------------------------------------
def apply_signs(arr, signs, kind):
    s = np.array(signs, dtype=float)
    a = np.asarray(arr)
    if kind == "two":
        return a * s.reshape((-1, 1) + (1,) * (a.ndim - 2)) * s.reshape((1, -1) + (1,) * (a.ndim - 2))
    if kind == "left" or kind == "one":
        return a * s.reshape((-1,) + (1,) * (a.ndim - 1))
    if kind == "right":
        return a * s.reshape((1, -1) + (1,) * (a.ndim - 2))
    if kind == "four":
        return (a * s.reshape(-1, 1, 1, 1) * s.reshape(1, -1, 1, 1) * s.reshape(1, 1, -1, 1) * s.reshape(1, 1, 1, -1))
    return a


def close(a, b, tol_rel, floor, what):
    """a, b arrays (complex allowed).  None if |a-b| <= tol_rel * max(floor, max|a|, max|b|), else a detail."""
    a = np.asarray(a)
    b = np.asarray(b)
    if a.shape != b.shape:
        return {"kind": "shape", "what": what, "a_shape": list(a.shape), "b_shape": list(b.shape)}
    if a.size == 0:
        return None
    if not np.all(np.isfinite(a)):
        return None      # the reference itself is not a number (overflow of an extreme input): nothing to compare
    if not np.all(np.isfinite(b)):
        return {"kind": "nonfinite", "what": what}
    scale = max(floor, float(np.max(np.abs(a))), float(np.max(np.abs(b))))
    diff = np.abs(a - b)
    worst = np.unravel_index(int(np.argmax(diff)), diff.shape)
    if diff[worst] > tol_rel * scale:
        return {"kind": "value", "what": what, "index": [int(i) for i in worst], "original": repr(complex(a[worst])
                if np.iscomplexobj(a) else float(a[worst])), "rewritten": repr(complex(b[worst])
                if np.iscomplexobj(b) else float(b[worst])), "abs_diff": float(diff[worst]), "tol": tol_rel * scale}
    return None


def _exp_ratio(shells):
    es = [float(e) for s in shells for e in s.exps]
    return max(es) / min(es)


def nested_to_np(x):
    return np.array(x, dtype=object).astype(float)


# ----------------------------------------------------------------------------------------------
# modules (public functions) at basis level
# ----------------------------------------------------------------------------------------------
def _aux_np(aux):
    d = {}
    d["C"] = np.array([float(F(c)) for c in aux["C"]])
    d["orders"] = np.array(aux["orders"], dtype=int)
    d["pc"] = np.array([[float(F(x)) for x in p[:3]] for p in aux["pts"]])
    d["pq"] = np.array([float(F(p[3])) for p in aux["pts"]])
    d["points"] = np.array([[float(F(x)) for x in p] for p in aux["points"]])
    d["dorders"] = [np.array(o, dtype=int) for o in aux["dorders"]]
    d["nuc"] = np.array([[float(F(x)) for x in p[:3]] for p in aux["nuc"]])
    d["nucq"] = np.array([float(F(p[3])) for p in aux["nuc"]])
    return d


def MODULES():
    from gbasis.evals import density as D
    from gbasis.evals import stress_tensor as ST
    from gbasis.evals.electrostatic_potential import electrostatic_potential
    from gbasis.evals.eval import evaluate_basis
    from gbasis.evals.eval_deriv import evaluate_deriv_basis
    from gbasis.integrals.angular_momentum import angular_momentum_integral
    from gbasis.integrals.electron_repulsion import electron_repulsion_integral
    from gbasis.integrals.kinetic_energy import kinetic_energy_integral
    from gbasis.integrals.moment import moment_integral
    from gbasis.integrals.momentum import momentum_integral
    from gbasis.integrals.nuclear_electron_attraction import nuclear_electron_attraction_integral
    from gbasis.integrals.overlap import overlap_integral
    from gbasis.integrals.point_charge import point_charge_integral

    # name -> (sign kind, floor, fn(gb, T, P, a))      P: density matrix in the (transformed) basis
    m = {}
    m["overlap"] = ("two", 1.0, lambda gb, T, P, a: overlap_integral(gb, transform=T))
    m["kinetic"] = ("two", 1.0, lambda gb, T, P, a: kinetic_energy_integral(gb, transform=T))
    m["moment"] = ("two", 1.0, lambda gb, T, P, a: moment_integral(gb, a["C"], a["orders"], transform=T))
    m["momentum"] = ("two", 1.0, lambda gb, T, P, a: momentum_integral(gb, transform=T))
    m["angmom"] = ("two", 1.0, lambda gb, T, P, a: angular_momentum_integral(gb, transform=T))
    m["pointcharge"] = ("two", 1.0, lambda gb, T, P, a: point_charge_integral(gb, a["pc"], a["pq"], transform=T))
    m["nuclear"] = ("two", 1.0, lambda gb, T, P, a: nuclear_electron_attraction_integral(gb, a["pc"], a["pq"],
                                                                                          transform=T))
    m["eri_phys"] = ("four", 1.0, lambda gb, T, P, a: electron_repulsion_integral(gb, transform=T,
                                                                                 notation="physicist"))
    m["eri_chem"] = ("four", 1.0, lambda gb, T, P, a: electron_repulsion_integral(gb, transform=T, notation="chemist"))
    m["eval"] = ("one", 1.0, lambda gb, T, P, a: evaluate_basis(gb, a["points"], transform=T))
    for i in range(2):
        m["evalderiv%d" % i] = ("one", 1.0, (lambda i: lambda gb, T, P, a: evaluate_deriv_basis(
            gb, a["points"], a["dorders"][i], transform=T, deriv_type="general"))(i))
    m["evalderiv_direct"] = ("one", 1.0, lambda gb, T, P, a: evaluate_deriv_basis(
        gb, a["points"], a["dorders"][2], transform=T, deriv_type="direct"))
    m["density"] = ("none", 1.0, lambda gb, T, P, a: D.evaluate_density(P, gb, a["points"], transform=T))
    m["density_deriv"] = ("none", 1.0, lambda gb, T, P, a: D.evaluate_deriv_density(a["dorders"][0], P, gb,
                                                                                    a["points"], transform=T))
    m["gradient"] = ("none", 1.0, lambda gb, T, P, a: D.evaluate_density_gradient(P, gb, a["points"], transform=T))
    m["laplacian"] = ("none", 1.0, lambda gb, T, P, a: D.evaluate_density_laplacian(P, gb, a["points"], transform=T))
    m["hessian"] = ("none", 1.0, lambda gb, T, P, a: D.evaluate_density_hessian(P, gb, a["points"], transform=T))
    m["ked_posdef"] = ("none", 1.0, lambda gb, T, P, a: D.evaluate_posdef_kinetic_energy_density(
        P, gb, a["points"], transform=T))
    m["ked_general"] = ("none", 1.0, lambda gb, T, P, a: D.evaluate_general_kinetic_energy_density(
        P, gb, a["points"], 0.75, transform=T))
    m["stress"] = ("none", 1.0, lambda gb, T, P, a: ST.evaluate_stress_tensor(P, gb, a["points"], 1, 0.5, transform=T))
    m["ehrenfest_force"] = ("none", 1.0, lambda gb, T, P, a: ST.evaluate_ehrenfest_force(P, gb, a["points"], 1, 0.5,
                                                                                         transform=T))
    m["ehrenfest_hessian"] = ("none", 1.0, lambda gb, T, P, a: ST.evaluate_ehrenfest_hessian(
        P, gb, a["points"], 1, 0.5, transform=T))
    m["esp"] = ("none", 1.0, lambda gb, T, P, a: electrostatic_potential(gb, P, a["points"], a["nuc"], a["nucq"],
                                                                       transform=T))
    return m


ALL_MODS = ["overlap", "overlap_asymm", "kinetic", "moment", "momentum", "angmom", "pointcharge", "nuclear",
            "eri_phys", "eri_chem", "eval", "evalderiv0", "evalderiv1", "evalderiv_direct", "density", "density_deriv",
            "gradient", "laplacian", "hessian", "ked_posdef", "ked_general", "stress", "ehrenfest_force",
            "ehrenfest_hessian", "esp"]

# model commands for the seeded subset: name -> (command builder, post on the implementation array)
def _model_cmd(name, basis, T, aux):
    b = twoindex.basis_sx(basis)
    t = twoindex.t_sx(T)
    pts = sx([[F(x) for x in p] for p in aux["pts"]])
    C = sx([F(c) for c in aux["C"]])
    points = sx([[F(x) for x in p] for p in aux["points"]])
    if name == "overlap":
        return "(2 %s %s)" % (b, t), None
    if name == "kinetic":
        return "(7 %s %s)" % (b, t), None
    if name == "moment":
        return "(9 %s %s %s %s)" % (C, sx(aux["orders"]), b, t), None
    if name == "momentum":
        return "(11 %s %s)" % (b, t), "mimag"
    if name == "angmom":
        return "(13 %s %s)" % (b, t), "mimag"
    if name == "pointcharge":
        return "(15 %s %s %s)" % (pts, b, t), None
    if name == "nuclear":
        return "(16 %s %s %s)" % (pts, b, t), None
    if name == "eri_phys":
        return "(21 %s %s 1)" % (b, t), None
    if name == "eri_chem":
        return "(21 %s %s 0)" % (b, t), None
    if name == "eval":
        return "(102 %s %s %s)" % (b, points, t), None
    if name in ("evalderiv0", "evalderiv1"):
        return "(101 %s %s %s %s 0)" % (b, points, sx(aux["dorders"][int(name[-1])]), t), None
    if name == "evalderiv_direct":
        return "(101 %s %s %s %s 1)" % (b, points, sx(aux["dorders"][2]), t), None
    return None, None


def _post(arr, post):
    if post == "mimag":   # value = -i R: the model returns R
        return -np.imag(arr)
    return arr


def _Tq(T):
    return None if T is None else [[F(x) for x in row] for row in T]


def _Tnp(Tq):
    return None if Tq is None else np.array([[float(x) for x in row] for row in Tq])


def eval_basis_case(model, case):
    basis = [XShell.from_json(s) for s in case["basis"]]
    rws = case["rws"]
    basis2, signs = apply_rws(basis, rws)
    aux = case["aux"]
    a = _aux_np(aux)
    Tq = _Tq(case.get("T"))
    nf = sum(s.nfun() for s in basis)
    assert nf == sum(s.nfun() for s in basis2) == len(signs)
    Tq2 = None if Tq is None else [[x * s for x, s in zip(row, signs)] for row in Tq]
    T, T2 = _Tnp(Tq), _Tnp(Tq2)
    Cm = np.array([[float(F(x)) for x in row] for row in case["Cm"]])
    P = Cm @ Cm.T
    sg = np.array(signs, dtype=float)
    P2 = P if Tq is not None else P * sg[:, None] * sg[None, :]
    gb = [s.to_gbasis() for s in basis]
    gb2 = [s.to_gbasis() for s in basis2]
    mods = MODULES()
    rtypes = "+".join(sorted(set(rw["type"] for rw in rws)))
    types = "".join("s" if s.sph else "c" for s in basis)
    tag = "basis %s n=%d %s%s%s" % (rtypes, len(basis), "mixed" if len(set(types)) > 1 else ("sph" if types[0] == "s"
                                                                                             else "cart"),
                                    " T" if Tq is not None else "", " wide-range" if case.get("stream") == "wide" else "")
    stats = {"mod:" + n: 1 for n in case["mods"]}
    for rw in rws:
        s = basis[rw["shell"]]
        stats["rewritten K=%d" % len(s.exps)] = 1
        stats["rewritten M=%d" % len(s.coeffs[0])] = 1
        stats["rewritten l=%d" % s.l] = 1
        if rw["type"] == "scale":
            kk = F(rw["k"])
            stats["scale %s 2^%d" % ("+" if kk > 0 else "-", int(math.floor(math.log2(abs(float(kk))) / 5.0)) * 5)] = 1
    changed = any(x.to_json() != y.to_json() for x, y in zip(basis, basis2)) or len(basis) != len(basis2)
    nonzero = False
    for name in case["mods"]:
        if name == "overlap_asymm":
            from gbasis.integrals.overlap_asymm import overlap_integral_asymmetric as oia
            st0, r0 = call_impl(oia, gb, gb, T, T)
            for side, kind in (("left", "left"), ("right", "right")):
                if side == "left":
                    st1, r1 = call_impl(oia, gb2, gb, T2, T)
                else:
                    st1, r1 = call_impl(oia, gb, gb2, T, T2)
                d = _judge("overlap_asymm/" + side, st0, r0, st1, r1, signs if Tq is None else None, kind, 1.0)
                if d:
                    return {"detail": d, "tag": tag, "stats": stats}
            continue
        kind, floor, fn = mods[name]
        st0, r0 = call_impl(fn, gb, T, P, a)
        st1, r1 = call_impl(fn, gb2, T2, P2, a)
        d = _judge(name, st0, r0, st1, r1, signs if Tq is None else None, kind, floor)
        if d:
            return {"detail": d, "tag": tag, "stats": stats}
        if st0 == "ok" and np.any(np.asarray(r0) != 0):
            nonzero = True
        # exact model on both sides
        if case.get("model") and st0 == "ok":
            cmd0, post = _model_cmd(name, basis, Tq, aux)
            if cmd0 is not None:
                cmd1, _ = _model_cmd(name, basis2, Tq2, aux)
                m0 = nested_to_np(model.call(cmd0))
                m1 = nested_to_np(model.call(cmd1))
                stats["model:" + name] = 1
                i0, i1 = _post(np.asarray(r0), post), _post(np.asarray(r1), post)
                pairs = (("impl-vs-model/original", i0, m0, TOL_MODEL), ("impl-vs-model/rewritten", i1, m1, TOL_MODEL))
                if name.startswith("eri"):
                    # exactness of the ERI is C04's subject (tolerance 1e-6 of the Schwarz bound there; accuracy
                    # for tight x diffuse quartets is its business): here only a loose tie, on benign exponents
                    pairs = [(w, x, y, TOL_MODEL_ERI) for (w, x, y, _) in pairs] if _exp_ratio(basis) <= 1e3 else []
                for what, x, y, tol in pairs:
                    d = close(x, y, tol, floor, name + " " + what)
                    if d:
                        d["module"] = name
                        return {"detail": d, "tag": tag, "stats": stats}
                m1s = apply_signs(m1, signs, kind) if Tq is None else m1
                d = close(m0, m1s, TOL_MM, floor, name + " model-vs-model")
                if d:
                    d["module"] = name
                    d["note"] = "the exact model itself does not obey the law: model defect, not an implementation defect"
                    return {"detail": d, "tag": tag, "stats": stats}
    return {"detail": None, "nontrivial": bool(changed and nonzero), "tag": tag, "stats": stats}


def _tol_of(name):
    # electron repulsion: the accuracy of the floating-point recursion itself is C04's subject (1e-6 of the Schwarz
    # bound there, and it depends on the bra/ket orientation of tight x diffuse quartets); two evaluations of the same
    # integral through different shell quartets (segmented basis) or another summation order inherit that accuracy
    return TOL_ERI if name.startswith("eri") else TOL


def _judge(name, st0, r0, st1, r1, signs, kind, floor):
    if st0 != "ok" or st1 != "ok":
        if st0 == st1:
            return None     # both sides refuse the same request: nothing to compare
        return {"kind": "rejected-one-side", "module": name, "original": st0 if st0 != "ok" else "ok",
                "rewritten": st1 if st1 != "ok" else "ok", "impl": str(r0 if st0 != "ok" else r1)[:300]}
    r0 = np.asarray(r0)
    r1 = np.asarray(r1)
    if signs is not None and r0.shape == r1.shape:
        r1 = apply_signs(r1, signs, kind)
    # stacked results (moments, momentum, point charges): each slice of the last axis has its own magnitude
    if kind == "two" and r0.ndim == 3 and r0.shape == r1.shape:
        for k in range(r0.shape[2]):
            d = close(r0[:, :, k], r1[:, :, k], TOL, floor, "%s[..., %d]" % (name, k))
            if d:
                d["module"] = name
                return d
        return None
    d = close(r0, r1, _tol_of(name), floor, name)
    if d:
        d["module"] = name
    return d


# ----------------------------------------------------------------------------------------------
# block level: construct_array_contraction of every kernel class
# ----------------------------------------------------------------------------------------------
def _block_impl(cls, shells, aux):
    """shells: list of gbasis shells (2, or 1 for eval classes, or 4 for eri)"""
    a = aux
    if cls == "overlap":
        from gbasis.integrals.overlap import Overlap
        return Overlap.construct_array_contraction(shells[0], shells[1])
    if cls == "kinetic":
        from gbasis.integrals.kinetic_energy import KineticEnergyIntegral
        return KineticEnergyIntegral.construct_array_contraction(shells[0], shells[1])
    if cls == "moment":
        from gbasis.integrals.moment import Moment
        return Moment.construct_array_contraction(shells[0], shells[1], a["C"], a["orders"])
    if cls == "momentum":
        from gbasis.integrals.momentum import MomentumIntegral
        return MomentumIntegral.construct_array_contraction(shells[0], shells[1])
    if cls == "angmom":
        from gbasis.integrals.angular_momentum import AngularMomentumIntegral
        return AngularMomentumIntegral.construct_array_contraction(shells[0], shells[1])
    if cls == "pointcharge":
        from gbasis.integrals.point_charge import PointChargeIntegral
        return PointChargeIntegral.construct_array_contraction(shells[0], shells[1], a["pc"], a["pq"])
    if cls == "eval":
        from gbasis.evals.eval import Eval
        return Eval.construct_array_contraction(shells[0], a["points"])
    if cls == "evalderiv":
        from gbasis.evals.eval_deriv import EvalDeriv
        return EvalDeriv.construct_array_contraction(shells[0], a["points"], a["dorders"][0])
    if cls == "eri":
        from gbasis.integrals.electron_repulsion import ElectronRepulsionIntegral
        return ElectronRepulsionIntegral.construct_array_contraction(*shells)
    raise ValueError(cls)


def _block_model_cmd(cls, xs, aux):
    if cls == "overlap":
        return "(1 %s %s)" % (xs[0].sx(), xs[1].sx()), None
    if cls == "kinetic":
        return "(6 %s %s)" % (xs[0].sx(), xs[1].sx()), None
    if cls == "moment":
        return "(8 %s %s %s %s)" % (sx([F(c) for c in aux["C"]]), sx(aux["orders"]), xs[0].sx(), xs[1].sx()), None
    if cls == "momentum":
        return "(10 %s %s)" % (xs[0].sx(), xs[1].sx()), "mimag"
    if cls == "angmom":
        return "(12 %s %s)" % (xs[0].sx(), xs[1].sx()), "mimag"
    if cls == "pointcharge":
        return "(14 %s %s %s)" % (sx([[F(x) for x in p] for p in aux["pts"]]), xs[0].sx(), xs[1].sx()), None
    if cls == "eri":
        return "(20 %s %s %s %s)" % tuple(x.sx() for x in xs), None
    if cls == "evalderiv":
        return "(100 %s %s %s 0)" % (xs[0].sx(), sx([[F(x) for x in p] for p in aux["points"]]),
                                     sx(aux["dorders"][0])), None
    if cls == "eval":
        return "(100 %s %s (0 0 0) 0)" % (xs[0].sx(), sx([[F(x) for x in p] for p in aux["points"]])), None
    return None, None


def _seg_axis(cls, pos):
    """axis of the segment index of shell number pos in the block"""
    return 2 * pos


def eval_block_case(model, case):
    cls = case["cls"]
    xs = [XShell.from_json(s) for s in case["shells"]]
    pos = case["pos"]
    rw = case["rw"]
    aux = case["aux"]
    a = _aux_np(aux)
    s = xs[pos]
    k, m = len(s.exps), len(s.coeffs[0])
    tag = "block %s %s%s" % (cls, rw["type"], " wide-range" if case.get("stream") == "wide" else "")
    stats = {"block K=%d" % k: 1, "block M=%d" % m: 1, "block l=%d" % s.l: 1}

    def blk(shells):
        return call_impl(_block_impl, cls, [x.to_gbasis() for x in shells], a)

    def with_shell(new):
        return xs[:pos] + [new] + xs[pos + 1:]

    def term_scale(shells):
        """magnitude of the terms behind the block: the block of the same shells with every coefficient replaced
        by its absolute value.  A split may add large cancelling terms (d1, d - d1 with |d1| >> |d|, or a split
        zero coefficient): their rounding noise is eps x this scale, whatever the size of the result."""
        ab = [copy_shell(x, coeffs=[[abs(c) for c in row] for row in x.coeffs]) for x in shells]
        st, b = blk(ab)
        if st != "ok":
            return BLOCK_FLOOR
        b = np.asarray(b)
        return max(BLOCK_FLOOR, float(np.max(np.abs(b)))) if b.size and np.all(np.isfinite(b)) else BLOCK_FLOOR

    tolb = _tol_of(cls)
    st0, b0 = blk(xs)
    if st0 != "ok":
        return {"detail": {"kind": "rejected", "module": cls, "impl": b0}, "tag": tag, "stats": stats}
    b0 = np.asarray(b0)
    ax = _seg_axis(cls, pos)
    nontriv = bool(np.any(b0 != 0))
    t = rw["type"]
    mdl = case.get("model")

    def model_pair(x0, x1, expect):
        """model on the original and on the rewritten shells: impl vs model on both, model vs model (expect maps m1)"""
        cmd0, post = _block_model_cmd(cls, x0, aux)
        if cmd0 is None:
            return None
        cmd1, _ = _block_model_cmd(cls, x1, aux)
        m0 = nested_to_np(model.call(cmd0))
        m1 = nested_to_np(model.call(cmd1))
        stats["model:block " + cls] = 1
        tolm = TOL_MODEL
        sides = (("original", x0, m0), ("rewritten", x1, m1))
        floor_m = FLOOR_MODEL
        if len(x0) == 2:
            # A two-index block may vanish IDENTICALLY by symmetry (angular momentum of an s function at the origin,
            # momentum between two s functions on one centre, odd moments, ...): the exact model returns 0 and the
            # implementation rounding noise of size eps x (terms that cancel).  The natural magnitude of those terms is
            # (overlap of |functions|) x (operator scale: lengths up to |r|, momenta up to sqrt(alpha)); allow 1e-13 of it.
            from gbasis.integrals.overlap import Overlap
            try:
                ab = [copy_shell(x, coeffs=[[abs(c) for c in row] for row in x.coeffs]) for x in x0]
                so = float(np.max(np.abs(np.asarray(Overlap.construct_array_contraction(ab[0].to_gbasis(), ab[1].to_gbasis())))))
            except Exception:  # noqa: BLE001
                so = 0.0
            rmax = max([1.0] + [abs(float(c)) for x in x0 for c in x.coord])
            emax = max(float(e) for x in x0 for e in x.exps)
            if np.isfinite(so):
                floor_m = max(FLOOR_MODEL, 1e-5 * so * (1.0 + rmax) ** 2 * ((1.0 + emax) if cls == "kinetic" else (1.0 + emax ** 0.5)))
        if cls == "eri":
            tolm = TOL_MODEL_ERI
            if _exp_ratio(x0) > 1e3:
                sides = ()
        for what, shells, mm in sides:
            st, bi = blk(shells)
            if st != "ok":
                return {"kind": "rejected", "module": cls, "impl": bi}
            # eps x (magnitude of the terms, incl. the large cancelling ones a split may add) must fit into tolm x floor
            fl = max(floor_m, 1e-7 * term_scale(shells)) if cls != "eri" else floor_m
            d = close(_post(np.asarray(bi), post), mm, tolm, fl, "%s block impl-vs-model/%s" % (cls, what))
            if d:
                d["module"] = cls
                return d
        d = close(expect(m0), m1, TOL_MM, FLOOR_MODEL, cls + " block model-vs-model")
        if d:
            d["module"] = cls
            d["note"] = "the exact model itself does not obey the law"
        return d

    if t == "segment":
        # every column of the rewritten shell (and, for two-index classes, of the partner) as its own shell
        for ma in range(m):
            col = rw_shell(s, {"type": "segment"})[0][ma]
            st1, b1 = blk(with_shell(col))
            if st1 != "ok":
                return {"detail": {"kind": "rejected-one-side", "module": cls, "impl": b1}, "tag": tag, "stats": stats}
            ref = np.take(b0, [ma], axis=ax)
            d = close(ref, np.asarray(b1), tolb, BLOCK_FLOOR, "%s block column %d of shell %d" % (cls, ma, pos))
            if d:
                d["module"] = cls
                return {"detail": d, "tag": tag, "stats": stats}
            # norm_cont of the single-column shell = row ma of the generalized shell's
            d = close(s.to_gbasis().norm_cont[ma:ma + 1], col.to_gbasis().norm_cont, TOL, BLOCK_FLOOR, "norm_cont row %d" % ma)
            if d:
                d["module"] = "norm_cont"
                return {"detail": d, "tag": tag, "stats": stats}
            if mdl and ma == m - 1:
                d = model_pair(xs, with_shell(col), lambda m0: np.take(m0, [ma], axis=ax))
                if d:
                    return {"detail": d, "tag": tag, "stats": stats}
        return {"detail": None, "nontrivial": nontriv and m > 1, "tag": tag, "stats": stats}

    if t in ("perm", "split"):
        new = rw_shell(s, rw)[0][0]
        st1, b1 = blk(with_shell(new))
        if st1 != "ok":
            return {"detail": {"kind": "rejected-one-side", "module": cls, "impl": b1}, "tag": tag, "stats": stats}
        d = close(b0, np.asarray(b1), tolb, term_scale(with_shell(new)), "%s block %s of shell %d" % (cls, t, pos))
        if d is None:
            d = close(s.to_gbasis().norm_cont, new.to_gbasis().norm_cont, TOL, BLOCK_FLOOR, "norm_cont")
            if d:
                d["module"] = "norm_cont"
        elif d:
            d["module"] = cls
        if d is None and mdl:
            d = model_pair(xs, with_shell(new), lambda m0: m0)
        return {"detail": d, "nontrivial": nontriv and new.to_json() != s.to_json(), "tag": tag, "stats": stats}

    if t == "scale":
        kk = F(rw["k"])
        new = rw_shell(s, rw)[0][0]
        st1, b1 = blk(with_shell(new))
        if st1 != "ok":
            return {"detail": {"kind": "rejected-one-side", "module": cls, "impl": b1}, "tag": tag, "stats": stats}
        fac = np.ones(m)
        fac[rw["col"]] = float(kk)
        shape = [1] * b0.ndim
        shape[ax] = m
        exp = b0 * fac.reshape(shape)
        d = None
        ts = term_scale(xs)
        for j in range(m):     # column by column: the scaled column has another magnitude
            d = close(np.take(exp, [j], axis=ax), np.take(np.asarray(b1), [j], axis=ax), tolb, max(BLOCK_FLOOR, abs(fac[j]) * ts),
                      "%s block column %d (factor %s on column %d)" % (cls, j, kk, rw["col"]))
            if d:
                d["module"] = cls
                break
        if d is None:
            n0, n1 = np.asarray(s.to_gbasis().norm_cont), np.asarray(new.to_gbasis().norm_cont)
            ncart = (s.l + 1) * (s.l + 2) // 2
            if n0.shape != (m, ncart) or n1.shape != (m, ncart):
                # documented shape of norm_cont: (number of segmented contractions, number of Cartesian components)
                d = {"kind": "shape", "module": "norm_cont", "impl_shape": [list(n0.shape), list(n1.shape)],
                     "expected_shape": [m, ncart]}
            for j in range(m if d is None else 0):
                d = close(n0[j] / (abs(float(kk)) if j == rw["col"] else 1.0), n1[j], TOL, BLOCK_FLOOR,
                          "norm_cont row %d after factor %s on column %d" % (j, kk, rw["col"]))
                if d:
                    d["module"] = "norm_cont"
                    break
        if d is None and mdl:
            d = model_pair(xs, with_shell(new), lambda m0: m0 * fac.reshape(shape))
        stats["scale %s 2^%d" % ("+" if kk > 0 else "-", int(math.floor(math.log2(abs(float(kk))) / 5.0)) * 5)] = 1
        return {"detail": d, "nontrivial": nontriv, "tag": tag, "stats": stats}

    if t == "lin":
        # un-normalised linearity in the coefficient matrix: block(C1 + C2) = block(C1) + block(C2), block(kC) = k block(C)
        C2 = [[F(x) for x in row] for row in rw["C2"]]
        kk = F(rw["k"])
        s2 = copy_shell(s, coeffs=C2)
        ssum = copy_shell(s, coeffs=[[x + y for x, y in zip(r1, r2)] for r1, r2 in zip(s.coeffs, C2)])
        sk = copy_shell(s, coeffs=[[kk * x for x in r] for r in s.coeffs])
        st2, b2 = blk(with_shell(s2))
        st3, b3 = blk(with_shell(ssum))
        st4, b4 = blk(with_shell(sk))
        if not (st2 == st3 == st4 == "ok"):
            return {"detail": {"kind": "rejected-one-side", "module": cls, "impl": str((b2, b3, b4))[:300]}, "tag": tag,
                    "stats": stats}
        b2, b3, b4 = np.asarray(b2), np.asarray(b3), np.asarray(b4)
        scale = max(term_scale(xs), term_scale(with_shell(s2)))
        d = close(b0 + b2, b3, tolb, scale, "%s block additivity in the coefficients of shell %d" % (cls, pos))
        if d is None:
            d = close(float(kk) * b0, b4, tolb, max(BLOCK_FLOOR, abs(float(kk)) * term_scale(xs)), "%s block homogeneity (k = %s) in the coefficients of shell %d"
                      % (cls, kk, pos))
        if d:
            d["module"] = cls
        if d is None and mdl:
            cmd0, _ = _block_model_cmd(cls, xs, aux)
            if cmd0 is not None:
                m0 = nested_to_np(model.call(cmd0))
                m2 = nested_to_np(model.call(_block_model_cmd(cls, with_shell(s2), aux)[0]))
                m3 = nested_to_np(model.call(_block_model_cmd(cls, with_shell(ssum), aux)[0]))
                stats["model:block " + cls] = 1
                d = close(m0 + m2, m3, TOL_MM, max(float(np.max(np.abs(m0))), float(np.max(np.abs(m2))), FLOOR_MODEL),
                          cls + " block model additivity")
                if d:
                    d["module"] = cls
                    d["note"] = "the exact model itself does not obey the law"
        return {"detail": d, "nontrivial": nontriv, "tag": tag, "stats": stats}
    raise ValueError(t)


def _valid_shells(shell_jsons):
    """every column of every coefficient matrix is non-zero (a zero column has no contraction norm)"""
    for sj in shell_jsons:
        k, m = len(sj["exps"]), len(sj["coeffs"][0])
        if any(all(F(sj["coeffs"][r][c]) == 0 for r in range(k)) for c in range(m)):
            return False
        if len(set(sj["exps"])) != k:
            return False
    return True


# A shell object can also be rewritten in place through its public setters (`shell.coeffs = ...`, `shell.exps = ...`).
# The setters do not touch `norm_cont` (assigned once by __init__); the class documents `assign_norm_cont()` as the
# public method that (re)assigns it.
#   "renormalise": mutate through the setters, then call assign_norm_cont(): must equal the constructor-built shell
#                  (a disagreement is a VIOLATION); the state BEFORE that call is only observed and counted in the
#                  evidence (`stat:setter: stale norm_cont before assign_norm_cont()`), see fixes/C13-setter-renormalise.md
#   "strict":      no call: the mutated object itself must behave as the shell it now denotes (VIOLATION on a tree
#                  whose setters leave norm_cont stale; passes with fixes/C13-setter-renormalise.patch applied)
SETTER_STREAM = "renormalise"


def eval_setter_case(model, case):
    from gbasis.evals.eval import evaluate_basis
    from gbasis.integrals.overlap import overlap_integral
    xs = [XShell.from_json(s) for s in case["shells"]]
    s = xs[0]
    rw = case["rw"]
    new = rw_shell(s, rw)[0][0]
    a = _aux_np(case["aux"])
    tag = "setter %s" % rw["type"]
    stats = {}

    def results(g):
        gb = [g] + [x.to_gbasis() for x in xs[1:]]
        return overlap_integral(gb), evaluate_basis(gb, a["points"])

    def mutate():
        g = s.to_gbasis()
        if rw["type"] == "perm":
            g.exps = np.array([float(e) for e in new.exps])
        g.coeffs = np.array([[float(c) for c in row] for row in new.coeffs])
        return g

    st_ref, ref = call_impl(results, new.to_gbasis())
    if st_ref != "ok":
        return {"detail": {"kind": "rejected", "module": "constructor", "impl": ref}, "tag": tag}
    g = mutate()
    st0, stale = call_impl(results, g)
    stale_differs = st0 != "ok" or any(close(x, y, TOL, 1.0, "setter") is not None for x, y in zip(ref, stale))
    if SETTER_STREAM == "strict":
        d = None
        if stale_differs:
            d = {"kind": "setter-stale-norm_cont", "module": "GeneralizedContractionShell setters",
                 "note": "a shell changed through its coeffs/exps setters keeps the normalisation constants of the old "
                         "contraction: results differ from those of the shell it now denotes",
                 "overlap_diag_mutated": repr(np.diag(stale[0]).tolist()) if st0 == "ok" else str(stale)[:200],
                 "overlap_diag_constructor": repr(np.diag(ref[0]).tolist())}
        return {"detail": d, "nontrivial": True, "tag": tag, "stats": stats}
    if stale_differs:
        stats["setter: stale norm_cont before assign_norm_cont()"] = 1
    g.assign_norm_cont()
    st1, fresh = call_impl(results, g)
    d = None
    if st1 != "ok":
        d = {"kind": "rejected-one-side", "module": "setters + assign_norm_cont", "impl": fresh}
    else:
        for nm, x, y in zip(("overlap_integral", "evaluate_basis"), ref, fresh):
            d = close(x, y, TOL, 1.0, nm + " after setters + assign_norm_cont() vs constructor")
            if d:
                d["module"] = nm
                break
    return {"detail": d, "nontrivial": True, "tag": tag, "stats": stats}


def eval_case(model, case):
    if not _valid_shells(case["basis"] if case["kind"] == "basis" else case["shells"]):
        return {"detail": None, "nontrivial": False, "tag": "invalid (zero column)"}     # only reachable by shrinking
    if case["kind"] == "basis":
        return eval_basis_case(model, case)
    if case["kind"] == "setter":
        return eval_setter_case(model, case)
    return eval_block_case(model, case)


# ----------------------------------------------------------------------------------------------
# generation
# ----------------------------------------------------------------------------------------------
SCALE_C = [Fraction(1), Fraction(3, 2), Fraction(5, 4)]


def gen_aux(rng, shells):
    centres = [list(s.coord) for s in shells]
    c = rng.choice(centres)
    C = [x + Fraction(rng.randint(-16, 16), 16) for x in c] if rng.random() < 0.7 else list(c)
    orders = [[rng.randint(0, 2) for _ in range(3)] for _ in range(rng.randint(1, 3))]
    pts = []
    for _ in range(2):
        cc = rng.choice(centres)
        pos = list(cc) if rng.random() < 0.25 else [x + Fraction(rng.randint(-24, 24), 16) for x in cc]
        q = Fraction(rng.choice([v for v in range(-24, 25) if v != 0]), 4)
        pts.append([str(x) for x in pos] + [str(q)])
    points = []
    while len(points) < 3:
        cc = rng.choice(centres)
        p = [x + Fraction(rng.randint(-20, 20), 16) for x in cc]
        if all(p != c2 for c2 in centres):      # the electrostatic potential divides by |r - R_nucleus|
            points.append([str(x) for x in p])
    dorders = []
    while len(dorders) < 2:
        o = [rng.randint(0, 3) for _ in range(3)]
        if 0 < sum(o) <= 4:
            dorders.append(o)
    while True:
        o = [rng.randint(0, 2) for _ in range(3)]
        if 0 < sum(o) <= 3:
            dorders.append(o)
            break
    nuc = [[str(x) for x in cc] + [str(1 + i)] for i, cc in enumerate(centres)]
    return {"C": [str(x) for x in C], "orders": orders, "pts": pts, "points": points, "dorders": dorders, "nuc": nuc}


def gen_rw(rng, s, shell_idx, rtype, e_pool=None, perm=None):
    k, m = len(s.exps), len(s.coeffs[0])
    if rtype == "segment":
        return {"type": "segment", "shell": shell_idx}
    if rtype == "perm":
        if perm is None:
            perm = list(range(k))
            if rng.random() < 0.3:
                perm.reverse()
            else:
                rng.shuffle(perm)
        return {"type": "perm", "shell": shell_idx, "perm": list(perm)}
    if rtype == "split":
        j = rng.randrange(k)
        d1 = []
        for c in s.coeffs[j]:
            mode = rng.random()
            if mode < 0.4:
                v = c / 2
            elif mode < 0.7:
                v = Fraction(rng.randint(-16, 16), 16)
            else:
                v = c * Fraction(rng.randint(-64, 64), 8)      # |d1| up to 8 |d|
            d1.append(v)
        return {"type": "split", "shell": shell_idx, "prim": j, "d1": [str(v) for v in d1],
                "where": "end" if rng.random() < 0.4 else "adjacent"}
    if rtype == "scale":
        e = e_pool.pop() if e_pool else rng.randint(-20, 20)
        kk = rng.choice(SCALE_C) * Fraction(2) ** e
        if rng.random() < 0.5:
            kk = -kk
        return {"type": "scale", "shell": shell_idx, "col": rng.randrange(m), "k": str(kk)}
    raise ValueError(rtype)


def gen_basis_around(rng, target, nshell, lmax_other):
    """a basis containing `target` at a random position; the other shells share / do not share its centre"""
    shells = []
    centres = [list(target.coord)]
    for _ in range(rng.randint(0, 2)):
        centres.append([Fraction(rng.randint(-32, 32), 16) for _ in range(3)])
    mode = rng.random()
    for _ in range(nshell - 1):
        sph = True if mode < 0.25 else (False if mode < 0.5 else (rng.random() < 0.5))
        shells.append(gen_shell_km(rng, rng.randint(0, lmax_other), rng.randint(1, 3), rng.randint(1, 3), sph,
                                   coord=list(rng.choice(centres))))
    pos = rng.randint(0, len(shells))
    shells.insert(pos, target)
    return shells, pos


def pick_mods(rng, basis, tier, i):
    nf = sum(s.nfun() for s in basis)
    mods = [m for m in ALL_MODS if not m.startswith("eri") and m != "ehrenfest_hessian"]
    lmax = max(s.l for s in basis)
    ncart = sum(len(s.coeffs[0]) * (s.l + 1) * (s.l + 2) // 2 for s in basis)
    if ncart <= 12 and lmax <= (2 if tier == "quick" else 3):     # a single g shell costs a minute
        mods.append("eri_phys" if i % 2 else "eri_chem")
    if i % 3 == 0 and lmax <= 2 and ncart <= 24:
        mods.append("ehrenfest_hessian")
    if tier == "quick" and (lmax >= 3 or ncart > 30) and i % 4 != 0:    # third derivatives of f / g shells: seconds each
        mods = [x for x in mods if x not in ("ehrenfest_force", "stress")]
    return mods


def make_basis_case(rng, basis, rws, tier, i, with_T, model):
    aux = gen_aux(rng, basis)
    nf = sum(s.nfun() for s in basis)
    T = None
    if with_T:
        nr = rng.choice([1, 2, nf, nf + 1])
        T = [[str(Fraction(rng.randint(-8, 8), 8)) for _ in range(nf)] for _ in range(nr)]
    np_ = len(T) if T is not None else nf
    r = rng.randint(1, min(3, np_))
    Cm = [[str(Fraction(rng.randint(-4, 4), 4)) for _ in range(r)] for _ in range(np_)]
    lmax = max(s.l for s in basis)
    kmax = max(len(s.exps) for s in basis)
    mods = pick_mods(rng, basis, tier, i)
    use_model = bool(model and lmax <= 2 and nf <= 14 and kmax <= 3)
    if use_model and not (lmax <= 1 and nf <= 5 and kmax <= 2):
        mods = [m for m in mods if not m.startswith("eri")]
    return {"kind": "basis", "basis": [s.to_json() for s in basis], "rws": rws, "aux": aux, "T": T, "Cm": Cm,
            "mods": mods, "model": use_model}


def wide_range_cases(rng, tier):
    """ERI with CONTRACTED shells whose primitives span tight and diffuse exponents (core s 98304 / 65536 with 1/4,
    p 8192 with 1/2, d 2 with 1/32, f 4 with 1/32): the primitives of one shell of the quartet are re-listed (every
    permutation) while the other shells are listed ascending (diffuse -> tight) or descending (as in basis-set files),
    the rewritten shell in each of the four positions; and whole bases [tight shell, diffuse shell] through
    electron_repulsion_integral with every shell re-listed.  Which of the equivalent orientations of a quartet is
    evaluated may depend on the VALUES of the exponents only, never on where they are listed (seeded change C13-mutc
    chose it from exps[0] / exps[-1]: results off by up to 1e2 for one listing and exact for another)."""
    quick = tier == "quick"
    at1 = [Fraction(0)] * 3
    at2 = [Fraction(1, 4), Fraction(-1, 8), Fraction(1, 2)]

    def sh(l, c, exps, coeffs, sph=False):
        return XShell(l, list(c), [F(e) for e in exps], [[F(x)] for x in coeffs], sph)

    S2 = lambda c: sh(0, c, [98304, Fraction(1, 4)], [Fraction(1, 4), 1])
    S3 = lambda c: sh(0, c, [65536, 1024, Fraction(1, 2)], [Fraction(1, 8), Fraction(1, 2), 1])
    P2 = lambda c: sh(1, c, [8192, Fraction(1, 2)], [Fraction(1, 4), 1])
    D2 = lambda c: sh(2, c, [2, Fraction(1, 32)], [Fraction(1, 2), 1])
    F1 = lambda c: sh(3, c, [Fraction(5, 16)], [1])
    F2 = lambda c: sh(3, c, [4, Fraction(1, 32)], [Fraction(1, 2), 1])
    templates = [[P2(at1), P2(at1), F2(at2), F2(at2)],
                 [S2(at1), S2(at1), F1(at2), F1(at2)],
                 [S3(at1), S2(at1), D2(at2), D2(at2)],
                 [S2(at1), P2(at1), D2(at1), F2(at1)]]
    if not quick:
        templates += [[F2(at2), F2(at2), P2(at1), P2(at1)], [S3(at1), D2(at2), S3(at1), D2(at2)],
                      [S2(at1), S3(at1), F2(at2), D2(at2)]]

    def listed(x, how):
        k = len(x.exps)
        asc = sorted(range(k), key=lambda i: x.exps[i])
        return copy_shell(x, exps=[x.exps[i] for i in (asc if how == "asc" else asc[::-1])],
                          coeffs=[x.coeffs[i] for i in (asc if how == "asc" else asc[::-1])])

    cases = []
    for ti, tpl in enumerate(templates):
        for pos in range(4):
            if len(tpl[pos].exps) < 2:
                continue
            for others in ("asc", "desc"):
                for mine in ("desc", "asc"):
                    xs = [listed(x, mine if i == pos else others) for i, x in enumerate(tpl)]
                    k = len(xs[pos].exps)
                    perms = [list(p) for p in itertools.permutations(range(k)) if list(p) != list(range(k))]
                    if quick and len(perms) > 3:
                        perms = [perms[-1]] + rng.sample(perms[:-1], 2)       # the reversal and two more
                    small = sum(x.l for x in xs) <= 4 and max(len(x.exps) for x in xs) <= 3
                    aux = gen_aux(rng, xs)
                    for n, p in enumerate(perms):
                        cases.append({"kind": "block", "cls": "eri", "stream": "wide", "shells": [x.to_json() for x in xs],
                                      "pos": pos, "rw": {"type": "perm", "perm": p}, "aux": aux,
                                      "model": bool(small and n == 0 and others == "asc" and pos == 0)})
    # whole bases through the public function: file order -> every shell ascending (and one shell only)
    bases = [[S2(at1), F1(at2)], [P2(at1), F2(at2)], [S2(at1), D2(at1)]]
    if not quick:
        bases += [[F2(at2), P2(at1)], [S3(at1), sh(3, at1, [Fraction(5, 16)], [1], True)], [S2(at1), P2(at1), D2(at2)]]
    for bi, basis in enumerate(bases):
        basis = [listed(x, "desc") for x in basis]
        allrw = [{"type": "perm", "shell": i, "perm": list(range(len(x.exps)))[::-1]} for i, x in enumerate(basis)
                 if len(x.exps) > 1]
        for rws in ([allrw] if quick else [allrw] + [[r] for r in allrw if len(allrw) > 1]):
            nf = sum(x.nfun() for x in basis)
            cases.append({"kind": "basis", "stream": "wide", "basis": [x.to_json() for x in basis], "rws": rws,
                          "aux": gen_aux(rng, basis), "T": None,
                          "Cm": [[str(Fraction(rng.randint(-4, 4), 4))] for _ in range(nf)],
                          "mods": ["eri_chem" if bi % 2 == 0 else "eri_phys"], "model": False})
    return cases


def gen_cases(tier, seed):
    rng = random.Random(1000003 * seed + 13)
    quick = tier == "quick"
    cases = []
    # ---------------- basis level ----------------
    triples = [(k, m, l) for k in range(1, 5) for m in range(1, 5) for l in range(5)]
    reps = 1 if quick else 10
    e_pool = list(range(-20, 21)) * (2 if quick else 20)
    rng.shuffle(e_pool)
    i = 0
    for rep_i in range(reps):
        rng.shuffle(triples)
        for (k, m, l) in triples:
            for rtype in ("segment", "perm", "split", "scale"):
                if rtype == "segment" and m == 1 and rng.random() < 0.7:
                    continue
                if rtype == "perm" and k == 1:
                    continue
                i += 1
                sph = rng.random() < 0.5
                target = gen_shell_km(rng, l, k, m, sph)
                nshell = rng.choice([1, 2, 2, 3]) if l <= 2 else rng.choice([1, 2])
                basis, pos = gen_basis_around(rng, target, nshell, 2 if l >= 3 else 3)
                perms = [None]
                if rtype == "perm" and not quick:
                    perms = [p for p in itertools.permutations(range(k)) if list(p) != list(range(k))]
                    if len(perms) > 6 and rep_i > 0:
                        perms = rng.sample(perms, 6)
                for perm in perms:
                    rws = [gen_rw(rng, target, pos, rtype, e_pool=e_pool, perm=perm)]
                    # sometimes rewrite a second shell too / every generalized shell
                    if len(basis) > 1 and rng.random() < 0.3:
                        j = rng.choice([x for x in range(len(basis)) if x != pos])
                        t2 = rng.choice(["segment", "perm", "split", "scale"])
                        if not (t2 == "perm" and len(basis[j].exps) == 1):
                            rws.append(gen_rw(rng, basis[j], j, t2, e_pool=None))
                    if rtype != "segment" and rng.random() < 0.15:
                        rws.append({"type": "segment", "shell": pos})     # rewrite, then segment the result
                    assert rws_valid(basis, rws), rws
                    cases.append(make_basis_case(rng, basis, rws, tier, i, with_T=(i % 4 == 0),
                                                 model=(i % (6 if quick else 4) == 1)))
    # ---------------- block level ----------------
    km = [(k, m) for k in range(1, 5) for m in range(1, 5)]
    breps = 1 if quick else 8
    for rep_i in range(breps):
        for (k, m) in km:
            for l in range(5):
                for cls in BLOCK_CLASSES:
                    if cls == "eri" and l > (1 if quick else 2):
                        continue
                    if quick and rng.random() < (0.55 if cls != "overlap" else 0.0):
                        continue
                    sph = False
                    s = gen_shell_km(rng, l, k, m, sph)
                    if cls in ("eval", "evalderiv"):
                        xs, pos = [s], 0
                    elif cls == "eri":
                        others = [gen_shell_km(rng, rng.randint(0, 1), rng.randint(1, 2), rng.randint(1, 2), False,
                                               coord=(list(s.coord) if rng.random() < 0.3 else None))
                                  for _ in range(3)]
                        if k > 2:
                            s = gen_shell_km(rng, l, min(k, 3), m, sph)
                        pos = rng.randrange(4)
                        xs = others[:pos] + [s] + others[pos:]
                    else:
                        # partner with the SAME number of primitives but another number of columns half of the time:
                        # an axis mix-up between primitive and segment indices needs exactly that to show
                        kb = len(s.exps) if rng.random() < 0.5 else rng.randint(1, 4)
                        mb = rng.choice([x for x in range(1, 5) if x != m]) if rng.random() < 0.7 else m
                        other = gen_shell_km(rng, rng.randint(0, 4 if l <= 2 else 2), kb, mb, False,
                                             coord=(list(s.coord) if rng.random() < 0.3 else None))
                        pos = rng.randrange(2)
                        xs = [s, other] if pos == 0 else [other, s]
                    s = xs[pos]
                    kk, mm = len(s.exps), len(s.coeffs[0])
                    aux = gen_aux(rng, xs)
                    small = max(x.l for x in xs) <= 2 and max(len(x.exps) for x in xs) <= 3
                    if cls == "eri":
                        small = max(x.l for x in xs) <= 1 and max(len(x.exps) for x in xs) <= 2 and sum(x.l for x in xs) <= 2
                    rwl = [{"type": "segment"}]
                    allp = [list(p) for p in itertools.permutations(range(kk)) if list(p) != list(range(kk))]
                    if cls == "eri" or (quick and len(allp) > 5):
                        allp = rng.sample(allp, min(len(allp), 3 if cls == "eri" else 5))
                    rwl += [{"type": "perm", "perm": p} for p in allp]
                    g = gen_rw(rng, s, 0, "split")
                    g.pop("shell")
                    rwl.append(g)
                    g = gen_rw(rng, s, 0, "scale")
                    g.pop("shell")
                    rwl.append(g)
                    C2 = [[str(Fraction(rng.randint(-16, 16), 8)) for _ in range(mm)] for _ in range(kk)]
                    rwl.append({"type": "lin", "C2": C2, "k": str(Fraction(rng.choice([-7, -3, 3, 5, 11]), 8))})
                    for n, rw in enumerate(rwl):
                        cases.append({"kind": "block", "cls": cls, "shells": [x.to_json() for x in xs], "pos": pos,
                                      "rw": rw, "aux": aux, "model": bool(small and n % 3 == 0 and rng.random() < 0.5)})
    # ---------------- shells rewritten in place through the public setters ----------------
    for rep_i in range(1 if quick else 6):
        for (k, m) in km:
            for rtype in ("perm", "scale"):
                if rtype == "perm" and k == 1:
                    continue
                l = rng.randint(0, 3)
                s = gen_shell_km(rng, l, k, m, rng.random() < 0.5)
                other = gen_shell_km(rng, rng.randint(0, 2), rng.randint(1, 3), rng.randint(1, 2), rng.random() < 0.5)
                rw = gen_rw(rng, s, 0, rtype)
                rw.pop("shell")
                cases.append({"kind": "setter", "shells": [s.to_json(), other.to_json()], "rw": rw,
                              "aux": gen_aux(rng, [s, other])})
    # ---------------- ERI with contractions spanning tight and diffuse exponents (own PRNG) ----------------
    cases += wide_range_cases(random.Random(1000003 * seed + 1313), tier)
    return cases


# ----------------------------------------------------------------------------------------------
# shrinking
# ----------------------------------------------------------------------------------------------
def _fix_rw_after_shell_change(rw, sj):
    """adapt a rewrite to a simplified target shell; None if it no longer applies"""
    k, m = len(sj["exps"]), len(sj["coeffs"][0])
    rw = dict(rw)
    t = rw["type"]
    if t == "perm":
        if len(rw["perm"]) != k:
            if k < 2:
                return None
            rw["perm"] = list(range(k))[::-1]
    elif t == "split":
        if rw["prim"] >= k:
            rw["prim"] = k - 1
        if len(rw["d1"]) != m:
            rw["d1"] = rw["d1"][:m] if len(rw["d1"]) > m else rw["d1"] + ["1"] * (m - len(rw["d1"]))
    elif t == "scale":
        if rw["col"] >= m:
            rw["col"] = m - 1
    elif t == "lin":
        rw["C2"] = [(row + ["1"] * m)[:m] for row in (rw["C2"] + [["1"] * m] * k)[:k]]
    return rw


def shrink_case(case):
    if case["kind"] == "basis":
        # 1. only the module that failed
        for mname in case["mods"]:
            if len(case["mods"]) > 1:
                c = dict(case)
                c["mods"] = [mname]
                yield c
        if case.get("T") is not None:
            c = dict(case)
            c["T"] = None
            nf = sum(XShell.from_json(s).nfun() for s in case["basis"])
            c["Cm"] = [["1"] if i == 0 else ["1/2"] for i in range(nf)]
            yield c
        if len(case["rws"]) > 1:
            for i in range(len(case["rws"])):
                c = dict(case)
                c["rws"] = case["rws"][:i] + case["rws"][i + 1:]
                yield c
        if case.get("T") is None:
            targets = set(rw["shell"] for rw in case["rws"])
            lst = case["basis"]
            # 2. drop a shell that is not rewritten
            for i in range(len(lst)):
                if i in targets or len(lst) == 1:
                    continue
                c = dict(case)
                c["basis"] = lst[:i] + lst[i + 1:]
                c["rws"] = [dict(rw, shell=rw["shell"] - (1 if rw["shell"] > i else 0)) for rw in case["rws"]]
                nf = sum(XShell.from_json(s).nfun() for s in c["basis"])
                c["Cm"] = [["1"] if j == 0 else ["1/2"] for j in range(nf)]
                yield c
            # 3. simpler shells
            for i, sj in enumerate(lst):
                for t in shrink_shell_json(sj):
                    rws = []
                    ok = True
                    for rw in case["rws"]:
                        if rw["shell"] == i:
                            rw2 = _fix_rw_after_shell_change(rw, t)
                            if rw2 is None:
                                ok = False
                                break
                            rws.append(rw2)
                        else:
                            rws.append(rw)
                    if not ok:
                        continue
                    c = dict(case)
                    c["basis"] = lst[:i] + [t] + lst[i + 1:]
                    c["rws"] = rws
                    try:
                        b = [XShell.from_json(s) for s in c["basis"]]
                        if not rws_valid(b, rws):
                            continue
                    except Exception:  # noqa: BLE001
                        continue
                    nf = sum(s.nfun() for s in b)
                    c["Cm"] = [["1"] if j == 0 else ["1/2"] for j in range(nf)]
                    yield c
        if len(case["aux"]["points"]) > 1:
            c = dict(case)
            c["aux"] = dict(case["aux"], points=case["aux"]["points"][:1])
            yield c
        if case.get("model"):
            c = dict(case)
            c["model"] = False
            yield c
    else:
        lst = case["shells"]
        for i, sj in enumerate(lst):
            for t in shrink_shell_json(sj):
                c = dict(case)
                c["shells"] = lst[:i] + [t] + lst[i + 1:]
                if i == case.get("pos", 0):
                    if case["rw"]["type"] == "segment":
                        rw2 = case["rw"]
                    else:
                        rw2 = _fix_rw_after_shell_change(case["rw"], t)
                    if rw2 is None:
                        continue
                    c["rw"] = rw2
                yield c
        if case.get("model"):
            c = dict(case)
            c["model"] = False
            yield c


def run(rep, tier, seed, model, replay):
    cases = [replay["case"]] if replay is not None else gen_cases(tier, seed)
    run_cases(rep, cases, eval_case, shrinkfn=shrink_case)
