"""C01 — overlap integrals exact, unit diagonal, asymmetric = block of the union.

Correspondence: Overlap.construct_array_contraction, overlap_integral and
overlap_integral_asymmetric of /repo against the exact Coq model (commands 1-3).
Stream "hp": Overlap.construct_array_contraction (command 1) and the moment kernel
_compute_multipole_moment_integrals at order 0 (command 5; norms from the real norm_prim_cart) replayed in 260-bit
arithmetic on object arrays (harness/hpnum.py) and compared at 1e-18 x sum|primitive terms|: a difference there is a
difference of FORMULA (it cannot be rounding), and an unstable but algebraically identical rewrite passes it."""
import itertools
import random
from fractions import Fraction

import numpy as np

from lib import XShell, call_impl, compare, gen_shell, run_cases, shrink_shell_json

RULE = ("block level: every (l_a, l_b) in 0..5 x 0..5 enumerated, K in 1..4, M in 1..3, centres k/16, exponents "
        "log-uniform over 0.02..cap(l) with 8-bit mantissas; basis level: 1-4 shells, each Cartesian or spherical "
        "independently, with/without a second basis; a case is non-trivial when the model block is not identically "
        "zero and (l>0 or K>1 or M>1); distinct by the hash of the exact input; hp stream: 8 (quick) / 80 (thorough) "
        "shell pairs l<=2 / l<=4, K,M<=2 (general / coincident / full-mantissa / tight pair 100-150 bohr from the "
        "origin), replayed at 260 bits, tolerance 1e-18 x sum|primitive terms|")
RULE += " HISTORY stream (the returned value depends only on the arguments): basis-level shells carry the atom index (icenter; shells sharing a centre share it); every 2nd generated basis (quick; every 4th thorough) and every 5th same-centre pair is a GEOMETRY SCAN evaluated in one process: the same shells (exponents, coefficients, types, icenter) with the atoms displaced rigidly by k/16 bohr (one atom, or every atom by its own vector) at 1-2 further geometries, then the first geometry again; every call is compared with the exact model at its own geometry with the same tolerance (detail kind \"history\", the replay case contains the geometries; shrinking and replay evaluate every candidate sequence in a fresh process)"
ASSUMPTIONS = ["floating-point rounding of the NumPy pipeline is not modelled: the 1e-8 bound is decided on the "
               "generated inputs against the exact value"]
TOL = 1e-8


def eval_case(model, case):
    from gbasis.integrals.overlap import Overlap, overlap_integral
    from gbasis.integrals.overlap_asymm import overlap_integral_asymmetric

    kind = case["kind"]
    if kind == "block" and case.get("hp"):
        return eval_hp(model, case)
    if kind == "block":
        sa, sb = XShell.from_json(case["a"]), XShell.from_json(case["b"])
        res = model.call("(1 %s %s)" % (sa.sx(), sb.sx()))
        st, impl = call_impl(Overlap.construct_array_contraction, sa.to_gbasis(), sb.to_gbasis())
        if st != "ok":
            return {"detail": {"kind": "rejected", "impl": impl}, "tag": "block"}
        d = compare(impl, res, tol_fn=None, tol_abs=block_tol(model, sa, sb))
        nontriv = (sa.l + sb.l > 0 or len(sa.exps) > 1 or len(sb.exps) > 1) and np.any(impl != 0)
        return {"detail": d, "nontrivial": bool(nontriv), "tag": "block l=%d,%d" % (sa.l, sb.l)}
    if kind == "basis":
        import twoindex
        basis0 = [XShell.from_json(s) for s in case["basis"]]
        # basis-level shells carry the atom index (icenter); shells sharing a centre share it
        ids = twoindex.atom_ids(twoindex.case_geometries(case))
        first = {}

        def one(basis, step=0, repeat=False):
            res = first["res"] if repeat else model.call("(2 (%s) ())" % " ".join(s.sx() for s in basis))
            st, impl = call_impl(overlap_integral, [s.to_gbasis(icenter=a) for s, a in zip(basis, ids)])
            if st != "ok":
                return {"kind": "rejected", "impl": impl}
            if step == 0:
                first.update(res=res, impl=np.array(impl, copy=True))
            d = compare(impl, res, tol_abs=TOL)
            if d is None:
                dg = np.abs(np.diag(impl) - 1.0)
                if dg.size and dg.max() > TOL:
                    d = {"kind": "diagonal", "index": int(dg.argmax()), "impl": repr(float(np.diag(impl)[dg.argmax()]))}
            if repeat and d is None:
                first["bit-identical"] = bool(np.array_equal(np.asarray(impl), first["impl"]))
            return d

        types = "".join("s" if s.sph else "c" for s in basis0)
        tag = "basis n=%d %s%s" % (len(basis0), types, " hist" if case.get("hist") else "")
        d = one(basis0)
        if d is not None:
            return {"detail": d, "nontrivial": True, "tag": tag}
        d, stats = twoindex.run_history(case, basis0, lambda shells, _ids, step, repeat: one(shells, step, repeat))
        if "bit-identical" in first:
            stats["history-repeat-bit-identical"] = 1 if first["bit-identical"] else 0
        return {"detail": d, "nontrivial": True, "tag": tag, "stats": stats}
    if kind == "asymm":
        b1 = [XShell.from_json(s) for s in case["b1"]]
        b2 = [XShell.from_json(s) for s in case["b2"]]
        res = model.call("(3 (%s) (%s) () ())" % (" ".join(s.sx() for s in b1), " ".join(s.sx() for s in b2)))
        st, impl = call_impl(overlap_integral_asymmetric, [s.to_gbasis() for s in b1], [s.to_gbasis() for s in b2])
        if st != "ok":
            return {"detail": {"kind": "rejected", "impl": impl}, "tag": "asymm"}
        d = compare(impl, res, tol_abs=TOL)
        if d is None:
            # the off-diagonal block of the overlap of the union, from the implementation itself
            st2, uni = call_impl(overlap_integral, [s.to_gbasis() for s in b1 + b2])
            n1 = sum(s.nfun() for s in b1)
            if st2 != "ok" or np.abs(uni[:n1, n1:] - impl).max() > TOL:
                d = {"kind": "union-block", "impl": "asymmetric result differs from the block of the union"}
        return {"detail": d, "nontrivial": True, "tag": "asymm %d+%d" % (len(b1), len(b2))}
    raise ValueError(kind)


def eval_hp(model, case):
    """high-precision replay (harness/hpnum.py).  "hp": 1 - Overlap.construct_array_contraction vs command 1;
    "hp": 5 - the kernel as Overlap calls it (origin 0, the single order (0,0,0)) vs command 5."""
    import hpnum
    sa, sb = XShell.from_json(case["a"]), XShell.from_json(case["b"])
    if case["hp"] == 5:
        def call(ha, hb):
            from gbasis.integrals._moment_int import _compute_multipole_moment_integrals
            return _compute_multipole_moment_integrals(
                hpnum.hp_array([0, 0, 0]), np.zeros((1, 3), dtype=int),
                ha.coord, ha.angmom_components_cart, ha.exps, ha.coeffs, ha.norm_prim_cart,
                hb.coord, hb.angmom_components_cart, hb.exps, hb.coeffs, hb.norm_prim_cart)
        return hpnum.eval_pair(model, case, "(5 (0 0 0) ((0 0 0)) %s %s)" % (sa.sx(), sb.sx()), call,
                               "moment-kernel order 0", seg_axes=(1, 3))

    def call(ha, hb):
        from gbasis.integrals.overlap import Overlap
        return Overlap.construct_array_contraction(ha, hb)
    return hpnum.eval_pair(model, case, "(1 %s %s)" % (sa.sx(), sb.sx()), call, "overlap")


def block_tol(model, sa, sb):
    """Blocks from construct_array_contraction are not contraction-normalised: scale the 1e-8 of the
    property (stated for normalised functions) by the geometric mean of the two self-overlaps."""
    da = model.call("(1 %s %s)" % (sa.sx(), sa.sx()))
    db = model.call("(1 %s %s)" % (sb.sx(), sb.sx()))
    ma = max(float(da[m][c][m][c]) for m in range(len(da)) for c in range(len(da[0])))
    mb = max(float(db[m][c][m][c]) for m in range(len(db)) for c in range(len(db[0])))
    return TOL * max(1.0, (ma * mb) ** 0.5)


def shrink_case(case):
    kind = case["kind"]
    if kind == "block":
        for key in ("a", "b"):
            for t in shrink_shell_json(case[key]):
                c = dict(case)
                c[key] = t
                yield c
    else:
        import twoindex
        for c in twoindex.shrink_history(case):
            yield c
        hist = case.get("hist") or None
        keys = ["basis"] if kind == "basis" else ["b1", "b2"]
        for key in keys:
            lst = case[key]
            if len(lst) > 1:
                for i in range(len(lst)):
                    c = dict(case)
                    c[key] = lst[:i] + lst[i + 1:]
                    if hist and key == "basis":
                        c["hist"] = [g[:i] + g[i + 1:] for g in hist]
                    yield c
            for i, sj in enumerate(lst):
                for t in shrink_shell_json(sj):
                    c = dict(case)
                    c[key] = lst[:i] + [t] + lst[i + 1:]
                    yield c


def gen_cases(tier, seed):
    from lib import gen_basis
    import twoindex
    rng = random.Random(1000003 * seed + 1)
    hp = twoindex.hp_cases(tier, seed, salt=1, n_quick=8, n_thorough=80)
    for i, c in enumerate(hp):
        if i % 2:
            c["hp"] = 5
    cases = hp + [c for c in twoindex.gen_cases(tier, seed, salt=1, lmax_block=5, with_T=False, nb_quick=0, nb_thorough=0,
                                           block_reps_thorough=4)]
    for c in cases:
        c.pop("T", None)
    nb = 50 if tier == "quick" else 400
    lmax = 3 if tier == "quick" else 5
    # HISTORY: every 2nd (quick) / 4th (thorough) basis carries a geometry scan (twoindex.add_history), own PRNG
    hrng = random.Random(1000003 * seed + 1 + 7919)
    hist_every = 2 if tier == "quick" else 4
    for i in range(nb):
        n = 1 + i % 4
        basis = gen_basis(rng, n, lmax=lmax if n <= 2 else min(lmax, 3), kmax=4, mmax=3)
        c = {"kind": "basis", "basis": [s.to_json() for s in basis]}
        if (i // 4 + i) % hist_every == 1:
            twoindex.add_history(hrng, c, 1 + (i // 3) % 2)
        cases.append(c)
    na = 16 if tier == "quick" else 120
    for i in range(na):
        n1, n2 = 1 + i % 2, 1 + (i // 2) % 3
        both = gen_basis(rng, n1 + n2, lmax=3, kmax=3, mmax=2)
        cases.append({"kind": "asymm", "b1": [s.to_json() for s in both[:n1]], "b2": [s.to_json() for s in both[n1:]]})
    return cases


def run(rep, tier, seed, model, replay):
    if replay is not None:
        cases = [replay["case"]]
    else:
        cases = gen_cases(tier, seed)
    run_cases(rep, cases, eval_case, shrinkfn=shrink_case, isolate=True)


def xcheck_cmds(seed):
    """small commands re-evaluated inside Coq with vm_compute (validates extraction + driver glue)"""
    rng = random.Random(77 + seed)
    sa = gen_shell(rng, l=1, kmax=1, mmax=1, sph=False, bits=3)
    sb = gen_shell(rng, l=1, kmax=1, mmax=2, sph=False, bits=3)
    return ["(1 %s %s)" % (sa.sx(), sb.sx())]
