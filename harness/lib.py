"""Common machinery of the correspondence checks (DESIGN.md section 4).

* ModelProc: runs the extracted Coq model (ocaml/driver) as a co-process; answers its
  transcendental-oracle requests with mpmath (exact dyadic rationals, 96 significant bits).
* exact <-> float conversions (every generated number is a dyadic rational, so the float handed
  to the implementation denotes exactly the rational handed to the model).
* shell generators, comparison, shrinking, replay files, evidence files, known findings.
"""
import hashlib
import json
import os
import random
import subprocess
import sys
import time
from fractions import Fraction

import mpmath
import numpy as np

VERIF = os.path.dirname(os.path.dirname(os.path.abspath(__file__)))
WORK = os.path.join(VERIF, "_work")
REPO = os.environ.get("GBASIS_REPO", "/repo")
if sys.path[0] != REPO:
    sys.path.insert(0, REPO)
os.makedirs(os.path.join(WORK, "replay"), exist_ok=True)

mpmath.mp.prec = 260
sys.set_int_max_str_digits(0)
ORACLE_BITS = 72


# ----------------------------------------------------------------------------------------------
# exact numbers
# ----------------------------------------------------------------------------------------------
def frac_of_float(x):
    return Fraction(float(x))


def tok(q):
    """Token of a rational / int for the S-expression wire format."""
    if isinstance(q, bool):
        return "1" if q else "0"
    if isinstance(q, int):
        return str(q)
    if isinstance(q, float):
        q = Fraction(q)
    if q.denominator == 1:
        return str(q.numerator)
    return "%d/%d" % (q.numerator, q.denominator)


def sx(obj):
    """Encode nested lists/tuples of ints, Fractions, bools as an S-expression."""
    if isinstance(obj, (list, tuple)):
        return "(" + " ".join(sx(o) for o in obj) + ")"
    if isinstance(obj, np.ndarray):
        return sx(obj.tolist())
    if isinstance(obj, (np.integer,)):
        return str(int(obj))
    if isinstance(obj, (np.floating,)):
        return tok(Fraction(float(obj)))
    return tok(obj)


def parse_sx(s):
    """Parse the driver's result into nested lists of Fractions / ints."""
    pos = 0
    n = len(s)
    stack = [[]]
    while pos < n:
        ch = s[pos]
        if ch == "(":
            stack.append([])
            pos += 1
        elif ch == ")":
            top = stack.pop()
            stack[-1].append(top)
            pos += 1
        elif ch in " \n\t":
            pos += 1
        else:
            st = pos
            while pos < n and s[pos] not in " ()\n\t":
                pos += 1
            t = s[st:pos]
            if "/" in t:
                a, b = t.split("/")
                stack[-1].append(Fraction(int(a), int(b)))
            else:
                stack[-1].append(Fraction(int(t)))
    return stack[0][0]


def round_dyadic(x, bits=ORACLE_BITS):
    """mpf -> exact Fraction with at most `bits` significant bits."""
    x = mpmath.mpf(x)
    if x == 0:
        return Fraction(0)
    man, exp = mpmath.frexp(x)  # x = man * 2**exp, 0.5 <= |man| < 1
    m = int(mpmath.nint(mpmath.ldexp(man, bits)))
    e = int(exp) - bits
    return Fraction(m) * (Fraction(2) ** e)


def mpf_of(q):
    return mpmath.mpf(q.numerator) / mpmath.mpf(q.denominator)


def boys_mp(m, t):
    """Boys function F_m(t) = int_0^1 s^(2m) exp(-t s^2) ds, by mpmath (independent of scipy)."""
    t = mpmath.mpf(t)
    if t == 0:
        return mpmath.mpf(1) / (2 * m + 1)
    # F_m(t) = gammainc(m+1/2, 0, t) / (2 t^(m+1/2))
    return mpmath.gammainc(m + mpmath.mpf(1) / 2, 0, t) / (2 * mpmath.power(t, m + mpmath.mpf(1) / 2))


def oracle(fn, extra, arg):
    x = mpf_of(arg)
    if fn == "pi":
        return round_dyadic(mpmath.pi)
    if fn == "sqrt":
        if x < 0:
            return Fraction(0)
        return round_dyadic(mpmath.sqrt(x))
    if fn == "exp":
        y = mpmath.exp(x)
        if y < mpmath.ldexp(1, -1100):  # below the smallest subnormal double: flushed to 0
            return Fraction(0)
        return round_dyadic(y)
    if fn == "ln":
        if x <= 0:
            return Fraction(0)
        return round_dyadic(mpmath.log(x))
    if fn == "boys":
        return round_dyadic(boys_mp(int(extra), x))
    raise ValueError(fn)


class ModelProc:
    """The extracted Coq model as a co-process."""

    def __init__(self):
        exe = os.path.join(VERIF, "ocaml", "driver")
        self.p = subprocess.Popen([exe], stdin=subprocess.PIPE, stdout=subprocess.PIPE, text=True, bufsize=1)
        self.asks = 0
        self.log = None  # optional list collecting (fn, extra, arg, value) for the in-Coq cross-check
        self.ncalls = 0
        # the driver evaluates pi once when it starts
        line = self.p.stdout.readline()
        assert line.startswith("ASK pi"), line
        val = oracle("pi", None, Fraction(0))
        self.pi = val
        self.p.stdin.write("%d/%d\n" % (val.numerator, val.denominator))
        self.p.stdin.flush()

    def _serve(self):
        while True:
            line = self.p.stdout.readline()
            if not line:
                raise RuntimeError("model driver died")
            if line.startswith("ASK "):
                parts = line.split()
                fn = parts[1]
                extra = parts[2] if len(parts) == 4 else None
                a, b = parts[-1].split("/")
                arg = Fraction(int(a), int(b))
                val = oracle(fn, extra, arg)
                self.asks += 1
                if self.log is not None:
                    self.log.append((fn, extra, arg, val))
                self.p.stdin.write("%d/%d\n" % (val.numerator, val.denominator))
                self.p.stdin.flush()
            elif line.startswith("RES "):
                return line[4:]
            else:
                raise RuntimeError("unexpected driver output: " + line[:200])

    def call_raw(self, cmd):
        self.ncalls += 1
        self.p.stdin.write(cmd + "\n")
        self.p.stdin.flush()
        return self._serve()

    def call(self, cmd):
        res = parse_sx(self.call_raw(cmd))
        if isinstance(res, list) and len(res) == 2 and res[0] == -1:
            raise RuntimeError("model rejected command (code %s): %s" % (res[1], cmd[:200]))
        return res

    def close(self):
        try:
            self.p.stdin.close()
            self.p.wait(timeout=5)
        except Exception:
            self.p.kill()


# ----------------------------------------------------------------------------------------------
# shells
# ----------------------------------------------------------------------------------------------
class XShell:
    """Exact description of a shell (all numbers Fractions that are dyadic rationals)."""

    def __init__(self, l, coord, exps, coeffs, sph=False, comps=None, labels=None):
        self.l = l
        self.coord = [Fraction(c) for c in coord]
        self.exps = [Fraction(e) for e in exps]
        self.coeffs = [[Fraction(c) for c in row] for row in coeffs]  # K x M
        self.sph = bool(sph)
        self.comps = comps or []
        self.labels = labels or []

    def sx(self):
        return sx(
            [
                self.l,
                self.coord,
                self.exps,
                self.coeffs,
                1 if self.sph else 0,
                [list(c) for c in self.comps],
                [[1 if a else 0, 1 if b else 0, m] for (a, b, m) in self.labels],
            ]
        )

    def to_gbasis(self, icenter=None):
        """icenter: the atom index the shell carries (what gbasis.parsers.make_contractions and the wrappers set);
        None = the five-argument constructor call (no atom index)."""
        from gbasis.contractions import GeneralizedContractionShell

        args = (
            self.l,
            np.array([float(c) for c in self.coord]),
            np.array([[float(c) for c in row] for row in self.coeffs]),
            np.array([float(e) for e in self.exps]),
            "spherical" if self.sph else "cartesian",
        )
        if icenter is None:
            return GeneralizedContractionShell(*args)
        return GeneralizedContractionShell(*args, icenter=int(icenter))

    def moved(self, coord):
        """the same shell (exponents, coefficients, type) on another centre"""
        return XShell(self.l, coord, self.exps, self.coeffs, self.sph, self.comps, self.labels)

    def to_json(self):
        return {
            "l": self.l,
            "coord": [str(c) for c in self.coord],
            "exps": [str(e) for e in self.exps],
            "coeffs": [[str(c) for c in row] for row in self.coeffs],
            "sph": self.sph,
            "comps": [list(c) for c in self.comps],
            "labels": [list(x) for x in self.labels],
        }

    @staticmethod
    def from_json(d):
        return XShell(
            d["l"],
            [Fraction(c) for c in d["coord"]],
            [Fraction(e) for e in d["exps"]],
            [[Fraction(c) for c in row] for row in d["coeffs"]],
            d.get("sph", False),
            [tuple(c) for c in d.get("comps", [])],
            [tuple(x) for x in d.get("labels", [])],
        )

    def nfun(self):
        m = len(self.coeffs[0])
        return m * ((2 * self.l + 1) if self.sph else (self.l + 1) * (self.l + 2) // 2)


def short_float(rng, lo, hi, bits=8):
    """Log-uniform positive dyadic rational in [lo, hi] with at most `bits` significant bits."""
    import math

    x = math.exp(rng.uniform(math.log(lo), math.log(hi)))
    m, e = math.frexp(x)
    mi = max(1, round(m * (1 << bits)))
    q = Fraction(mi) * Fraction(2) ** (e - bits)
    if q < Fraction(lo):
        q = Fraction(lo).limit_denominator(1 << 20)
        q = Fraction(float(q))
    return Fraction(float(q))


def exp_cap(l):
    """Upper end of the exponent range of published basis sets: 1e5 for s, a decade less per l, >= 10."""
    return max(10.0, 1e5 / (10.0**l))


def gen_shell(rng, l=None, lmax=5, kmax=4, mmax=3, sph=None, span=2, exp_lo=0.02, exp_hi=None, bits=8,
              coord=None):
    if l is None:
        l = rng.randint(0, lmax)
    k = rng.randint(1, kmax)
    m = rng.randint(1, mmax)
    if coord is None:
        coord = [Fraction(rng.randint(-16 * span, 16 * span), 16) for _ in range(3)]
    hi = exp_hi if exp_hi is not None else exp_cap(l)
    exps = []
    while len(exps) < k:
        e = short_float(rng, exp_lo, hi, bits)
        if e not in exps:
            exps.append(e)
    coeffs = []
    for _ in range(k):
        row = []
        for _ in range(m):
            c = 0
            while c == 0:
                c = rng.randint(-16, 16)
            row.append(Fraction(c, 8))
        coeffs.append(row)
    # generalized contractions of published sets contain exact zeros: keep every column non-zero
    if m > 1 and k > 1 and rng.random() < 0.35:
        for col in range(m):
            keep = rng.randrange(k)
            for row in range(k):
                if row != keep and rng.random() < 0.4:
                    coeffs[row][col] = Fraction(0)
    if sph is None:
        sph = rng.random() < 0.5
    return XShell(l, coord, exps, coeffs, sph)


def gen_basis(rng, n, lmax=3, kmax=3, mmax=3, span=2, exp_hi=None, exp_lo=0.02, bits=8, ncentres=None):
    """A basis of n shells grouped on atoms: several shells share a centre (as in every real molecule),
    types chosen per shell; patterns all-cartesian / all-spherical / mixed all occur."""
    if ncentres is None:
        ncentres = rng.randint(1, max(1, min(n, 3)))
    centres = [[Fraction(rng.randint(-16 * span, 16 * span), 16) for _ in range(3)] for _ in range(ncentres)]
    if ncentres > 1 and rng.random() < 0.25:
        centres[0] = [Fraction(0)] * 3
    mode = rng.random()
    shells = []
    for i in range(n):
        c = centres[i % ncentres] if i < ncentres else rng.choice(centres)
        sph = True if mode < 0.2 else (False if mode < 0.4 else None)
        shells.append(gen_shell(rng, lmax=lmax, kmax=kmax, mmax=mmax, sph=sph, exp_hi=exp_hi, exp_lo=exp_lo,
                                bits=bits, coord=list(c)))
    rng.shuffle(shells)
    return shells


def far_near_centres(rng, lo=50.0, hi=100.0, rel=(0.5, 0.95), spread=0.4, nextra=1):
    """[A, B, C1, ..]: A = a 53-bit centre lo..hi bohr (per axis) from the coordinate origin; B = a DISTINCT centre
    that agrees with A in every component to within rel x 1e-5 of the COORDINATE (3e-4 .. 1e-3 bohr apart): whatever
    decides "same centre" with a tolerance relative to the absolute coordinates (numpy.allclose / isclose defaults)
    treats the two as one, although the integrals between them differ from the one-centre values at first order in
    |AB| sqrt(alpha) ~ 1e-3; C1.. = `nextra` ordinary neighbours within `spread` bohr per axis of A.  All coordinates
    are doubles (Fractions of floats)."""
    R = [rng.choice([-1, 1]) * rng.uniform(lo, hi) for _ in range(3)]
    A = [Fraction(x) for x in R]
    B = [Fraction(x * (1.0 + rng.choice([-1, 1]) * 1e-5 * rng.uniform(*rel))) for x in R]
    out = [A, B]
    for _ in range(nextra):
        out.append([Fraction(x + rng.choice([-1, 1]) * rng.uniform(0.15, 1.0) * spread) for x in R])
    assert all(a != b for a, b in zip(A, B))
    return out


def gen_window_pair(rng, la, lb, lo=14.0, hi=26.0):
    """Two compact shells far apart: min-exponent product mu*R^2 in [lo, hi] (integrals ~1e-5..1e-20 of the
    diagonal: where a distance-based shortcut or screening error shows)."""
    sa = gen_shell(rng, l=la, kmax=2, mmax=2, sph=False, exp_lo=0.5, exp_hi=4.0, coord=[Fraction(0)] * 3)
    sb = gen_shell(rng, l=lb, kmax=2, mmax=2, sph=False, exp_lo=0.5, exp_hi=4.0)
    mu = float(min(sa.exps) * min(sb.exps) / (min(sa.exps) + min(sb.exps)))
    target = rng.uniform(lo, hi)
    r = (target / mu) ** 0.5
    # a direction with dyadic components
    d = [rng.randint(-8, 8) for _ in range(3)]
    if d == [0, 0, 0]:
        d = [1, 2, 2]
    nrm = sum(x * x for x in d) ** 0.5
    sb.coord = [Fraction(round(16 * r * x / nrm), 16) for x in d]
    return sa, sb


# ----------------------------------------------------------------------------------------------
# comparison
# ----------------------------------------------------------------------------------------------
def to_float_array(nested):
    return np.array(nested, dtype=object).astype(float) if nested != [] else np.zeros((0,))


def shape_of(nested):
    shp = []
    x = nested
    while isinstance(x, list):
        shp.append(len(x))
        if not x:
            break
        x = x[0]
    return tuple(shp)


def compare(impl, model_nested, tol_abs=None, tol_fn=None):
    """Compare an implementation array with the model's exact nested list.

    Returns None if they agree, else a dict describing the worst element.
    tol_abs: scalar absolute tolerance; tol_fn(index) -> tolerance for that element.
    """
    mshape = shape_of(model_nested)
    impl = np.asarray(impl)
    if tuple(impl.shape) != mshape:
        return {"kind": "shape", "impl_shape": list(impl.shape), "model_shape": list(mshape)}
    marr = np.array(model_nested, dtype=object)
    worst = None
    it = np.nditer(impl, flags=["multi_index", "refs_ok"])
    for x in it:
        idx = it.multi_index
        mv = marr[idx]
        xv = float(x)
        if not np.isfinite(xv):
            return {"kind": "nonfinite", "index": list(idx), "impl": repr(xv), "model": str(mv)}
        diff = abs(Fraction(xv) - mv)
        tol = tol_fn(idx) if tol_fn is not None else tol_abs
        ratio = float(diff) / tol if tol > 0 else (0.0 if diff == 0 else float("inf"))
        if worst is None or ratio > worst[0]:
            worst = (ratio, idx, xv, mv, tol)
    if worst is not None and worst[0] > 1.0:
        return {
            "kind": "value",
            "index": list(worst[1]),
            "impl": repr(worst[2]),
            "model": "%.17g" % float(worst[3]),
            "model_exact": str(worst[3]) if len(str(worst[3])) < 400 else None,
            "abs_diff": float(abs(Fraction(worst[2]) - worst[3])),
            "tol": worst[4],
        }
    return None


def call_impl(fn, *a, **kw):
    """Run the implementation; any exception is canonicalised to ('rejected', type name)."""
    try:
        with np.errstate(all="ignore"):
            return ("ok", fn(*a, **kw))
    except Exception as exc:  # noqa: BLE001
        return ("rejected", type(exc).__name__ + ": " + str(exc)[:200])


# ----------------------------------------------------------------------------------------------
# direct sweep of the Boys function (shared by C03 and C04: the one transcendental their integrals depend on)
# ----------------------------------------------------------------------------------------------
BOYS_TOL = 1e-11
BOYS_GRID = ["0", "5e-324", "1e-300", "1e-200", "1e-100", "1e-60", "1e-40", "1e-35", "1e-32", "1e-31", "1e-30", "2e-30",
             "1e-29", "1e-28", "1e-27", "1e-26", "1e-25", "1e-24", "1e-22", "1e-20", "1e-18", "1e-16", "1e-14", "1e-12",
             "1e-10", "1e-8", "1e-6", "1e-5", "1e-4", "1e-3", "1e-2", "0.1", "0.5", "1", "2", "5", "10", "20", "30", "40",
             "50", "60", "80", "100", "300", "1e3", "1e4", "1e5", "1e6"]


def boys_cases(seed, mmax, cls, chunk=7, nrandom=21):
    """Cases {"kind": "boys", "cls", "orders": [0..mmax], "T": [exact dyadic strings]}: the fixed grid BOYS_GRID (T = 0,
    the subnormal / tiny arguments that coincident product centres produce through rounding (1e-32..1e-25), every decade
    up to 1e6) plus `nrandom` seeded 53-bit arguments log-uniform in 1e-33..1e6."""
    rng = random.Random(1000003 * seed + 777)
    ts = [Fraction(float(t)) for t in BOYS_GRID]
    ts += [Fraction(10.0 ** rng.uniform(-33.0, 6.0)) for _ in range(nrandom)]
    # structured arguments, where an implementation would switch between algorithms (series / asymptotic form / table):
    # squares of k/2 (sqrt(T) = 0.5 .. 20), every integer up to 60 and a seeded sample of multiples of 1/4 up to 200,
    # each with its two neighbouring doubles (a mask written as `<` and `>` loses exactly the boundary value)
    import math
    squares = [Fraction(k * k, 4) for k in range(1, 41)]
    others = [Fraction(k) for k in range(1, 61)] + [Fraction(rng.randint(1, 800), 4) for _ in range(20)]
    for t in sorted(set(squares)):
        f = float(t)
        ts += [Fraction(f), Fraction(math.nextafter(f, 0.0)), Fraction(math.nextafter(f, math.inf))]
    ts += [t for t in sorted(set(others)) if t not in squares]
    return [{"kind": "boys", "cls": cls, "orders": list(range(mmax + 1)), "T": [str(t) for t in ts[i:i + chunk]]}
            for i in range(0, len(ts), chunk)]


def eval_boys_case(case):
    """`boys_func` of the class (PointChargeIntegral / ElectronRepulsionIntegral), called with the array shapes the
    integral code uses, against mpmath (boys_mp, 260 bits): relative tolerance BOYS_TOL = 1e-11.  (The unchanged
    implementation, hyp1f1, is within 2e-15 for orders <= 3 and loses a factor ~2 per order: 1.2e-12 at order 12 near
    T = 55.  The integrals need far less (1e-8 / 1e-6); the sweep is there so that a Boys function that is wrong, zero
    or NaN in a window of arguments is reported with (order, T) as the failing input.)"""
    orders = [int(o) for o in case["orders"]]
    ts = [Fraction(t) for t in case["T"]]
    tf = np.array([float(t) for t in ts])
    if case["cls"] == "eri":
        from gbasis.integrals.electron_repulsion import ElectronRepulsionIntegral as cls
        o = np.array(orders)[:, None, None, None, None]
        w = tf[None, :, None, None, None]
        tail = (1, 1, 1)
    else:
        from gbasis.integrals.point_charge import PointChargeIntegral as cls
        o = np.array(orders)[:, None, None, None]
        w = tf[None, :, None, None]
        tail = (1, 1)
    tag = "boys_func direct (%s) orders 0..%d" % (case["cls"], max(orders))
    st, impl = call_impl(cls.boys_func, o, w)
    if st != "ok":
        return {"detail": {"kind": "rejected", "impl": impl}, "tag": tag, "nontrivial": True}
    exact = [[round_dyadic(boys_mp(m, mpf_of(t))) for t in ts] for m in orders]
    impl = np.asarray(impl)
    if tuple(impl.shape) != (len(orders), len(ts)) + tail:
        return {"detail": {"kind": "shape", "impl_shape": list(impl.shape),
                           "model_shape": [len(orders), len(ts)] + list(tail)}, "tag": tag, "nontrivial": True}
    d = compare(impl.reshape(len(orders), len(ts)), exact, tol_fn=lambda idx: BOYS_TOL * float(exact[idx[0]][idx[1]]))
    if d is not None and "index" in d:
        d["order"] = orders[d["index"][0]]
        d["T"] = "%r" % float(ts[d["index"][1]])
        d["tolerance_rule"] = "1e-11 relative to the exact F_m(T) (mpmath)"
    return {"detail": d, "tag": tag, "nontrivial": True}


def shrink_boys_case(case):
    if len(case["T"]) > 1:
        for t in case["T"]:
            yield dict(case, T=[t])
    if len(case["orders"]) > 1:
        for o in case["orders"]:
            yield dict(case, orders=[o])


# ----------------------------------------------------------------------------------------------
# reporting
# ----------------------------------------------------------------------------------------------
def case_hash(obj):
    return hashlib.sha1(json.dumps(obj, sort_keys=True, default=str).encode()).hexdigest()[:12]


def load_known_findings():
    path = os.path.join(VERIF, "KNOWN_FINDINGS.json")
    if not os.path.exists(path):
        return []
    with open(path) as f:
        return json.load(f).get("findings", [])


class Report:
    """Collects the outcome of one check run and writes evidence / replay files."""

    def __init__(self, pid, tier, seed):
        self.pid = pid
        self.tier = tier
        self.seed = seed
        self.t0 = time.time()
        self.evaluations = 0
        self.hashes = set()
        self.nontrivial = set()
        self.samples = []
        self.violations = []
        self.known = []
        self.dist = {}
        self.notes = []

    def count(self, case_json, nontrivial=True, tag=None):
        self.evaluations += 1
        h = case_hash(case_json)
        self.hashes.add(h)
        if nontrivial:
            self.nontrivial.add(h)
        if len(self.samples) < 3:
            self.samples.append(case_json)
        if tag is not None:
            self.dist[tag] = self.dist.get(tag, 0) + 1

    def violation(self, case_json, detail, kind="input"):
        h = case_hash(case_json)
        path = os.path.join(WORK, "replay", "%s-%s.json" % (self.pid, h))
        with open(path, "w") as f:
            json.dump(
                {"property": self.pid, "kind": kind, "seed": self.seed, "tier": self.tier, "case": case_json,
                 "detail": detail,
                 "replay_cmd": "./check %s --replay %s" % (self.pid, path)},
                f, indent=1, default=str)
        self.violations.append((path, kind, detail))
        return path

    def known_finding(self, text):
        if text not in self.known:
            self.known.append(text)

    def finish(self, proof, rule, extra=None, assumptions=None):
        """proof: dict from coqaudit (obligations, discharged, checker_cmd, trusted_base, broken)."""
        wall = time.time() - self.t0
        cov = {
            "obligations": proof["obligations"],
            "discharged": proof["discharged"],
            "checker_cmd": proof["checker_cmd"],
            "trusted_base": proof["trusted_base"],
            "theorems": proof.get("theorems", []),
            "axioms_reported": proof.get("axioms", []),
            "evaluations": self.evaluations,
            "distinct_nontrivial": len(self.nontrivial),
            "distinct": len(self.hashes),
            "rule": rule,
            "samples": self.samples,
            "input_distribution": self.dist,
            "known_findings_hit": self.known,
        }
        if extra:
            cov.update(extra)
        ev = {
            "property_id": self.pid,
            "tier": self.tier,
            "seed": self.seed,
            "level": "proof",
            "coverage": cov,
            "assumptions": assumptions or [],
            "wall_s": round(wall, 2),
            "violations": len(self.violations),
        }
        # VERIF_EVIDENCE_DIR: runs against a mutated scratch tree (tools/try_seed_wt.sh) must not overwrite
        # the evidence of the unchanged tree
        evdir = os.environ.get("VERIF_EVIDENCE_DIR") or os.path.join(VERIF, "evidence")
        os.makedirs(evdir, exist_ok=True)
        with open(os.path.join(evdir, self.pid + ".json"), "w") as f:
            json.dump(ev, f, indent=1, default=str)
        for k in self.known:
            print("KNOWN-FINDING: property=%s %s" % (self.pid, k))
        for (path, kind, detail) in self.violations:
            suffix = " no-failing-input-found" if kind != "input" else ""
            print("VIOLATION property=%s replay=%s%s" % (self.pid, path, suffix))
        print("[%s] tier=%s seed=%d evaluations=%d distinct_nontrivial=%d obligations=%d/%d violations=%d wall=%.1fs"
              % (self.pid, self.tier, self.seed, self.evaluations, len(self.nontrivial), proof["discharged"],
                 proof["obligations"], len(self.violations), wall))
        return 1 if self.violations else 0


# ----------------------------------------------------------------------------------------------
# running cases (in parallel), shrinking
# ----------------------------------------------------------------------------------------------
_WORKER_MODEL = None
_WORKER_EVAL = None


def _worker_init(evalfn):
    global _WORKER_MODEL, _WORKER_EVAL
    _WORKER_MODEL = ModelProc()
    _WORKER_EVAL = evalfn


def _worker_run(case):
    try:
        return (case, _WORKER_EVAL(_WORKER_MODEL, case), None)
    except Exception as exc:  # noqa: BLE001
        import traceback

        return (case, None, traceback.format_exc()[-2000:])


def _iso_child(conn, evalfn, case, need_model):
    import traceback

    model = None
    try:
        model = ModelProc() if need_model else None
        msg = (evalfn(model, case), None)
    except Exception:  # noqa: BLE001
        msg = (None, traceback.format_exc()[-2000:])
    try:
        conn.send(msg)
        conn.close()
    finally:
        if model is not None:
            model.close()
        os._exit(0)


def eval_isolated(evalfn, case, need_model=True, timeout=3600):
    """evalfn(model, case) in a FRESH fork of the calling process with its own model co-process.

    Used for the checks with history streams (sequences of calls inside one case): state the implementation keeps
    between calls (module-level caches, aliased arrays) must not leak from one shrink candidate / replayed case into
    the next, otherwise a shrunk case could fail only because of what the shrinker evaluated before it.  The caller
    must not have evaluated cases itself (run_cases(isolate=True) never does: workers and these children do)."""
    import multiprocessing as mp

    ctx = mp.get_context("fork")
    rd, wr = ctx.Pipe(duplex=False)
    p = ctx.Process(target=_iso_child, args=(wr, evalfn, case, need_model))
    p.start()
    wr.close()
    try:
        if not rd.poll(timeout):
            raise RuntimeError("isolated evaluation timed out")
        out, err = rd.recv()
    except EOFError:
        out, err = None, "isolated evaluation died without an answer"
    finally:
        p.join(5)
        if p.is_alive():
            p.kill()
    if err:
        raise RuntimeError(err)
    return out


def shrink_isolated(case, detail, evalfn, shrinkfn, known=None, need_model=True, budget=100):
    """Shrinking for history checks: the reported case is first re-evaluated alone in a fresh process (what
    `--replay` will do); if the failure is not reproduced there it depended on earlier calls of the worker that
    found it and is reported unshrunk with that remark; otherwise every candidate is evaluated in its own fresh
    process, so a shrunk sequence fails on its own."""
    class _Iso:            # stands for the model argument of lib.shrink; evalfn never sees it
        pass

    def ev(_m, cand):
        return eval_isolated(evalfn, cand, need_model=need_model)

    try:
        out = ev(None, case)
    except Exception:  # noqa: BLE001
        return case, detail
    d = out.get("detail")
    if d is None or (known and known(case, d)):
        detail = dict(detail)
        detail["fresh_process"] = ("not reproduced when this case is evaluated alone in a fresh process: the failure "
                                   "depends on calls made earlier by the worker process that found it")
        return case, detail
    return shrink(_Iso(), case, d, ev, shrinkfn, known, budget=budget)


def run_cases(rep, cases, evalfn, shrinkfn=None, nproc=None, known=None, isolate=False):
    """evalfn(model, case) -> dict(detail=None|dict, nontrivial=bool, tag=str).

    A harness exception on a case is reported as a broken correspondence (see below), never as a value verdict.
    known(case, detail) -> text or None: a listed known finding (reported, not a violation).
    isolate: (checks with history streams) this process never evaluates a case itself; a short case list (replay) is
    evaluated one case per fresh process and shrinking uses shrink_isolated.
    """
    import multiprocessing as mp

    if not cases:
        return
    nproc = nproc or min(16, max(1, len(cases)))
    results = []
    if isolate and (nproc == 1 or len(cases) < 4):
        for c in cases:
            try:
                results.append((c, eval_isolated(evalfn, c), None))
            except RuntimeError as exc:
                results.append((c, None, str(exc)))
    elif nproc == 1 or len(cases) < 4:
        model = ModelProc()
        for c in cases:
            results.append((c, evalfn(model, c), None))
        model.close()
    else:
        ctx = mp.get_context("fork")
        with ctx.Pool(nproc, initializer=_worker_init, initargs=(evalfn,)) as pool:
            for r in pool.imap_unordered(_worker_run, cases, chunksize=1):
                results.append(r)
    results.sort(key=lambda r: json.dumps(r[0], sort_keys=True, default=str))
    shr_model = None
    for case, out, err in results:
        if err is not None:
            # The correspondence could not be evaluated on this case: the implementation returned something the
            # comparison code cannot digest (wrong shape, wrong type, ...) - which never happens on the unchanged tree.
            # That is a broken correspondence, not a verdict on a value: it is reported as a violation whose replay
            # names the case and the exception, flagged no-failing-input-found (kind != "input").  More than three of
            # them abort the run as a harness error.
            nexc = sum(1 for v in rep.violations if v[1] == "correspondence")
            if nexc >= 3:
                raise RuntimeError("harness error on case %s:\n%s" % (json.dumps(case, default=str)[:500], err))
            rep.count(case, nontrivial=True, tag="harness-exception")
            rep.violation(case, {"kind": "harness-exception", "trace": err,
                                 "note": "the comparison code raised on this case; on the unchanged tree it does not"},
                          kind="correspondence")
            continue
        rep.count(case, nontrivial=out.get("nontrivial", True), tag=out.get("tag"))
        for sk, sv in (out.get("stats") or {}).items():      # optional per-case counters, summed
            rep.dist["stat:" + sk] = rep.dist.get("stat:" + sk, 0) + sv
        detail = out.get("detail")
        if isinstance(detail, dict) and detail.get("kind") == "hp-replay-failed":
            # (harness/hpnum.py) the high-precision replay could not EXECUTE the kernel source of the working tree:
            # a broken correspondence (reported once or twice, flagged no-failing-input-found), not a value verdict;
            # all float streams of the run have been evaluated by now
            if sum(1 for v in rep.violations if v[1] == "correspondence") < 2:
                rep.violation(case, detail, kind="correspondence")
            continue
        if detail is not None:
            if known is not None:
                k = known(case, detail)
                if k:
                    rep.known_finding(k)
                    continue
            if shrinkfn is not None and len(rep.violations) < 3:
                if isolate:
                    case, detail = shrink_isolated(case, detail, evalfn, shrinkfn, known)
                else:
                    if shr_model is None:
                        shr_model = ModelProc()
                    case, detail = shrink(shr_model, case, detail, evalfn, shrinkfn, known)
            if len(rep.violations) < 20:
                rep.violation(case, detail)
    if shr_model is not None:
        shr_model.close()


def shrink(model, case, detail, evalfn, shrinkfn, known=None, budget=60):
    """Greedy shrinking: shrinkfn(case) yields simpler candidate cases."""
    steps = 0
    improved = True
    while improved and steps < budget:
        improved = False
        for cand in shrinkfn(case):
            steps += 1
            if steps >= budget:
                break
            try:
                out = evalfn(model, cand)
            except Exception:  # noqa: BLE001
                continue
            d = out.get("detail")
            if d is not None and not (known and known(cand, d)):
                case, detail = cand, d
                improved = True
                break
    return case, detail


def shrink_shell_json(sj):
    """Simpler variants of one shell (json form)."""
    out = []
    k = len(sj["exps"])
    m = len(sj["coeffs"][0])
    if k > 1:
        for drop in range(k):
            t = dict(sj)
            t["exps"] = sj["exps"][:drop] + sj["exps"][drop + 1:]
            t["coeffs"] = sj["coeffs"][:drop] + sj["coeffs"][drop + 1:]
            out.append(t)
    if m > 1:
        for drop in range(m):
            t = dict(sj)
            t["coeffs"] = [row[:drop] + row[drop + 1:] for row in sj["coeffs"]]
            out.append(t)
    if sj["l"] > 0:
        t = dict(sj)
        t["l"] = sj["l"] - 1
        out.append(t)
    if sj.get("sph"):
        t = dict(sj)
        t["sph"] = False
        out.append(t)
    if any(c != "0" for c in sj["coord"]):
        for ax in range(3):
            if sj["coord"][ax] != "0":
                t = dict(sj)
                t["coord"] = list(sj["coord"])
                t["coord"][ax] = "0"
                out.append(t)
    if any(e != "1" for e in sj["exps"]) and k == 1:
        t = dict(sj)
        t["exps"] = ["1"]
        out.append(t)
    if any(c != "1" for row in sj["coeffs"] for c in row):
        t = dict(sj)
        t["coeffs"] = [["1" for _ in row] for row in sj["coeffs"]]
        out.append(t)
    # never shrink to the zero function: every coefficient column keeps a non-zero entry
    def _ok(t):
        cols = list(zip(*t["coeffs"]))
        return all(any(Fraction(c) != 0 for c in col) for col in cols)
    return [t for t in out if _ok(t)]


# ----------------------------------------------------------------------------------------------
# in-Coq cross-check of the extracted runner (same commands evaluated by vm_compute)
# ----------------------------------------------------------------------------------------------
def _sx_to_coq(obj):
    """nested python (from parse_sx, or ints/Fractions) -> Coq term of type sx"""
    if isinstance(obj, list):
        return "SL [" + "; ".join(_sx_to_coq(o) for o in obj) + "]"
    if isinstance(obj, Fraction):
        return "SQ (%d) %d" % (obj.numerator, obj.denominator)
    raise TypeError(obj)


def _raw_to_coq(s):
    """driver wire text -> Coq term of type sx, keeping SZ/SQ distinction as on the wire"""
    out = []
    pos = 0
    n = len(s)
    first = [True]

    def sep():
        if not first[-1]:
            out.append("; ")
        first[-1] = False

    while pos < n:
        ch = s[pos]
        if ch == "(":
            sep()
            out.append("SL [")
            first.append(True)
            pos += 1
        elif ch == ")":
            out.append("]")
            first.pop()
            pos += 1
        elif ch in " \n\t":
            pos += 1
        else:
            st = pos
            while pos < n and s[pos] not in " ()\n\t":
                pos += 1
            t = s[st:pos]
            sep()
            if "/" in t:
                a, b = t.split("/")
                out.append("SQ (%s) %s" % (a, b))
            else:
                out.append("SZ (%s)" % t)
    return "".join(out)


def coq_crosscheck(pid, cmds, timeout=600):
    """Evaluate `cmds` with the extracted driver and inside Coq (vm_compute) with the same oracle table;
    returns (n_checked, list of mismatching commands)."""
    if not cmds:
        return 0, []
    model = ModelProc()
    model.log = []
    results = [model.call_raw(c).strip() for c in cmds]
    log = list(model.log)
    pi = model.pi
    model.close()
    fcode = {"sqrt": 1, "exp": 2, "ln": 3, "boys": 4}
    rows = []
    for fn, extra, arg, val in log:
        rows.append("(%d, %d, (%d, %d), (%d, %d))" % (fcode[fn], int(extra) if extra is not None else 0,
                                                        arg.numerator, arg.denominator, val.numerator, val.denominator))
    lines = [
        "From Coq Require Import ZArith QArith Qcanon List. Import ListNotations.",
        "From GB Require Import Base.Field Extract.Sx Extract.Run.",
        "Local Open Scope Z_scope.",
        "Definition tbl : list (Z * Z * (Z * Z) * (Z * Z)) := [%s]." % ";\n ".join(rows),
        "Definition lk (f e : Z) (x : Qc) : Qc :=",
        "  match find (fun '(f', e', (n, d), _) => Z.eqb f f' && Z.eqb e e' && Z.eqb n (qc_num x) && Z.eqb d (Zpos (qc_den x))) tbl with",
        "  | Some (_, _, _, (vn, vd)) => qc_of vn (Z.to_pos vd) | None => qc_of 0 1 end.",
        "Definition KK := QcK false (qc_of (%d) %d) (lk 1 0) (lk 2 0) (lk 3 0) (fun m => lk 4 (Z.of_nat m))." % (
            pi.numerator, pi.denominator),
    ]
    for i, (c, r) in enumerate(zip(cmds, results)):
        lines.append("Definition cmd%d : sx := %s." % (i, _raw_to_coq(c)))
        lines.append("Definition res%d : sx := %s." % (i, _raw_to_coq(r)))
        lines.append("Eval vm_compute in (sx_eqb (run KK cmd%d) res%d)." % (i, i))
    path = os.path.join(WORK, "xcheck_%s.v" % pid)
    with open(path, "w") as f:
        f.write("\n".join(lines) + "\n")
    p = subprocess.run(["timeout", str(timeout), "coqc", "-Q", os.path.join(VERIF, "coq"), "GB", path],
                       capture_output=True, text=True, cwd=WORK)
    verdicts = [ln.strip() for ln in p.stdout.splitlines() if ln.strip().startswith("= ")]
    bad = []
    if p.returncode != 0 or len(verdicts) != len(cmds):
        return 0, ["coqc failed: " + (p.stderr or p.stdout)[-800:]]
    for c, v in zip(cmds, verdicts):
        if not v.startswith("= true"):
            bad.append(c)
    return len(cmds), bad
