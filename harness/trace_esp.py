"""Trace translator for gbasis/evals/electrostatic_potential.py (DESIGN.md "C14", section 8 "trusted base").

Every run executes the CURRENT source of <repo>/gbasis/evals/electrostatic_potential.py with
  * `point_charge_integral` replaced (in this process only) by a stub that records its arguments and returns formal
    symbols V(a,b,p),
  * the density matrix replaced by formal symbols P(a,b) and the nuclear charges by formal symbols Z(A)
    (np.allclose(P, P.T) is the only NumPy call that is intercepted: it must be applied to P and its transpose),
  * concrete points / nuclei with exactly representable (Pythagorean) distances and a list of concrete thresholds
    below / at / above those distances, with no transform, a square and two rectangular transforms.
The NumPy code then builds, for every point, a polynomial in these symbols.  It must be of the form
        sum_A c_A Z(A)  +  sum_{a,b,p'} e_{a,b,p'} P(a,b) V(a,b,p')
(anything else is an error) and is written, with the recorded stub arguments, to coq/Gen/EspTrace.v (definitions
only).  coq/Proofs/EspTraceP.v proves by computation that every traced combination is the model's formula
(Model/Esp.esp_values) on the same geometry.  Fail-closed: anything this file does not understand raises TraceError and
the generated file then does not compile; nothing is defaulted.
"""
import importlib
import os
import sys
from fractions import Fraction

import numpy as np

VERIF = os.path.dirname(os.path.dirname(os.path.abspath(__file__)))
GEN = os.path.join(VERIF, "coq", "Gen", "EspTrace.v")


class TraceError(Exception):
    pass


def num(c):
    if isinstance(c, bool):
        raise TraceError("boolean used as a number")
    if isinstance(c, (int, np.integer)):
        return Fraction(int(c))
    if isinstance(c, (float, np.floating)):
        f = float(c)
        if f != f or f in (float("inf"), float("-inf")):
            raise TraceError("non-finite constant")
        return Fraction(f)
    if isinstance(c, Fraction):
        return c
    raise TraceError("cannot interpret %r as a number" % (type(c),))


class Poly:
    """polynomial in formal atoms with exact rational coefficients"""
    __slots__ = ("d",)
    __array_priority__ = 1000

    def __init__(self, d=None):
        self.d = {k: v for k, v in (d or {}).items() if v != 0}

    @staticmethod
    def atom(a):
        return Poly({(a,): Fraction(1)})

    def __add__(self, o):
        o = as_poly(o)
        r = dict(self.d)
        for k, v in o.d.items():
            r[k] = r.get(k, 0) + v
        return Poly(r)

    __radd__ = __add__

    def __neg__(self):
        return Poly({k: -v for k, v in self.d.items()})

    def __sub__(self, o):
        return self + (-as_poly(o))

    def __rsub__(self, o):
        return as_poly(o) + (-self)

    def __mul__(self, o):
        o = as_poly(o)
        r = {}
        for k1, v1 in self.d.items():
            for k2, v2 in o.d.items():
                k = tuple(sorted(k1 + k2))
                r[k] = r.get(k, 0) + v1 * v2
        return Poly(r)

    __rmul__ = __mul__

    def __truediv__(self, o):
        if isinstance(o, Poly):
            raise TraceError("division by a symbolic value")
        q = num(o)
        if q == 0:
            raise TraceError("division of a symbolic value by zero (the trace geometry has no point on a nucleus)")
        return Poly({k: v / q for k, v in self.d.items()})

    def __rtruediv__(self, o):
        raise TraceError("division by a symbolic value")

    def __pow__(self, o):
        raise TraceError("power of a symbolic value")

    def __eq__(self, o):
        raise TraceError("equality test on a symbolic value")

    def __hash__(self):
        return id(self)

    def __bool__(self):
        raise TraceError("truth value of a symbolic value requested")

    def __lt__(self, o):
        raise TraceError("order comparison on a symbolic value")

    __gt__ = __le__ = __ge__ = __lt__

    def __float__(self):
        raise TraceError("float() of a symbolic value")

    def __abs__(self):
        raise TraceError("abs() of a symbolic value")

    def __repr__(self):
        return "Poly(%r)" % (self.d,)


def as_poly(o):
    if isinstance(o, Poly):
        return o
    if isinstance(o, np.ndarray):
        raise TraceError("array where a scalar was expected")
    return Poly({(): num(o)})


def symarr(shape, fill):
    out = np.empty(shape, dtype=object)
    for idx in np.ndindex(out.shape):
        out[idx] = fill(idx)
    return out


class NPProxy:
    """numpy as seen by electrostatic_potential.py: everything is the real numpy except allclose, which is only
    understood as the symmetry test of the density matrix"""

    def __init__(self, events, m):
        self._events = events
        self._m = m

    def __getattr__(self, name):
        return getattr(np, name)

    def allclose(self, a, b, *r, **k):
        if r or k:
            raise TraceError("allclose with tolerances is not the understood form")
        for x, tr in ((a, False), (b, True)):
            if not (isinstance(x, np.ndarray) and x.dtype == object and x.shape == (self._m, self._m)):
                raise TraceError("allclose applied to something that is not the density matrix")
            for i in range(self._m):
                for j in range(self._m):
                    want = ("P", j, i) if tr else ("P", i, j)
                    if not (isinstance(x[i, j], Poly) and x[i, j].d == {(want,): Fraction(1)}):
                        raise TraceError("allclose compares something else than P with its transpose")
        self._events.append("symmetry_checked")
        return True


# ------------------------------------------------------------------------------------------------
# the traced configurations
# ------------------------------------------------------------------------------------------------
# nuclei and points with exactly representable distances (3-4-5, 5-12-13, 1-2-2-3, 2-3-6-7 offsets)
NUCLEI = [(Fraction(0), Fraction(0), Fraction(0)), (Fraction(3), Fraction(4), Fraction(0)),
          (Fraction(-1), Fraction(-2), Fraction(2))]
POINTS = [(Fraction(3), Fraction(0), Fraction(0)),            # 3, 4, sqrt(24): not exact -> replaced below
          (Fraction(0), Fraction(0), Fraction(12)),
          (Fraction(1), Fraction(2), Fraction(2))]


def exact_dist(p, n):
    import math
    d2 = sum((a - b) ** 2 for a, b in zip(p, n))
    a, b = math.isqrt(d2.numerator), math.isqrt(d2.denominator)
    if a * a != d2.numerator or b * b != d2.denominator:
        return None
    return Fraction(a, b)


def geometry():
    """points whose distance to EVERY nucleus is rational and non-zero (searched on a small lattice, deterministic)"""
    nuclei = [(Fraction(0), Fraction(0), Fraction(0)), (Fraction(6), Fraction(0), Fraction(0))]
    pts = []
    for x2 in range(-16, 33):
        for y2 in range(0, 25):
            p = (Fraction(x2, 2), Fraction(y2, 2), Fraction(0))
            ds = [exact_dist(p, n) for n in nuclei]
            if all(d is not None and d > 0 for d in ds) and y2 > 0:
                pts.append(p)
    # keep a few with different distance patterns
    pts = sorted(pts, key=lambda p: (exact_dist(p, nuclei[0]), exact_dist(p, nuclei[1])))
    chosen = [pts[0], pts[len(pts) // 2], pts[-1]]
    # plus an on-axis point between the nuclei
    chosen.append((Fraction(2), Fraction(0), Fraction(0)))
    return nuclei, chosen


def thresholds(nuclei, points):
    ds = sorted({exact_dist(p, n) for p in points for n in nuclei})
    out = [Fraction(0)]
    for d in ds:
        out += [d * (1 - Fraction(1, 2 ** 30)), d, d * (1 + Fraction(1, 2 ** 30))]
    out.append(2 * ds[-1] + 1)
    for t in out:
        if Fraction(float(t)) != t:
            raise TraceError("internal: threshold not representable")
    return out


class DummyShell:
    """stands for a GeneralizedContractionShell in the size check only"""

    def __init__(self, coord_type, num_cart, num_sph, num_seg_cont):
        self.coord_type = coord_type
        self.num_cart = num_cart
        self.num_sph = num_sph
        self.num_seg_cont = num_seg_cont
        self.angmom = 0


def load_module(repo):
    if sys.path[0] != repo:
        sys.path.insert(0, repo)
    name = "gbasis.evals.electrostatic_potential"
    if name in sys.modules:
        mod = importlib.reload(sys.modules[name])
    else:
        mod = importlib.import_module(name)
    if not os.path.abspath(mod.__file__).startswith(os.path.abspath(repo)):
        raise TraceError("electrostatic_potential imported from %s, not from the tree under test" % mod.__file__)
    return mod


def trace_one(mod, basis, nf, T, nuclei, points, thr):
    """run the source once; returns (per-point polynomials, recorded stub call)"""
    m = nf if T is None else T.shape[0]
    events = []
    calls = []
    npts = len(points)
    pts_arr = np.array([[float(x) for x in p] for p in points])
    nuc_arr = np.array([[float(x) for x in n] for n in nuclei])
    P = symarr((m, m), lambda idx: Poly.atom(("P", idx[0], idx[1])))
    Z = symarr((len(nuclei),), lambda idx: Poly.atom(("Z", idx[0])))

    def stub(b, pc, pq, transform=None, **kw):
        if kw:
            raise TraceError("point_charge_integral called with unknown keyword arguments %r" % (sorted(kw),))
        if b is not basis:
            raise TraceError("point_charge_integral called with a different basis object")
        if not (isinstance(pc, np.ndarray) and pc.shape == pts_arr.shape and np.array_equal(pc, pts_arr)):
            raise TraceError("point_charge_integral not called with the requested points")
        if not (isinstance(pq, np.ndarray) and pq.shape == (npts,) and pq.dtype != object):
            raise TraceError("point_charge_integral called with unexpected charges")
        if (transform is None) != (T is None) or (T is not None and transform is not T):
            raise TraceError("point_charge_integral not called with the caller's transform")
        calls.append([Fraction(float(q)) for q in pq])
        return symarr((m, m, npts), lambda idx: Poly.atom(("V", idx[0], idx[1], idx[2])))

    saved = (mod.point_charge_integral, mod.np)
    mod.point_charge_integral = stub
    mod.np = NPProxy(events, m)
    try:
        with np.errstate(all="raise"):
            out = mod.electrostatic_potential(basis, P, pts_arr, nuc_arr, Z, transform=T, threshold_dist=float(thr))
    finally:
        mod.point_charge_integral, mod.np = saved
    if len(calls) != 1:
        raise TraceError("point_charge_integral called %d times" % len(calls))
    if events != ["symmetry_checked"]:
        raise TraceError("the symmetry test of the density matrix was not performed exactly once: %r" % (events,))
    out = np.asarray(out)
    if out.shape != (npts,):
        raise TraceError("result has shape %r, expected (%d,)" % (out.shape, npts))
    res = []
    for p in range(npts):
        poly = as_poly(out[p])
        nuc = [Fraction(0)] * len(nuclei)
        elec = {}
        for mono, c in poly.d.items():
            if len(mono) == 1 and mono[0][0] == "Z":
                nuc[mono[0][1]] += c
            elif len(mono) == 2 and mono[0][0] == "P" and mono[1][0] == "V":
                (_, i, j), (_, a, b, q) = mono
                if (i, j) != (a, b):
                    raise TraceError("product P(%d,%d) V(%d,%d,.) of mismatched indices" % (i, j, a, b))
                elec[(a, b, q)] = elec.get((a, b, q), 0) + c
            else:
                raise TraceError("unexpected monomial %r in the result" % (mono,))
        res.append((nuc, elec))
    return res, calls[0]


def zz(q):
    q = Fraction(q)
    return "((%d)%%Z, (%d)%%Z)" % (q.numerator, q.denominator)


def generate(repo):
    mod = load_module(repo)
    nuclei, points = geometry()
    thrs = thresholds(nuclei, points)
    # the size check is exercised with a cartesian, a spherical and a mixed dummy basis of 2 contractions
    bases = {"cart": [DummyShell("cartesian", 1, 1, 2)], "sph": [DummyShell("spherical", 3, 1, 2)],
             "mix": [DummyShell("cartesian", 1, 5, 1), DummyShell("spherical", 6, 1, 1)]}
    nf = 2
    transforms = [("none", None), ("square", np.array([[1.0, 0.5], [0.25, -1.0]])),
                  ("rect1", np.array([[1.0, -0.5]])), ("rect3", np.array([[1.0, 0.0], [0.5, 0.5], [-1.0, 2.0]]))]
    cases = []
    for tname, T in transforms:
        for bname, basis in (bases.items() if T is None else [("mix", bases["mix"])]):
            for thr in (thrs if bname == "mix" else thrs[:2]):
                res, charges = trace_one(mod, basis, nf, T, nuclei, points, thr)
                cases.append((tname, bname, nf if T is None else T.shape[0], thr, charges, res))
    lines = [
        "(* GENERATED by harness/trace_esp.py from gbasis/evals/electrostatic_potential.py of the tree under test.",
        "   Definitions only.  Rationals are pairs (numerator, denominator).  A case records the size m of the density",
        "   matrix, the threshold, the charges the source passed to point_charge_integral, and per point the coefficient",
        "   of every nuclear charge Z(A) and the coefficients of the products P(a,b) V(a,b,p') in the returned value.",
        "   Regenerated before every Coq build; do not edit. *)",
        "From Coq Require Import List ZArith.",
        "Import ListNotations.",
        "Definition et_q := (Z * Z)%type.",
        "Definition et_point := (list et_q * list (nat * nat * nat * et_q))%type.",
        "Definition et_case := (nat * et_q * list et_q * list et_point)%type.",
        "Definition et_nuclei : list (et_q * et_q * et_q) :=",
        "  [%s]." % "; ".join("(%s, %s, %s)" % tuple(zz(x) for x in n) for n in nuclei),
        "Definition et_points : list (et_q * et_q * et_q) :=",
        "  [%s]." % "; ".join("(%s, %s, %s)" % tuple(zz(x) for x in p) for p in points),
        "(* exact square roots of the squared distances of this geometry: (d2, d) *)",
        "Definition et_roots : list (et_q * et_q) :=",
        "  [%s]." % "; ".join(sorted({"(%s, %s)" % (zz(exact_dist(p, n) ** 2), zz(exact_dist(p, n)))
                                        for p in points for n in nuclei})),
        "Definition et_cases : list et_case :=",
    ]
    rows = []
    for (tname, bname, m, thr, charges, res) in cases:
        pts = []
        for nuc, elec in res:
            el = "; ".join("(%d, %d, %d, %s)" % (a, b, q, zz(c)) for (a, b, q), c in sorted(elec.items()))
            pts.append("([%s], [%s])" % ("; ".join(zz(c) for c in nuc), el))
        rows.append("  (* transform %s, basis %s *)\n  (%d, %s, [%s],\n   [%s])"
                    % (tname, bname, m, zz(thr), "; ".join(zz(c) for c in charges), ";\n    ".join(pts)))
    lines.append("  [\n%s\n  ]." % ";\n".join(rows))
    return "\n".join(lines) + "\n"


def write(repo):
    """regenerate coq/Gen/EspTrace.v; returns None or the reason the source could not be interpreted
    (the file then contains a definition that makes Proofs/EspTraceP.v fail)"""
    err = None
    try:
        text = generate(repo)
    except TraceError as exc:
        err = "TraceError: %s" % exc
    except Exception as exc:  # noqa: BLE001
        err = "%s: %s" % (type(exc).__name__, exc)
    if err is not None:
        text = ("(* GENERATED by harness/trace_esp.py: the translator could NOT interpret the current source:\n   %s *)\n"
                "From Coq Require Import List ZArith.\nImport ListNotations.\n"
                "Definition et_translator_failed : True := I.\n" % err.replace("*)", "* )"))
    old = None
    if os.path.exists(GEN):
        with open(GEN) as f:
            old = f.read()
    if old != text:
        with open(GEN, "w") as f:
            f.write(text)
    return err


if __name__ == "__main__":
    e = write(os.environ.get("GBASIS_REPO", "/repo"))
    print("translator:", e or "ok")
    sys.exit(3 if e else 0)
