"""C17 — integral arrays satisfy the positivity and Schwarz bounds of Gram matrices.

Drives the PUBLIC functions overlap_integral, kinetic_energy_integral, point_charge_integral and
electron_repulsion_integral of the working tree on generated bases (1-5 shells, l 0..3, generalized contractions,
Cartesian / spherical / mixed, centres from coincident to well separated, nearly linearly dependent families) and
decides the inequalities of the property on the returned arrays:

  search    numpy.linalg.eigh on the symmetrised matrix, elementwise scans;
  decision  every suspected violation is re-decided in EXACT rational arithmetic on the implementation's own float
            entries (a float is a dyadic rational): for the eigenvector c of the most negative eigenvalue the number
            c^T M c is computed with Fractions and compared with -tol * lambda_max * c^T c.  Only a direction whose
            exact quadratic form is below that bound is reported (Rayleigh: then the symmetric part of M has an
            eigenvalue below -tol*lambda_max whatever eigh's rounding was).  Schwarz / diagonal / magnitude bounds are
            likewise re-tested with Fractions.  eigh's rounding can therefore never raise an alarm.
  diagnosis for a reported case the exact model matrix (runner commands 2, 7, 15, 21) is evaluated when affordable: the
            replay file records c^T M_model c (>= 0 up to the 72-bit oracle rounding, by the Gram theorem + bridge B3)
            and max|M_impl - M_model|, i.e. whether the implementation left the tolerance ball of a true Gram matrix.
  cmp       a seeded subset of the cases is additionally compared elementwise with the exact model with the
            tolerances of C01-C04 ("within tolerance of a Gram matrix" + Proofs/GramP.perturbation is what makes
            the eigenvalue statement a consequence).

Model evaluation: extracted runner (commands 2, 7, 15, 21), exact rationals."""
import math
import random
from fractions import Fraction

import numpy as np

import twoindex
from lib import XShell, call_impl, compare, far_near_centres, gen_shell, run_cases, short_float, shrink_shell_json, sx

TOL1 = 1e-9    # overlap, kinetic, point charge: "violations below 1e-9 of the largest eigenvalue or element"
TOL2 = 1e-6    # repulsion array
TOL_DIAG = 1e-8  # unit diagonal of the overlap matrix (C01's accuracy clause)

RULE = ("bases of 1-5 shells, l 0..3, K 1-3 primitives, M 1-3 segmented contractions, each shell Cartesian or spherical "
        "(all-cart / all-sph / mixed patterns), exponents log-uniform dyadic in 0.05..50 (0.1..10 for the repulsion "
        "array); geometry families: all shells on one centre, centres 2^-k apart (k 2..16), molecular (k/16 within "
        "+-2), well separated (5..15 bohr), mixed; near-dependence families injected in about half of the cases: the "
        "same shell listed twice (also with the other coordinate type), a copy with exponents scaled by 1+2^-k "
        "(k 4..24), a copy displaced by 2^-k (k 3..20), both, a generalized-contraction column that is another column "
        "plus 2^-k; 1-3 POSITIVE point charges q in 2^-6..100 on a centre / 2^-k from a centre / between centres / "
        "near / far (up to 1000 bohr); repulsion array only on bases of <= 25 functions (quick: l <= 2, <= 16 "
        "functions) in chemists' or physicists' notation (transposed back); family one-atom-far (quick 4, thorough 48 "
        "cases): one atom at a 53-bit position 4..150 bohr per axis from the origin with a contracted f shell (two "
        "exponents in 0.2..5) alone or with a p/d/f shell on the same centre (L = 11, 12 quartets, Boys arguments of "
        "1e-31..1e-26 from product centres that differ by an ulp); family near-pair-far (quick 4, thorough 32 cases): two "
        "shells with l in 1..2 (d p, p d, p p, d d; exponents 4..10) on DISTINCT centres agreeing per component to "
        "within (0.5..0.95)e-5 RELATIVE to the coordinate, 50-100 bohr per axis from the origin (3e-4..1e-3 bohr apart), "
        "plus an s shell within 0.4 bohr, 53-bit coordinates, shuffled order, both notations (the p p s cases are also "
        "compared elementwise with the exact model). A case is non-trivial when the basis has "
        ">= 2 functions; distinct by the hash of the exact input. Decision in exact rational arithmetic on the "
        "implementation's float entries; tolerances are the property's (1e-9 / 1e-6 of the largest eigenvalue or "
        "element; unit diagonal 1e-8 as in C01).")
ASSUMPTIONS = [
    "positivity of the L2 form, of the weighted form int f g /|r-C| and of the Coulomb form on the span of the basis "
    "functions is the analytic bridge B3 (DESIGN.md 2.6): it is NOT derived in Coq from the moment functional; the Coq "
    "theorems (Props/C17.v) derive every stated bound from it for any semi-inner-product space",
    "floating-point rounding of the NumPy pipeline is not modelled: 'up to rounding' is decided on the generated "
    "inputs with the property's tolerances",
    "the eigenvalue search uses numpy.linalg.eigh; a violation whose most negative direction eigh misses entirely "
    "would go unnoticed (never the converse: every report is re-decided exactly)",
]
EXTRA = {"tolerances": {"overlap/kinetic/point-charge": TOL1, "repulsion": TOL2, "unit diagonal": TOL_DIAG},
         "decision": "exact rational arithmetic on the implementation's float entries"}


# ----------------------------------------------------------------------------------------------
# exact decisions
# ----------------------------------------------------------------------------------------------
def _frac_matrix(M):
    return [[Fraction(float(x)) for x in row] for row in M]


def exact_qf(M, c):
    """exact c^T M c and c^T c for a float matrix M and float vector c (all dyadic rationals)."""
    cq = [Fraction(float(x)) for x in c]
    n = len(cq)
    tot = Fraction(0)
    for i in range(n):
        if cq[i] == 0:
            continue
        row = M[i]
        s = Fraction(0)
        for j in range(n):
            s += Fraction(float(row[j])) * cq[j]
        tot += cq[i] * s
    return tot, sum(x * x for x in cq)


def exact_qf_model(Mq, c):
    cq = [Fraction(float(x)) for x in c]
    n = len(cq)
    tot = Fraction(0)
    for i in range(n):
        s = Fraction(0)
        for j in range(n):
            s += Mq[i][j] * cq[j]
        tot += cq[i] * s
    return tot


def definite_check(M, tol, sign, stats, name):
    """M: square float array.  sign=+1: M must be PSD, sign=-1: NSD, up to tol * (largest |eigenvalue|).
    Returns None or a detail dict (violation confirmed exactly)."""
    A = sign * np.asarray(M, dtype=float)
    n = A.shape[0]
    As = (A + A.T) / 2.0
    w, U = np.linalg.eigh(As)
    lam_max = float(np.abs(w).max()) if n else 0.0
    stats["matrices"] = stats.get("matrices", 0) + 1
    if lam_max > 0 and w[0] < 1e-8 * lam_max:
        stats["near_singular"] = stats.get("near_singular", 0) + 1
    if n and lam_max > 0 and w[0] < 0:      # how close the clean tree comes to the tolerance (evidence only)
        r = -w[0] / (tol * lam_max)
        if r > 0.01:
            stats["neg_eig_within_100x_of_tol"] = stats.get("neg_eig_within_100x_of_tol", 0) + 1
        if r > 0.1:
            stats["neg_eig_within_10x_of_tol"] = stats.get("neg_eig_within_10x_of_tol", 0) + 1
    if n == 0 or w[0] >= -0.5 * tol * lam_max:
        return None
    # suspected: decide exactly, in the direction eigh proposes (and, as a second candidate, the same vector
    # rounded to 24 bits, whose quadratic form is cheap and equally valid as a witness)
    stats["suspected"] = stats.get("suspected", 0) + 1
    c = U[:, 0]
    q, nrm = exact_qf(A, c)
    lam_up = Fraction(lam_max) * (1 + Fraction(1, 1 << 20))
    bound = -Fraction(tol) * lam_up * nrm
    if q < bound:
        return {"kind": "not-%s-semidefinite" % ("positive" if sign > 0 else "negative"), "matrix": name,
                "min_eig_float_of_signed_matrix": float(w[0]), "lambda_max": lam_max,
                "exact_qf_over_norm": float(q / nrm), "bound": float(bound / nrm), "tol": tol,
                "direction": [float(x) for x in c], "n": n}
    stats["suspected_not_confirmed"] = stats.get("suspected_not_confirmed", 0) + 1
    return None


def symmetry_check(M, tol, name):
    M = np.asarray(M, dtype=float)
    scale = float(np.abs(M).max()) if M.size else 0.0
    D = np.abs(M - M.T)
    if M.size and D.max() > tol * scale:
        i, j = np.unravel_index(int(D.argmax()), D.shape)
        # exact re-test
        if abs(Fraction(float(M[i, j])) - Fraction(float(M[j, i]))) > Fraction(tol) * Fraction(scale):
            return {"kind": "not-symmetric", "matrix": name, "index": [int(i), int(j)],
                    "impl": [repr(float(M[i, j])), repr(float(M[j, i]))], "tol": tol * scale}
    return None


# ----------------------------------------------------------------------------------------------
# one-electron case
# ----------------------------------------------------------------------------------------------
def _pts(case):
    return [[Fraction(x) for x in p] for p in case["pts"]]


def _model_diag(model, cmd, detail, pick=None):
    """attach c^T M_model c and max|impl-model| to a confirmed definiteness violation (diagnosis only)"""
    try:
        res = model.call(cmd)
        if pick is not None:
            res = pick(res)
        c = detail["direction"]
        qm = exact_qf_model(res, c)
        nrm = sum(Fraction(float(x)) ** 2 for x in c)
        detail["model_qf_over_norm"] = float(qm / nrm)
        return res
    except Exception as exc:  # noqa: BLE001  diagnosis must never turn a verdict into a crash
        detail["model_diag_error"] = str(exc)[:200]
        return None


def eval_one(model, case):
    from gbasis.integrals.kinetic_energy import kinetic_energy_integral
    from gbasis.integrals.overlap import overlap_integral
    from gbasis.integrals.point_charge import point_charge_integral

    basis = [XShell.from_json(s) for s in case["basis"]]
    gb = [s.to_gbasis() for s in basis]
    n = sum(s.nfun() for s in basis)
    pts = _pts(case)
    tag = "one n=%d" % len(basis)
    stats = _dims(case, basis, n)
    out = {"nontrivial": n >= 2, "tag": tag, "stats": stats, "detail": None}
    bsx = twoindex.basis_sx(basis)

    def fail(d):
        out["detail"] = d
        return out

    # ---- overlap ----
    st, S = call_impl(overlap_integral, gb)
    if st != "ok":
        return fail({"kind": "rejected", "matrix": "overlap", "impl": S})
    S = np.asarray(S)
    if S.shape != (n, n) or not np.all(np.isfinite(S)):
        return fail({"kind": "shape-or-nonfinite", "matrix": "overlap", "shape": list(S.shape), "expected": [n, n]})
    d = symmetry_check(S, TOL1, "overlap")
    if d:
        return fail(d)
    dg = np.abs(np.diag(S) - 1.0)
    if dg.max() > TOL_DIAG and abs(Fraction(float(S[dg.argmax(), dg.argmax()])) - 1) > Fraction(TOL_DIAG):
        i = int(dg.argmax())
        return fail({"kind": "diagonal-not-1", "matrix": "overlap", "index": i, "impl": repr(float(S[i, i]))})
    am = np.abs(S)
    if am.max() > 1.0 + TOL1:
        i, j = np.unravel_index(int(am.argmax()), am.shape)
        if abs(Fraction(float(S[i, j]))) > 1 + Fraction(TOL1):
            return fail({"kind": "magnitude>1", "matrix": "overlap", "index": [int(i), int(j)],
                         "impl": repr(float(S[i, j])), "tol": TOL1})
    d = definite_check(S, TOL1, +1, stats, "overlap")
    if d:
        mres = _model_diag(model, "(2 %s ())" % bsx, d)
        if mres is not None:
            d["max_abs_impl_minus_model"] = _maxdiff(S, mres)
        return fail(d)

    # ---- kinetic ----
    st, T = call_impl(kinetic_energy_integral, gb)
    if st != "ok":
        return fail({"kind": "rejected", "matrix": "kinetic", "impl": T})
    T = np.asarray(T)
    if T.shape != (n, n) or not np.all(np.isfinite(T)):
        return fail({"kind": "shape-or-nonfinite", "matrix": "kinetic", "shape": list(T.shape), "expected": [n, n]})
    d = symmetry_check(T, TOL1, "kinetic") or definite_check(T, TOL1, +1, stats, "kinetic")
    if d:
        if "direction" in d:
            mres = _model_diag(model, "(7 %s ())" % bsx, d)
            if mres is not None:
                d["max_abs_impl_minus_model"] = _maxdiff(T, mres)
        return fail(d)

    # ---- point charges (each positive charge separately) ----
    V = None
    if pts:
        pc = np.array([[float(x) for x in p[:3]] for p in pts])
        pq = np.array([float(p[3]) for p in pts])
        st, V = call_impl(point_charge_integral, gb, pc, pq)
        if st != "ok":
            return fail({"kind": "rejected", "matrix": "point_charge", "impl": V})
        V = np.asarray(V)
        if V.shape != (n, n, len(pts)) or not np.all(np.isfinite(V)):
            return fail({"kind": "shape-or-nonfinite", "matrix": "point_charge", "shape": list(V.shape),
                         "expected": [n, n, len(pts)]})
        for k in range(len(pts)):
            name = "point_charge[%d]" % k
            d = symmetry_check(V[:, :, k], TOL1, name) or definite_check(V[:, :, k], TOL1, -1, stats, name)
            if d:
                d["charge"] = [str(x) for x in pts[k]]
                if "direction" in d:
                    mres = _model_diag(model, "(15 %s %s ())" % (sx([pts[k]]), bsx), d,
                                       pick=lambda r: [[-e[0] for e in row] for row in r])
                    if mres is not None:   # mres is -V_model (the matrix that must be PSD)
                        d["max_abs_impl_minus_model"] = _maxdiff(-V[:, :, k], mres)
                return fail(d)

    # ---- elementwise comparison with the exact model (seeded subset) ----
    if case.get("cmp"):
        stats["cmp_cases"] = 1
        res = model.call("(2 %s ())" % bsx)
        d = compare(S, res, tol_abs=1e-8)
        if d:
            d["matrix"] = "overlap (elementwise vs exact model, C01 tolerance)"
            return fail(d)
        res = model.call("(7 %s ())" % bsx)
        diag = [float(res[i][i]) for i in range(n)]
        d = compare(T, res, tol_fn=lambda idx: 1e-8 * (diag[idx[0]] * diag[idx[1]]) ** 0.5)
        if d:
            d["matrix"] = "kinetic (elementwise vs exact model, C02 tolerance)"
            return fail(d)
        if pts:
            res = model.call("(15 %s %s ())" % (sx(pts), bsx))
            vd = [[abs(float(res[i][i][k])) for k in range(len(pts))] for i in range(n)]
            d = compare(V, res, tol_fn=lambda idx: 1e-8 * (vd[idx[0]][idx[2]] * vd[idx[1]][idx[2]]) ** 0.5)
            if d:
                d["matrix"] = "point_charge (elementwise vs exact model, C03 tolerance)"
                return fail(d)
    return out


def _maxdiff(M, mres):
    M = np.asarray(M, dtype=float)
    worst = Fraction(0)
    for i in range(M.shape[0]):
        for j in range(M.shape[1]):
            dlt = abs(Fraction(float(M[i, j])) - mres[i][j])
            if dlt > worst:
                worst = dlt
    return float(worst)


def _types(basis):
    return "".join("s" if s.sph else "c" for s in basis)


def _dims(case, basis, n):
    """per-case counters of the input distribution (summed into the evidence as stat:<key>)"""
    t = _types(basis)
    pat = "all-cartesian" if "s" not in t else ("all-spherical" if "c" not in t else "mixed")
    k = case["kind"]
    d = {"%s geom=%s" % (k, case.get("geom", "?")): 1, "%s dep=%s" % (k, case.get("dep", "-")): 1,
         "%s types=%s" % (k, pat): 1, "%s lmax=%d" % (k, max(s.l for s in basis)): 1,
         "%s functions<=%d" % (k, next(b for b in (1, 4, 9, 16, 25, 50, 100, 1000) if n <= b)): 1,
         "%s generalized(M>1)" % k: int(any(len(s.coeffs[0]) > 1 for s in basis)),
         "%s contracted(K>1)" % k: int(any(len(s.exps) > 1 for s in basis))}
    for p in case.get("pts", []):
        d["charges"] = d.get("charges", 0) + 1
    return d


# ----------------------------------------------------------------------------------------------
# electron repulsion case
# ----------------------------------------------------------------------------------------------
def eri_model_affordable(basis, tier="quick"):
    n = sum(s.nfun() for s in basis)
    lmax = max(s.l for s in basis)
    kk = max(len(s.exps) for s in basis)
    if lmax <= 1:
        return n <= 9 and kk <= 2
    if lmax == 2:
        return tier == "thorough" and len(basis) <= 2 and kk == 1 and n <= 8
    return False


def eval_eri(model, case):
    from gbasis.integrals.electron_repulsion import electron_repulsion_integral

    basis = [XShell.from_json(s) for s in case["basis"]]
    gb = [s.to_gbasis() for s in basis]
    n = sum(s.nfun() for s in basis)
    notation = case.get("notation", "chemist")
    tag = "eri n=%d %s" % (len(basis), notation)
    stats = _dims(case, basis, n)
    out = {"nontrivial": n >= 2, "tag": tag, "stats": stats, "detail": None}
    bsx = twoindex.basis_sx(basis)

    def fail(d):
        out["detail"] = d
        return out

    st, G = call_impl(electron_repulsion_integral, gb, notation=notation)
    if st != "ok":
        return fail({"kind": "rejected", "matrix": "eri", "impl": G})
    G = np.asarray(G)
    if G.shape != (n, n, n, n) or not np.all(np.isfinite(G)):
        return fail({"kind": "shape-or-nonfinite", "matrix": "eri", "shape": list(G.shape), "expected": [n] * 4})
    if notation == "physicist":     # <ac|bd> stored at [a, c, b, d]: back to (ab|cd)
        G = np.transpose(G, (0, 2, 1, 3))
    M = np.ascontiguousarray(G).reshape(n * n, n * n)
    big = float(np.abs(M).max())
    d = symmetry_check(M, TOL2, "eri over pairs (ab|cd) vs (cd|ab)")
    if d:
        d["pair_index"] = [[int(x) // n, int(x) % n] for x in d["index"]]
        return fail(d)
    # (ab|ab) >= -tol * largest element
    dg = np.diag(M)
    if dg.min() < -TOL2 * big and Fraction(float(dg.min())) < -Fraction(TOL2) * Fraction(big):
        p = int(dg.argmin())
        return fail({"kind": "negative-diagonal", "matrix": "eri", "ab": [p // n, p % n], "impl": repr(float(dg[p])),
                     "largest_element": big, "tol": TOL2})
    # Schwarz: |(ab|cd)| <= sqrt((ab|ab)(cd|cd)) + tol * largest element
    r = np.sqrt(np.clip(dg, 0.0, None))
    excess = np.abs(M) - np.outer(r, r)
    stats["schwarz_elements"] = int(M.size)
    if big > 0 and excess.max() > 0.01 * TOL2 * big:
        stats["schwarz_excess_within_100x_of_tol"] = 1
    if excess.max() > 0.5 * TOL2 * big:
        p, q = np.unravel_index(int(excess.argmax()), excess.shape)
        x = abs(Fraction(float(M[p, q]))) - Fraction(TOL2) * Fraction(big)
        pp = max(Fraction(float(dg[p])), Fraction(0))
        qq = max(Fraction(float(dg[q])), Fraction(0))
        if x > 0 and x * x > pp * qq:
            return fail({"kind": "schwarz", "matrix": "eri", "abcd": [int(p) // n, int(p) % n, int(q) // n, int(q) % n],
                         "impl": repr(float(M[p, q])), "ab_ab": repr(float(dg[p])), "cd_cd": repr(float(dg[q])),
                         "largest_element": big, "tol": TOL2})
    d = definite_check(M, TOL2, +1, stats, "eri over pairs")
    if d:
        if eri_model_affordable(basis, case.get("tier", "quick")):
            mres = _model_diag(model, "(21 %s () 0)" % bsx, d, pick=lambda r4: _flat4(r4, n))
            if mres is not None:
                d["max_abs_impl_minus_model"] = _maxdiff(M, mres)
        if len(d["direction"]) > 64:
            d["direction"] = "omitted (%d entries); recomputed on replay" % len(d["direction"])
        return fail(d)
    if case.get("cmp") and eri_model_affordable(basis, case.get("tier", "quick")):
        stats["cmp_cases"] = 1
        res = model.call("(21 %s () %d)" % (bsx, 1 if notation == "physicist" else 0))
        if notation == "physicist":
            res = [[[[res[a][c][b][dd] for dd in range(n)] for c in range(n)] for b in range(n)] for a in range(n)]
        dm = [[float(res[a][b][a][b]) for b in range(n)] for a in range(n)]
        # the runner rounds individual terms to multiples of 2^-400 (fapx): a Schwarz factor below ~1e-110 is not
        # resolved by the model, so the scale is floored there (only loosens elements below ~1e-55 of the diagonal)
        d = compare(G, res, tol_fn=lambda idx: 1e-6 * (max(abs(dm[idx[0]][idx[1]]), 1e-110)
                                                       * max(abs(dm[idx[2]][idx[3]]), 1e-110)) ** 0.5)
        if d:
            d["matrix"] = "eri (elementwise vs exact model, C04 tolerance 1e-6 * Schwarz scale)"
            return fail(d)
    return out


def _flat4(r4, n):
    return [[r4[p // n][p % n][q // n][q % n] for q in range(n * n)] for p in range(n * n)]


def eval_case(model, case):
    if case["kind"] == "one":
        return eval_one(model, case)
    if case["kind"] == "eri":
        return eval_eri(model, case)
    raise ValueError(case["kind"])


# ----------------------------------------------------------------------------------------------
# generators
# ----------------------------------------------------------------------------------------------
GEOMS = ("coincident", "near", "molecular", "separated", "mixed")
DEPS = ("dup", "dup_other_type", "near_exp", "near_centre", "near_both", "near_col")


def _centres(rng, geom, n):
    base = [Fraction(rng.randint(-32, 32), 16) for _ in range(3)]
    if rng.random() < 0.25:
        base = [Fraction(0)] * 3
    out = []
    for i in range(n):
        g = geom if geom != "mixed" else rng.choice(GEOMS[:4])
        if g == "coincident" or i == 0:
            c = list(base)
        elif g == "near":
            k = rng.randint(2, 16)
            c = [base[a] + rng.choice((-1, 0, 1)) * Fraction(1, 1 << k) for a in range(3)]
        elif g == "molecular":
            c = [base[a] + Fraction(rng.randint(-32, 32), 16) for a in range(3)]
        else:
            dvec = [rng.randint(-8, 8) for _ in range(3)]
            if dvec == [0, 0, 0]:
                dvec = [1, 2, 2]
            nrm = math.sqrt(sum(x * x for x in dvec))
            rr = rng.uniform(5.0, 15.0)
            c = [base[a] + Fraction(round(16 * rr * dvec[a] / nrm), 16) for a in range(3)]
        out.append(c)
    return out


def _copy_shell(s):
    return XShell.from_json(s.to_json())


def _inject(rng, basis, dep, lo, hi):
    """append (or modify) a shell that is (nearly) linearly dependent on an existing one"""
    i = rng.randrange(len(basis))
    s = basis[i]
    if dep == "near_col":
        cands = [t for t in basis if len(t.exps) >= 2 and len(t.coeffs[0]) <= 2]
        if not cands:
            dep = "near_exp"
        else:
            t = rng.choice(cands)
            col = rng.randrange(len(t.coeffs[0]))
            k = rng.randint(3, 20)
            row = rng.randrange(len(t.exps))
            if t.coeffs[row][col] + Fraction(1, 1 << k) == 0:
                k += 1          # -1/8 + 1/8: the copy must not become the zero function (all-zero column: not a basis function)
            for r in range(len(t.exps)):
                t.coeffs[r].append(t.coeffs[r][col] + (Fraction(1, 1 << k) if r == row else 0))
            return dep
    t = _copy_shell(s)
    if dep == "dup_other_type":
        t.sph = not t.sph
    if dep in ("near_exp", "near_both"):
        k = rng.randint(4, 24)
        t.exps = [e * (1 + Fraction(1, 1 << k)) for e in t.exps]
        t.exps = [min(max(e, Fraction(lo)), Fraction(hi)) for e in t.exps]
    if dep in ("near_centre", "near_both"):
        k = rng.randint(3, 20)
        sh = [rng.choice((-1, 0, 1)) for _ in range(3)]
        if sh == [0, 0, 0]:
            sh[rng.randrange(3)] = 1
        t.coord = [t.coord[a] + sh[a] * Fraction(1, 1 << k) for a in range(3)]
    if len(basis) >= 5:
        j = rng.choice([x for x in range(len(basis)) if x != i]) if len(basis) > 1 else 0
        basis[j] = t
    else:
        basis.insert(rng.randrange(len(basis) + 1), t)
    return dep


def gen_basis17(rng, n, lo, hi, lmax=3, kmax=3, mmax=3, geom=None, dep=None, lcap_total=None):
    geom = geom or rng.choice(GEOMS)
    cs = _centres(rng, geom, n)
    mode = rng.random()
    basis = []
    for i in range(n):
        sph = True if mode < 0.25 else (False if mode < 0.5 else (rng.random() < 0.5))
        sh = gen_shell(rng, lmax=lmax, kmax=kmax, mmax=mmax, sph=sph, exp_lo=lo, exp_hi=hi, coord=cs[i])
        k_, m_ = len(sh.exps), len(sh.coeffs[0])
        if m_ > k_ and rng.random() < 0.9:     # more columns than primitives = exactly dependent: keep it a minority
            sh.coeffs = [row[:k_] for row in sh.coeffs]
        basis.append(sh)
    if dep is None:
        dep = rng.choice(DEPS) if rng.random() < 0.5 else "-"
    if dep != "-":
        if len(basis) >= 2 and rng.random() < 0.5:
            basis.pop()           # keep room for the dependent copy
        dep = _inject(rng, basis, dep, lo, hi)
    return basis[:5], geom, dep


def place_charges(rng, basis, npts):
    centres = [s.coord for s in basis]
    pts = []
    for _ in range(npts):
        mode = rng.random()
        c = rng.choice(centres)
        if mode < 0.25:
            pos = list(c)
        elif mode < 0.4:
            k = rng.randint(2, 20)
            pos = [x + rng.choice((-1, 0, 1)) * Fraction(1, 1 << k) for x in c]
        elif mode < 0.5 and len(centres) > 1:
            d2 = rng.choice(centres)
            pos = [(a + b) / 2 for a, b in zip(c, d2)]
        elif mode < 0.8:
            pos = [x + Fraction(rng.randint(-48, 48), 16) for x in c]
        else:
            pos = [x + Fraction(rng.randint(-4000, 4000), 4) for x in c]
        r = rng.random()
        if r < 0.3:
            q = Fraction(rng.randint(1, 12))
        elif r < 0.8:
            q = Fraction(rng.randint(1, 400), 4)
        else:
            q = Fraction(rng.randint(1, 64), 64)
        pts.append([str(x) for x in pos] + [str(q)])
    return pts


def gen_cases(tier, seed):
    rng = random.Random(1000003 * seed + 17)
    cases = []
    quick = tier == "quick"
    # ---- one-electron matrices ----
    n_one = 900 if quick else 12000
    for i in range(n_one):
        n = 1 + i % 5
        basis, geom, dep = gen_basis17(rng, n, 0.05, 50.0)
        pts = place_charges(rng, basis, rng.randint(1, 3))
        nf = sum(s.nfun() for s in basis)
        cmp_ = (i % 5 == 2) and nf <= (40 if quick else 70)
        cases.append({"kind": "one", "basis": [s.to_json() for s in basis], "pts": pts, "geom": geom, "dep": dep,
                      "cmp": bool(cmp_)})
    # every near-dependence family x geometry at least once with two shells of each l (enumerated)
    for dep in DEPS:
        for l in range(4):
            for geom in ("coincident", "molecular"):
                if quick and geom == "molecular" and l % 2 == 1:
                    continue
                basis, geom2, dep2 = gen_basis17(rng, 1, 0.05, 50.0, geom=geom, dep=dep)
                basis[0].l = l
                for s in basis:
                    s.l = l
                pts = place_charges(rng, basis, 2)
                cases.append({"kind": "one", "basis": [s.to_json() for s in basis], "pts": pts, "geom": geom2,
                              "dep": dep2, "cmp": True})
    # ---- repulsion array ----
    n_eri = 260 if quick else 2400
    for i in range(n_eri):
        n = 1 + i % 4 if quick else 1 + i % 5
        r = rng.random()
        if quick:
            lmax, kmax, mmax, cap = (2, 2, 2, 16) if r < 0.35 else (1, 2, 2, 16)
        else:
            lmax, kmax, mmax, cap = (3, 2, 1, 22) if r < 0.15 else ((2, 2, 2, 25) if r < 0.5 else (1, 3, 2, 25))
        for _ in range(50):
            basis, geom, dep = gen_basis17(rng, n, 0.1, 10.0, lmax=lmax, kmax=kmax, mmax=mmax)
            nf = sum(s.nfun() for s in basis)
            heavy = sum(1 for s in basis if s.l >= 2)
            if nf <= cap and heavy <= (2 if quick else 3) and sum(1 for s in basis if s.l >= 3) <= 1:
                break
        else:
            basis, geom, dep = gen_basis17(rng, 1, 0.1, 10.0, lmax=1, kmax=2, mmax=1)
        case = {"kind": "eri", "basis": [s.to_json() for s in basis], "geom": geom, "dep": dep,
                "notation": "physicist" if i % 3 == 1 else "chemist", "tier": tier}
        case["cmp"] = bool(i % 2 == 0 and eri_model_affordable(basis, tier) and _in_c04_range(basis))
        cases.append(case)
    # one atom at a general (53-bit) position 4..150 bohr per axis from the coordinate origin carrying a CONTRACTED f
    # shell (two exponents in 0.2..5), alone or with a p / d / f shell: quartets with L = 11, 12 (Boys orders up to 12)
    # whose product centres coincide mathematically and differ by an ulp in floating point (Boys arguments 1e-31..1e-26)
    rng3 = random.Random(1000003 * seed + 1717)
    for i in range(4 if quick else 48):
        centre = [Fraction(rng3.choice([-1, 1]) * rng3.uniform(4.0, 150.0)) for _ in range(3)]
        sph = i % 2 == 1
        while True:
            f = gen_shell(rng3, l=3, kmax=2, mmax=1, sph=sph, exp_lo=0.2, exp_hi=5.0, coord=list(centre))
            if len(f.exps) == 2:
                break
        f.exps = [Fraction(float(e) * rng3.uniform(0.9, 1.1)) for e in f.exps]
        basis = [f]
        l2 = (None, 2, None, 1)[i % 4] if quick else (None, 2, 3, 1, None, 0)[i % 6]
        if l2 is not None:
            basis.append(gen_shell(rng3, l=l2, kmax=1, mmax=1, sph=sph if i % 3 else not sph, exp_lo=0.2, exp_hi=5.0,
                                   coord=list(centre)))
        if i % 5 == 4:
            basis.reverse()
        cases.append({"kind": "eri", "basis": [s.to_json() for s in basis], "geom": "one-atom-far", "dep": "-",
                      "notation": "physicist" if i % 3 == 1 else "chemist", "tier": tier, "cmp": False})
    # near-pair-far: two shells with l >= 1 on DISTINCT centres that agree per component to within 1e-5 RELATIVE to the
    # coordinate (3e-4 .. 1e-3 bohr apart, 50-100 bohr per axis from the origin; tight exponents 4..10 so that
    # |AB| sqrt(alpha) ~ 1e-3) plus an s shell within 0.4 bohr.  The pair products d_A p_B are nearly linearly dependent
    # (d_xy p_x ~ d_xx p_y), the true pair matrix has eigenvalues O(|AB|^2) there: a kernel that treats the two centres
    # as one in the bra only (tolerance relative to the coordinates) gives an unsymmetric, indefinite pair matrix
    rng4 = random.Random(1000003 * seed + 171717)
    for i in range(4 if quick else 32):
        la, lb = ((2, 1), (1, 2), (1, 1), (2, 1), (2, 2), (1, 2))[i % (4 if quick else 6)]
        A, B, C = far_near_centres(rng4)
        sph = i % 4 == 3 if quick else rng4.random() < 0.3
        a = gen_shell(rng4, l=la, kmax=1, mmax=1, sph=sph, exp_lo=4.0, exp_hi=10.0, coord=A)
        b = gen_shell(rng4, l=lb, kmax=1, mmax=1, sph=sph, exp_lo=4.0, exp_hi=10.0, coord=B)
        c = gen_shell(rng4, l=0, kmax=1 if la + lb == 2 else 2, mmax=1, sph=False, exp_lo=1.0, exp_hi=10.0, coord=C)
        basis = [a, b, c]
        rng4.shuffle(basis)
        case = {"kind": "eri", "basis": [s.to_json() for s in basis], "geom": "near-pair-far", "dep": "-",
                "notation": "physicist" if i % 3 == 1 else "chemist", "tier": tier}
        case["cmp"] = bool(eri_model_affordable(basis, tier) and _in_c04_range(basis))
        cases.append(case)
    return cases


def _in_c04_range(basis):
    has_f = any(s.l >= 3 for s in basis)
    lo, hi = (Fraction(1, 5), Fraction(5)) if has_f else (Fraction(1, 10), Fraction(10))
    return all(lo <= e <= hi for s in basis for e in s.exps)


# ----------------------------------------------------------------------------------------------
# shrinking
# ----------------------------------------------------------------------------------------------
def _valid(case):
    """stay inside the property's quantifier while shrinking: every segmented contraction has a non-zero
    coefficient (an identically zero function cannot be normalised)"""
    for sj in case["basis"]:
        ncol = len(sj["coeffs"][0])
        for m in range(ncol):
            if all(Fraction(row[m]) == 0 for row in sj["coeffs"]):
                return False
    return len(case["basis"]) >= 1


def shrink_case(case):
    for c in _shrink_candidates(case):
        if _valid(c):
            yield c


def _shrink_candidates(case):
    lst = case["basis"]
    if case["kind"] == "one" and len(case.get("pts", [])) > 1:
        for i in range(len(case["pts"])):
            c = dict(case)
            c["pts"] = case["pts"][:i] + case["pts"][i + 1:]
            yield c
    if case.get("cmp"):
        c = dict(case)
        c["cmp"] = False
        yield c
    if len(lst) > 1:
        for i in range(len(lst)):
            c = dict(case)
            c["basis"] = lst[:i] + lst[i + 1:]
            yield c
    for i, sj in enumerate(lst):
        for t in shrink_shell_json(sj):
            c = dict(case)
            c["basis"] = lst[:i] + [t] + lst[i + 1:]
            yield c
    if case["kind"] == "one":
        for i, p in enumerate(case.get("pts", [])):
            for ax in range(3):
                if p[ax] != "0":
                    c = dict(case)
                    c["pts"] = [list(x) for x in case["pts"]]
                    c["pts"][i][ax] = "0"
                    yield c
            if p[3] != "1":
                c = dict(case)
                c["pts"] = [list(x) for x in case["pts"]]
                c["pts"][i][3] = "1"
                yield c
    if case["kind"] == "eri" and case.get("notation") == "physicist":
        c = dict(case)
        c["notation"] = "chemist"
        yield c


def run(rep, tier, seed, model, replay):
    if replay is not None and "kind" not in replay.get("case", {}):
        return      # a proof-obligation replay: the audit in main.py re-checks the theorems, nothing to re-run here
    cases = [replay["case"]] if replay is not None else gen_cases(tier, seed)
    # the expensive cases first so that the pool drains evenly
    cases.sort(key=lambda c: -_cost(c))
    run_cases(rep, cases, eval_case, shrinkfn=shrink_case)


def _cost(case):
    w = 0.0
    for s in case["basis"]:
        w += (1 + s["l"]) ** 2 * len(s["exps"]) * len(s["coeffs"][0])
    return w ** (4 if case["kind"] == "eri" else 2) * (1e-3 if case["kind"] == "one" else 1.0)
