"""C09 — spherical, mixed and linearly transformed results derive from the Cartesian ones.

Two correspondence layers (DESIGN.md 5/C09):

1. Exact, on LABELLED INTEGER DUMMY BLOCKS.  Each of the four gbasis assembly classes
   (BaseOneIndex, BaseTwoIndexSymmetric, BaseTwoIndexAsymmetric, BaseFourIndexSymmetric) is
   subclassed with a `construct_array_contraction` returning blocks of Python integers that encode
   (shell, segment, component); `generate_transformation` is replaced in the four base modules by an
   integer-labelled stub and `norm_cont` by small integer labels.  The arrays of
   construct_array_cartesian / _spherical / _mix / _lincomb (object dtype: exact integers) are
   compared for EQUALITY with the Coq model (Model/Assembly14.v, runner commands 150-155 of
   Extract/RunAsm.v, run through the extracted driver) on the same labels.  For the symmetric
   classes two labellings are used: one with the symmetry the class assumes, and a raw one
   (no symmetry) under which upper/lower mirroring and "last write wins" are visible.  Shells may be
   convention subclasses (permuted Cartesian order, permuted / signed pure labels): the stub honours the
   convention it is handed, the model gets each shell's own matrix (conv_T) - so a transformation that is
   built for one shell and used for another shell of the same angular momentum gives other integers.
2. Numeric, through the real public functions: the metamorphic laws of the property on the
   implementation itself (mixed == (+)T_s applied to all-Cartesian on every basis index;
   transform=T == T applied to every index of the untransformed result; custom component
   order / sign conventions permute / sign the output), tolerance 1e-9 relative to the largest
   element of the reference.
"""
import itertools
import random
from contextlib import contextmanager
from fractions import Fraction

import numpy as np

from lib import XShell, call_impl, gen_shell, run_cases, sx

RULE = ("labelled layer: every cartesian/spherical assignment of 1-4 shells (one-index, two-index symmetric; "
        "asymmetric: 1-3 x 1-3 shells; four-index: 1-3 shells quick, 1-4 thorough), M in 1..3, l in 0..4 drawn so "
        "that all block sizes of a case are pairwise distinct, rectangular integer T, methods cartesian / spherical "
        "/ mix / lincomb, labellings 'sym' and 'raw'; numeric layer: random bases of 1-3 shells (l 0..3, M 1..2, "
        "dyadic inputs), every assignment, ten public functions with and without a rectangular transform, and "
        "custom-convention shell subclasses (random component permutations, l<=3, and sign flips); SAME-l streams "
        "(tags 'lab-conv', 'conv-same-l'): for every base class and all four dispatch targets, 2-3 shells of ONE "
        "angular momentum l>=1 carrying pairwise DIFFERENT conventions (default / permuted Cartesian order / permuted "
        "and sign-flipped pure labels / both) inside one basis and, for the asymmetric class, across the two bases, "
        "under all-spherical, all-Cartesian and mixed assignments - the integer stub of generate_transformation "
        "honours the (cart, sph) it is handed and the model receives each shell's own matrix computed from the case "
        "description; the numeric same-l stream runs every public function (asymmetric overlap: all-spherical on both "
        "sides, same pure labels with another Cartesian order included) against the default-convention result permuted "
        "and signed per shell; a case is "
        "non-trivial when some shell has l>=2 spherical (transform not a permutation) or M>1 or a transform is "
        "given; distinct by the hash of the case description")
ASSUMPTIONS = [
    "the per-axis contractions of one block are performed by the model innermost axis first; the code performs "
    "them outermost first; they act on different axes (exact arithmetic), the labelled check compares the outcome",
    "numeric layer: 1e-9 relative to the largest element of the reference array is the tolerance used for "
    "'equals' between two float pipelines of the implementation",
    "the Cartesian-to-spherical matrix used as T_s in the numeric laws is gbasis.spherical.generate_transformation "
    "itself (its correctness is property C10)",
]
EXTRA = {
    "partial_theorems": {
        "C09_two_symm_mix_is_cart_transformed_partial": "the law 'transposition exchanges the two transforms' on the "
            "mirrored (lower-triangle and diagonal) blocks is a hypothesis, not derived",
        "C09_block4_index1_partial": "per block, first index only; indices 2-4 and the full tensor through the "
            "eight-fold fill are not proved (C09_four_mix_statement is a Definition); covered by the labelled check",
        "C09_convention_output_rows_partial": "row permutation/sign of the output is proved; invariance of spherical "
            "outputs under a permutation of the Cartesian components is only checked numerically",
    },
    "model_execution": "extracted OCaml driver, commands 150-155 (Extract/RunAsm.v); element type Qc holding integers",
}

NUM_TOL = 1e-9


# ------------------------------------------------------------------------------------------------
# layer 1: labelled integer blocks
# ------------------------------------------------------------------------------------------------
def ncart(l):
    return (l + 1) * (l + 2) // 2


def stub_T(l):
    """(2l+1) x ncart(l) matrix of distinct small integers per (l, row, col)."""
    base = sum((2 * k + 1) * ncart(k) for k in range(l))
    return [[1 + base + r * ncart(l) + c for c in range(ncart(l))] for r in range(2 * l + 1)]


def default_comps(l):
    """default Cartesian component order of GeneralizedContractionShell (contractions.py:361-385)"""
    return [(x, y, l - x - y) for x in range(l, -1, -1) for y in range(l - x, -1, -1)]


def default_sph_labels(l):
    if l == 1:
        return ["c1", "s1", "c0"]
    return ["s%d" % m for m in range(l, 0, -1)] + ["c%d" % m for m in range(l + 1)]


def stub_generate_transformation(angmom, cart, sph, apply_from):
    """integer-labelled stand-in that HONOURS the convention it is handed: column k is the column of the Cartesian
    component cart[k], row r is (signed) the row of the pure function sph[r] of stub_T(angmom).  It reads only its
    arguments, so an assembly routine that hands it the convention of ANOTHER shell (or reuses the matrix of another
    shell of the same angular momentum) produces other integers than the model."""
    assert apply_from == "left"
    l = int(angmom)
    base = stub_T(l)
    dc = default_comps(l)
    dl = default_sph_labels(l)
    cols = [dc.index(tuple(int(v) for v in c)) for c in np.asarray(cart)]
    out = []
    for lab in sph:
        sign = -1 if lab.startswith("-") else 1
        r = dl.index(lab[1:] if sign < 0 else lab)
        out.append([sign * base[r][c] for c in cols])
    return np.array(out, dtype=object)


def conv_T(l, conv):
    """the shell's transform the MODEL is given, computed from the case description alone (not through the shell
    object): T_conv[r][k] = sign_r * stub_T(l)[row of label r][perm[k]]"""
    base = stub_T(l)
    if conv is None:
        return base
    dl = default_sph_labels(l)
    out = []
    for lab in conv["labels"]:
        sign = -1 if lab.startswith("-") else 1
        r = dl.index(lab.lstrip("-"))
        out.append([sign * base[r][k] for k in conv["perm"]])
    return out


def norm_label(sid, M, L):
    return [[1 + ((3 * sid + 2 * m + c) % 4) for c in range(L)] for m in range(M)]


@contextmanager
def patched():
    import gbasis.base_four_symm as b4
    import gbasis.base_one as b1
    import gbasis.base_two_asymm as b2a
    import gbasis.base_two_symm as b2s

    mods = [b1, b2s, b2a, b4]
    old = [m.generate_transformation for m in mods]
    for m in mods:
        m.generate_transformation = stub_generate_transformation
    try:
        yield
    finally:
        for m, o in zip(mods, old):
            m.generate_transformation = o


def mk_lab_shells(spec, first_sid=0):
    """spec: list of dict(l, M, sph).  Real shell objects with labelled norm_cont and ids."""
    from gbasis.contractions import GeneralizedContractionShell

    out = []
    off = 0
    for k, sp in enumerate(spec):
        cls = convention_class(sp["conv"]) if sp.get("conv") else GeneralizedContractionShell
        sh = cls(sp["l"], np.zeros(3), np.ones((1, sp["M"])), np.ones(1), "cartesian")
        sh.norm_cont = np.array(norm_label(first_sid + k, sp["M"], ncart(sp["l"])), dtype=object)
        sh._cid = k
        sh._off = off
        off += sp["M"] * ncart(sp["l"])
        out.append(sh)
    return out, off


def convention_class(conv):
    """GeneralizedContractionShell subclass reporting another component order / sign convention (as
    gbasis/wrappers.py builds them for other programs): Cartesian components default[perm], pure labels as given"""
    from gbasis.contractions import GeneralizedContractionShell as G

    perm = list(conv["perm"])
    labels = tuple(conv["labels"])

    class ConventionShell(G):
        @property
        def angmom_components_cart(self):
            return G.angmom_components_cart.fget(self)[perm]

        @property
        def angmom_components_sph(self):
            return labels

    return ConventionShell


def gids(sh):
    """1-based global ids of the Cartesian functions of a shell, shape (M, L)."""
    M, L = sh.norm_cont.shape
    return [[sh._off + m * L + c + 1 for c in range(L)] for m in range(M)]


def sp2(a, b):
    """injective on unordered pairs of positive integers"""
    hi, lo = (a, b) if a >= b else (b, a)
    return hi * (hi - 1) // 2 + lo


def lab1(sh):
    return gids(sh)


def lab2(s1, s2, mode, base):
    g1, g2 = gids(s1), gids(s2)
    f = sp2 if mode == "sym" else (lambda a, b: a * base + b)
    return [[[[f(a, b) for b in r2] for r2 in g2] for a in r1] for r1 in g1]


def lab4(s1, s2, s3, s4, mode, base):
    g1, g2, g3, g4 = gids(s1), gids(s2), gids(s3), gids(s4)
    if mode == "sym":
        def f(a, b, c, d):
            return sp2(sp2(a, b), sp2(c, d))
    else:
        def f(a, b, c, d):
            return ((a * base + b) * base + c) * base + d
    return [[[[[[[[f(a, b, c, d) for d in r4] for r4 in g4] for c in r3] for r3 in g3] for b in r2] for r2 in g2]
             for a in r1] for r1 in g1]


def obj(nested):
    return np.array(nested, dtype=object)


def sh_sx(spec, first_sid=0):
    return [[1 if sp["sph"] else 0, conv_T(sp["l"], sp.get("conv")), norm_label(first_sid + k, sp["M"], ncart(sp["l"]))]
            for k, sp in enumerate(spec)]


def to_int_nested(x):
    if isinstance(x, list):
        return [to_int_nested(y) for y in x]
    assert x.denominator == 1
    return int(x.numerator)


def cmp_exact(impl, model):
    """impl: ('ok', ndarray of Python ints) or ('rejected', ..); model: nested Fractions."""
    if impl[0] != "ok":
        return {"kind": "rejected", "impl": impl[1]}
    a = impl[1]
    il = [[int(v) for v in row] for row in a.reshape(a.shape[0], -1).tolist()] if a.ndim > 1 else \
        [int(v) for v in a.tolist()]
    ml = to_int_nested(model)
    marr = np.array(ml, dtype=object)
    if tuple(marr.shape) != tuple(a.shape):
        return {"kind": "shape", "impl_shape": list(a.shape), "model_shape": list(marr.shape)}
    mflat = marr.reshape(a.shape[0], -1).tolist() if a.ndim > 1 else marr.tolist()
    if il != mflat:
        bad = [(idx, int(a[idx]), int(marr[idx])) for idx in np.ndindex(*a.shape) if int(a[idx]) != int(marr[idx])]
        return {"kind": "value", "n_differ": len(bad), "index": list(bad[0][0]), "impl": bad[0][1],
                "model": bad[0][2]}
    return None


def types_of(spec):
    return ["spherical" if sp["sph"] else "cartesian" for sp in spec]


def canon_quads(n):
    prs = list(itertools.combinations_with_replacement(range(n), 2))
    return [(i, j, k, l) for a, (i, j) in enumerate(prs) for (k, l) in prs[a:]]


def eval_labelled(model, case):
    from gbasis.base_four_symm import BaseFourIndexSymmetric
    from gbasis.base_one import BaseOneIndex
    from gbasis.base_two_asymm import BaseTwoIndexAsymmetric
    from gbasis.base_two_symm import BaseTwoIndexSymmetric

    cls = case["cls"]
    spec = case["shells"]
    mode = case.get("labels", "sym")
    T = case.get("T")
    details = []

    def check(tag, impl, res):
        d = cmp_exact(impl, res)
        if d is not None:
            d["method"] = tag
            details.append(d)

    with patched():
        shells, tot = mk_lab_shells(spec)
        tsx = sx(T) if T is not None else "()"
        tarr = obj(T) if T is not None else None
        if cls == "one":
            class One(BaseOneIndex):
                def construct_array_contraction(self, cont):
                    return obj(lab1(cont))
            o = One(shells)
            blocks = sx([lab1(s) for s in shells])
            ssx = sx(sh_sx(spec))
            calls = [(0, o.construct_array_cartesian, ()), (1, o.construct_array_spherical, ()),
                     (2, o.construct_array_mix, (types_of(spec),)),
                     (3, o.construct_array_lincomb, (tarr, types_of(spec)))]
            for md, fn, args in calls:
                res = model.call("(150 %d %s %s %s)" % (md, ssx, blocks, tsx))
                check("one/%d" % md, call_impl(fn, *args), res)
        elif cls == "two_symm":
            base = tot + 1

            class TwoS(BaseTwoIndexSymmetric):
                def construct_array_contraction(self, c1, c2):
                    return obj(lab2(c1, c2, mode, base))
            o = TwoS(shells)
            n = len(shells)
            blocks = sx([[lab2(shells[i], shells[j], mode, base) if i <= j else [] for j in range(n)]
                         for i in range(n)])
            ssx = sx(sh_sx(spec))
            calls = [(0, o.construct_array_cartesian, ()), (1, o.construct_array_spherical, ()),
                     (2, o.construct_array_mix, (types_of(spec),)),
                     (3, o.construct_array_lincomb, (tarr, types_of(spec)))]
            for md, fn, args in calls:
                impl = call_impl(fn, *args)
                res = model.call("(151 %d %s %s %s)" % (md, ssx, blocks, tsx))
                check("two_symm/%d" % md, impl, res)
                if mode == "sym" and md in (2, 3):
                    # the model used by the integral models (Assembly.shell_block / two_symm_blocks / lincomb2)
                    res2 = model.call("(154 %s %s %s)" % (ssx, blocks, "(%s)" % tsx if md == 3 else "()"))
                    check("two_symm_old/%d" % md, impl, res2)
        elif cls == "two_asymm":
            spec2 = case["shells2"]
            shells2, tot2 = mk_lab_shells(spec2, first_sid=7)
            base = tot2 + 1
            T2 = case.get("T2")

            class TwoA(BaseTwoIndexAsymmetric):
                def construct_array_contraction(self, c1, c2):
                    return obj(lab2(c1, c2, "raw", base))
            o = TwoA(shells, shells2)
            blocks = sx([[lab2(a, b, "raw", base) for b in shells2] for a in shells])
            ssx, ssx2 = sx(sh_sx(spec)), sx(sh_sx(spec2, first_sid=7))
            t1o = "(%s)" % sx(T) if T is not None else "()"
            t2o = "(%s)" % sx(T2) if T2 is not None else "()"
            calls = [(0, o.construct_array_cartesian, ()), (1, o.construct_array_spherical, ()),
                     (2, o.construct_array_mix, (types_of(spec), types_of(spec2))),
                     (3, o.construct_array_lincomb, (tarr, obj(T2) if T2 is not None else None, types_of(spec),
                                                     types_of(spec2)))]
            for md, fn, args in calls:
                impl = call_impl(fn, *args)
                res = model.call("(152 %d %s %s %s %s %s)" % (md, ssx, ssx2, blocks, t1o, t2o))
                check("two_asymm/%d" % md, impl, res)
                if md == 2 or (md == 3 and T is not None and T2 is not None):
                    res2 = model.call("(155 %s %s %s %s %s)" % (ssx, ssx2, blocks, t1o if md == 3 else "()",
                                                               t2o if md == 3 else "()"))
                    check("two_asymm_old/%d" % md, impl, res2)
        elif cls == "four":
            base = tot + 1

            class Four(BaseFourIndexSymmetric):
                def construct_array_contraction(self, c1, c2, c3, c4):
                    return obj(lab4(c1, c2, c3, c4, mode, base))
            o = Four(shells)
            n = len(shells)
            cq = set(canon_quads(n))
            blocks = sx([[[[lab4(shells[i], shells[j], shells[k], shells[l], mode, base) if (i, j, k, l) in cq else []
                            for l in range(n)] for k in range(n)] for j in range(n)] for i in range(n)])
            ssx = sx(sh_sx(spec))
            calls = [(0, o.construct_array_cartesian, ()), (1, o.construct_array_spherical, ()),
                     (2, o.construct_array_mix, (types_of(spec),)),
                     (3, o.construct_array_lincomb, (tarr, types_of(spec)))]
            for md, fn, args in calls:
                res = model.call("(153 %d %s %s %s)" % (md, ssx, blocks, tsx))
                check("four/%d" % md, call_impl(fn, *args), res)
        else:
            raise ValueError(cls)
    pat = "".join("s" if sp["sph"] else "c" for sp in spec)
    if cls == "two_asymm":
        pat += "|" + "".join("s" if sp["sph"] else "c" for sp in case["shells2"])
    allspec = spec + (case["shells2"] if cls == "two_asymm" else [])
    kind = "lab-conv" if any(sp.get("conv") for sp in allspec) else "lab"
    return {"detail": details[0] if details else None, "nontrivial": True,
            "tag": "%s %s %s %s" % (kind, cls, mode if cls in ("two_symm", "four") else "raw", pat)}


def sizes_distinct(spec):
    """block sizes pairwise distinct under the case's assignment, all-Cartesian and all-spherical"""
    def size(sp, t):
        return sp["M"] * ((2 * sp["l"] + 1) if t else ncart(sp["l"]))
    for pick in (lambda sp: sp["sph"], lambda sp: False, lambda sp: True):
        ss = [size(sp, pick(sp)) for sp in spec]
        if len(set(ss)) != len(ss):
            return False
    return True


def draw_spec(rng, pattern, lmax, mmax, maxtot=None):
    for _ in range(1000):
        spec = [{"l": rng.randint(0, lmax), "M": rng.randint(1, mmax), "sph": bool(t)} for t in pattern]
        if not sizes_distinct(spec):
            continue
        if maxtot is not None and sum(sp["M"] * ncart(sp["l"]) for sp in spec) > maxtot:
            continue
        return spec
    raise RuntimeError("no spec with distinct sizes for pattern %r" % (pattern,))


def ntot(spec):
    return sum(sp["M"] * ((2 * sp["l"] + 1) if sp["sph"] else ncart(sp["l"])) for sp in spec)


def structured_T(rng, nrow, ncol):
    """a (signed) permutation / selection matrix (entries 0, +1, -1; rows distinct unit vectors) or the identity: the
    matrices for which an implementation of the lincomb step could take a short cut"""
    nrow = min(nrow, ncol)
    r = rng.random()
    cols = list(range(nrow)) if r < 0.2 else rng.sample(range(ncol), nrow)
    T = [[0] * ncol for _ in range(nrow)]
    for i, c in enumerate(cols):
        T[i][c] = 1 if r < 0.45 else rng.choice([-1, 1])
    return T


def draw_T(rng, ncol):
    if rng.random() < 0.25:
        return structured_T(rng, max(1, ncol + rng.choice([-2, -1, 0, 0])), ncol)
    nrow = max(1, ncol + rng.choice([-2, -1, 1, 2]))
    return [[rng.randint(-2, 3) for _ in range(ncol)] for _ in range(nrow)]


def gen_labelled(tier, rng):
    cases = []
    thorough = tier != "quick"
    reps = 3 if thorough else 1
    for n in range(1, 5):
        for pattern in itertools.product([0, 1], repeat=n):
            for _ in range(reps):
                spec = draw_spec(rng, pattern, 4, 3)
                cases.append({"kind": "lab", "cls": "one", "shells": spec, "T": draw_T(rng, ntot(spec))})
                for lm in ("sym", "raw"):
                    spec = draw_spec(rng, pattern, 4 if n <= 3 else 3, 3, maxtot=60)
                    cases.append({"kind": "lab", "cls": "two_symm", "labels": lm, "shells": spec,
                                  "T": draw_T(rng, ntot(spec))})
    for n1, n2 in itertools.product(range(1, 4), repeat=2):
        if not thorough and n1 + n2 > 4:
            continue
        for p1 in itertools.product([0, 1], repeat=n1):
            for p2 in itertools.product([0, 1], repeat=n2):
                for _ in range(reps):
                    s1 = draw_spec(rng, p1, 4 if n1 + n2 <= 4 else 3, 3, maxtot=45)
                    s2 = draw_spec(rng, p2, 4 if n1 + n2 <= 4 else 3, 3, maxtot=45)
                    which = rng.randint(0, 3)
                    cases.append({"kind": "lab", "cls": "two_asymm", "shells": s1, "shells2": s2,
                                  "T": draw_T(rng, ntot(s1)) if which != 1 else None,
                                  "T2": draw_T(rng, ntot(s2)) if which != 2 else None})
    nmax4 = 4 if thorough else 3
    for n in range(1, nmax4 + 1):
        for pattern in itertools.product([0, 1], repeat=n):
            for lm in ("sym", "raw"):
                lmax = {1: 4 if thorough else 3, 2: 3 if thorough else 2, 3: 2, 4: 2}[n]
                spec = draw_spec(rng, pattern, lmax, 2 if n >= 3 else 3, maxtot={1: 30, 2: 22, 3: 16, 4: 14}[n])
                cases.append({"kind": "lab", "cls": "four", "labels": lm, "shells": spec,
                              "T": draw_T(rng, ntot(spec))})
    return cases


FLAVOURS = ("default", "cart", "sph", "both")


def draw_conv(rng, l, flavour):
    """a component convention of one shell: 'cart' = permuted Cartesian order (default pure labels), 'sph' = permuted
    and sign-flipped pure labels (default Cartesian order), 'both', or None for 'default'"""
    if flavour == "default" or l == 0:
        return None
    perm = list(range(ncart(l)))
    labels = default_sph_labels(l)
    if flavour in ("cart", "both"):
        while perm == sorted(perm):
            rng.shuffle(perm)
    if flavour in ("sph", "both"):
        base = list(labels)
        while labels == base:
            rng.shuffle(labels)
        k = rng.randrange(len(labels))
        labels = [("-" + x) if (i == k or rng.random() < 0.4) else x for i, x in enumerate(labels)]
    return {"perm": perm, "labels": labels}


def draw_conv_spec(rng, pattern, l, flavours, lmax_other, mmax=3, maxtot=None):
    """len(flavours) shells of the SAME angular momentum l, each with its own convention and its own M (block sizes
    stay pairwise distinct), plus len(pattern)-len(flavours) shells of other angular momenta, in random positions"""
    n = len(pattern)
    for _ in range(2000):
        ms = rng.sample(range(1, mmax + 1), len(flavours))
        spec = [{"l": l, "M": m, "conv": draw_conv(rng, l, f)} for m, f in zip(ms, flavours)]
        for _k in range(n - len(flavours)):
            lo = rng.choice([x for x in range(lmax_other + 1) if x != l])
            spec.append({"l": lo, "M": rng.randint(1, mmax), "conv": draw_conv(rng, lo, rng.choice(FLAVOURS))})
        rng.shuffle(spec)
        spec = [dict(sp, sph=bool(t)) for sp, t in zip(spec, pattern)]
        for sp in spec:
            if sp["conv"] is None:
                del sp["conv"]
        if not sizes_distinct(spec):
            continue
        if maxtot is not None and sum(sp["M"] * ncart(sp["l"]) for sp in spec) > maxtot:
            continue
        return spec
    raise RuntimeError("no convention spec for pattern %r l=%d" % (pattern, l))


def conv_patterns(rng, n):
    """all-spherical, all-Cartesian and one mixed assignment"""
    pats = [(1,) * n, (0,) * n]
    if n >= 2:
        while True:
            p = tuple(rng.randint(0, 1) for _ in range(n))
            if 0 < sum(p) < n:
                break
        pats.append(p)
    return pats


def draw_flavours(rng, k):
    """k pairwise different conventions, not all of them the default one"""
    return rng.sample(FLAVOURS, k) if k >= 2 else [rng.choice(FLAVOURS[1:])]


def gen_labelled_conv(tier, rng):
    """shells of ONE angular momentum carrying DIFFERENT conventions inside one basis (and, for the asymmetric class,
    across the two bases), for every base class; eval_labelled runs all four dispatch targets on every case, so the
    all-spherical path of every class sees them whatever the case's own assignment is"""
    cases = []
    thorough = tier != "quick"
    reps = 3 if thorough else 1
    for _ in range(reps):
        for n in (2, 3):
            for pattern in conv_patterns(rng, n):
                k = 2 if n == 2 else rng.choice([2, 3])
                spec = draw_conv_spec(rng, pattern, rng.randint(1, 4), draw_flavours(rng, k), 4)
                cases.append({"kind": "lab", "cls": "one", "shells": spec, "T": draw_T(rng, ntot(spec))})
                for lm in ("sym", "raw"):
                    k = 2 if n == 2 else rng.choice([2, 3])
                    spec = draw_conv_spec(rng, pattern, rng.randint(1, 3), draw_flavours(rng, k), 3, maxtot=60)
                    cases.append({"kind": "lab", "cls": "two_symm", "labels": lm, "shells": spec,
                                  "T": draw_T(rng, ntot(spec))})
        for n1, n2 in ((1, 1), (2, 1), (1, 2), (2, 2)):
            p1s, p2s = conv_patterns(rng, n1), conv_patterns(rng, n2)
            pairs = [(p1s[0], p2s[0]), (p1s[1], p2s[1]), (p1s[0], p2s[-1]) if n2 >= 2 else (p1s[-1], p2s[0])]
            if n1 == 1 and n2 == 1:
                pairs[2] = ((1,), (0,))
            for p1, p2 in pairs:
                l = rng.randint(1, 3)
                k1 = rng.randint(1, n1)
                k2 = rng.randint(1, min(n2, 4 - k1))
                fl = rng.sample(FLAVOURS, k1 + k2)      # pairwise different across the two bases as well
                s1 = draw_conv_spec(rng, p1, l, fl[:k1], 3, maxtot=45)
                s2 = draw_conv_spec(rng, p2, l, fl[k1:], 3, maxtot=45)
                which = rng.randint(0, 3)
                cases.append({"kind": "lab", "cls": "two_asymm", "shells": s1, "shells2": s2,
                              "T": draw_T(rng, ntot(s1)) if which != 1 else None,
                              "T2": draw_T(rng, ntot(s2)) if which != 2 else None})
        for n in (2, 3):
            for pattern in conv_patterns(rng, n):
                for lm in (("sym", "raw") if n == 2 or thorough else (rng.choice(["sym", "raw"]),)):
                    l = rng.randint(1, 2) if n == 2 else 1
                    spec = draw_conv_spec(rng, pattern, l, draw_flavours(rng, 2), 1 if n == 3 else 2, mmax=2,
                                          maxtot={2: 22, 3: 16}[n])
                    cases.append({"kind": "lab", "cls": "four", "labels": lm, "shells": spec,
                                  "T": draw_T(rng, ntot(spec))})
    return cases


# ------------------------------------------------------------------------------------------------
# layer 2: metamorphic laws on the public functions
# ------------------------------------------------------------------------------------------------
FUNCS = ["overlap", "overlap_asymm", "kinetic", "moment", "momentum", "angmom", "point_charge", "nuclear", "eri",
         "eval", "eval_deriv"]


def fr(x):
    return float(Fraction(x))


def call_public(fn, basis, prm, transform=None, basis2=None, transform2=None):
    """-> (array, tuple of basis axes)"""
    pts = np.array([[fr(v) for v in p] for p in prm["points"]])
    if fn == "overlap":
        from gbasis.integrals.overlap import overlap_integral
        return overlap_integral(basis, transform=transform), (0, 1)
    if fn == "overlap_asymm":
        from gbasis.integrals.overlap_asymm import overlap_integral_asymmetric
        return overlap_integral_asymmetric(basis, basis2, transform_one=transform, transform_two=transform2), (0, 1)
    if fn == "kinetic":
        from gbasis.integrals.kinetic_energy import kinetic_energy_integral
        return kinetic_energy_integral(basis, transform=transform), (0, 1)
    if fn == "moment":
        from gbasis.integrals.moment import moment_integral
        return moment_integral(basis, pts[0], np.array(prm["orders"]), transform=transform), (0, 1)
    if fn == "momentum":
        from gbasis.integrals.momentum import momentum_integral
        return momentum_integral(basis, transform=transform), (0, 1)
    if fn == "angmom":
        from gbasis.integrals.angular_momentum import angular_momentum_integral
        return angular_momentum_integral(basis, transform=transform), (0, 1)
    if fn == "point_charge":
        from gbasis.integrals.point_charge import point_charge_integral
        return point_charge_integral(basis, pts, np.array([fr(c) for c in prm["charges"]]),
                                     transform=transform), (0, 1)
    if fn == "nuclear":
        from gbasis.integrals.nuclear_electron_attraction import nuclear_electron_attraction_integral
        return nuclear_electron_attraction_integral(basis, pts, np.array([fr(c) for c in prm["charges"]]),
                                                    transform=transform), (0, 1)
    if fn == "eri":
        from gbasis.integrals.electron_repulsion import electron_repulsion_integral
        return electron_repulsion_integral(basis, transform=transform, notation=prm["notation"]), (0, 1, 2, 3)
    if fn == "eval":
        from gbasis.evals.eval import evaluate_basis
        return evaluate_basis(basis, pts, transform=transform), (0,)
    if fn == "eval_deriv":
        from gbasis.evals.eval_deriv import evaluate_deriv_basis
        return evaluate_deriv_basis(basis, pts, np.array(prm["deriv"]), transform=transform), (0,)
    raise ValueError(fn)


def apply_axis(U, arr, ax):
    """U (rows x cols) contracted with axis `ax` of arr; new axis stays at position ax"""
    return np.moveaxis(np.tensordot(U, arr, (1, ax)), 0, ax)


def apply_all(Us, arr, axes):
    for U, ax in zip(Us, axes):
        if U is not None:
            arr = apply_axis(U, arr, ax)
    return arr


def block_diag(mats):
    r = sum(m.shape[0] for m in mats)
    c = sum(m.shape[1] for m in mats)
    out = np.zeros((r, c))
    i = j = 0
    for m in mats:
        out[i:i + m.shape[0], j:j + m.shape[1]] = m
        i += m.shape[0]
        j += m.shape[1]
    return out


def make_shell(sj, conv=None, force_cart=False):
    """gbasis shell from the exact description; conv = dict(perm=[..], labels=[..]) builds a
    GeneralizedContractionShell subclass reporting another component order / sign convention
    (as gbasis/wrappers.py does for other programs)."""
    from gbasis.contractions import GeneralizedContractionShell as G

    xs = XShell.from_json(sj)
    args = (xs.l, np.array([float(c) for c in xs.coord]), np.array([[float(c) for c in row] for row in xs.coeffs]),
            np.array([float(e) for e in xs.exps]), "spherical" if (xs.sph and not force_cart) else "cartesian")
    if conv is None:
        return G(*args)
    return convention_class(conv)(*args)


def shell_U(sh, sj):
    """T_s of the property: identity for a Cartesian shell, I_M (x) C2S for a spherical one."""
    from gbasis.spherical import generate_transformation

    M = len(sj["coeffs"][0])
    if not sj["sph"]:
        return np.eye(M * ncart(sj["l"]))
    t = generate_transformation(sh.angmom, sh.angmom_components_cart, sh.angmom_components_sph, "left")
    return np.kron(np.eye(M), t)


def conv_P(sj, conv):
    """output(custom)[k'] = sum_k P[k', k] output(default)[k] for one shell"""
    M = len(sj["coeffs"][0])
    if conv is None:
        return np.eye(M * ((2 * sj["l"] + 1) if sj["sph"] else ncart(sj["l"])))
    if sj["sph"]:
        dl = default_sph_labels(sj["l"])
        p = np.zeros((len(dl), len(dl)))
        for r, lab in enumerate(conv["labels"]):
            sign = -1.0 if lab.startswith("-") else 1.0
            p[r, dl.index(lab.lstrip("-"))] = sign
    else:
        n = ncart(sj["l"])
        p = np.zeros((n, n))
        for r, k in enumerate(conv["perm"]):
            p[r, k] = 1.0
    return np.kron(np.eye(M), p)


def close(a, b, scale_extra=0.0):
    a = np.asarray(a)
    b = np.asarray(b)
    for x in (a, b):
        if x.dtype.kind not in "fiuc":
            # a public function handed out something that is not an array of real numbers (e.g. object dtype: a
            # matrix kept from an earlier, unrelated call): reported, not a reason for the harness to stop
            return {"kind": "type", "impl": "array of dtype %s" % x.dtype, "model": "array of real or complex floats"}
    if a.shape != b.shape:
        return {"kind": "shape", "impl_shape": list(a.shape), "model_shape": list(b.shape)}
    if a.size == 0:
        return None
    if not (np.all(np.isfinite(a)) and np.all(np.isfinite(b))):
        return {"kind": "nonfinite"}
    scale = max(float(np.abs(b).max()), scale_extra)
    diff = np.abs(a - b)
    tol = NUM_TOL * scale + 1e-13
    if float(diff.max()) > tol:
        idx = np.unravel_index(int(diff.argmax()), diff.shape)
        return {"kind": "value", "index": [int(i) for i in idx], "impl": repr(a[idx]), "model": repr(b[idx]),
                "abs_diff": float(diff.max()), "tol": tol}
    return None


def eval_numeric(model, case):
    fn = case["fn"]
    prm = case["prm"]
    bj = case["basis"]
    bj2 = case.get("basis2")
    convs = case.get("conv")
    convs2 = case.get("conv2")
    Tm = np.array([[fr(v) for v in row] for row in case["T"]]) if case.get("T") is not None else None
    Tm2 = np.array([[fr(v) for v in row] for row in case["T2"]]) if case.get("T2") is not None else None
    details = []

    def note(law, d):
        if d is not None:
            d["law"] = law
            details.append(d)

    def run(basis, basis2=None, t=None, t2=None):
        st, out = call_impl(call_public, fn, basis, prm, t, basis2, t2)
        if st != "ok":
            return None, out
        return out, None

    mixed = [make_shell(sj) for sj in bj]
    mixed2 = [make_shell(sj) for sj in bj2] if bj2 else None
    res_mixed, err = run(mixed, mixed2)
    if err:
        return {"detail": {"kind": "rejected", "impl": err, "law": "mixed call"}, "tag": "num " + fn}
    arr_mixed, axes = res_mixed
    if case["kind"] == "num":
        # law 1: mixed == (+)T_s applied to all-Cartesian on every basis index
        cart = [make_shell(sj, force_cart=True) for sj in bj]
        cart2 = [make_shell(sj, force_cart=True) for sj in bj2] if bj2 else None
        res_cart, err = run(cart, cart2)
        if err:
            note("cartesian call", {"kind": "rejected", "impl": err})
        else:
            arr_cart = res_cart[0]
            U1 = block_diag([shell_U(sh, sj) for sh, sj in zip(mixed, bj)])
            U2 = block_diag([shell_U(sh, sj) for sh, sj in zip(mixed2, bj2)]) if bj2 else U1
            Us = [U1, U2, U1, U2][:len(axes)] if not bj2 else [U1, U2]
            note("mixed = (+)T_s applied to cartesian", close(arr_mixed, apply_all(Us, arr_cart, axes),
                                                              float(np.abs(arr_cart).max())))
        # law 2: transform=T == T applied to every basis index of the untransformed result
        if Tm is not None or Tm2 is not None:
            res_t, err = run(mixed, mixed2, Tm, Tm2)
            if err:
                note("transform call", {"kind": "rejected", "impl": err})
            else:
                Ts = [Tm, Tm2] if bj2 else [Tm] * len(axes)
                ref = apply_all(Ts, arr_mixed, axes)
                note("transform = T applied to every index", close(res_t[0], ref, float(np.abs(arr_mixed).max())))
    else:  # "conv": custom component order / sign conventions
        cust = [make_shell(sj, cv) for sj, cv in zip(bj, convs)]
        cust2 = [make_shell(sj, cv) for sj, cv in zip(bj2, convs2)] if bj2 else None
        res_c, err = run(cust, cust2)
        if err:
            note("custom-convention call", {"kind": "rejected", "impl": err})
        else:
            P1 = block_diag([conv_P(sj, cv) for sj, cv in zip(bj, convs)])
            P2 = block_diag([conv_P(sj, cv) for sj, cv in zip(bj2, convs2)]) if bj2 else P1
            Ps = [P1, P2] if bj2 else [P1] * len(axes)
            note("custom convention = permuted/signed default", close(res_c[0], apply_all(Ps, arr_mixed, axes)))
            if Tm is not None:
                res_t, err = run(cust, cust2, Tm, Tm2)
                if err:
                    note("custom-convention transform call", {"kind": "rejected", "impl": err})
                else:
                    Ts = [Tm, Tm2] if bj2 else [Tm] * len(axes)
                    note("custom convention, transform", close(res_t[0], apply_all(Ts, res_c[0], axes),
                                                               float(np.abs(res_c[0]).max())))
    pat = "".join("s" if sj["sph"] else "c" for sj in bj)
    nontriv = any((sj["sph"] and sj["l"] >= 2) or len(sj["coeffs"][0]) > 1 for sj in bj) or Tm is not None
    if bj2:
        pat += "|" + "".join("s" if sj["sph"] else "c" for sj in bj2)
    kind = case["kind"] + ("-" + case["stream"] if case.get("stream") else "")
    return {"detail": details[0] if details else None, "nontrivial": bool(nontriv),
            "tag": "%s %s n=%d %s" % (kind, fn, len(bj), pat)}


def gen_prm(rng, fn):
    pts = [[str(Fraction(rng.randint(-24, 24), 8)) for _ in range(3)] for _ in range(2 if fn != "eval" else 3)]
    return {"points": pts, "charges": [str(Fraction(rng.randint(1, 12), 4)) for _ in pts],
            "orders": [[1, 0, 0], [0, 1, 1], [2, 0, 1]], "deriv": rng.choice([[1, 0, 0], [0, 1, 1], [2, 0, 0], [0, 0, 1]]),
            "notation": rng.choice(["physicist", "chemist"])}


def gen_T_rat(rng, ncol):
    if rng.random() < 0.25:
        return [[str(x) for x in row] for row in structured_T(rng, max(1, ncol + rng.choice([-2, -1, 0, 0])), ncol)]
    nrow = max(1, ncol + rng.choice([-2, -1, 1]))
    return [[str(Fraction(rng.randint(-8, 8), 4)) for _ in range(ncol)] for _ in range(nrow)]


def nfun_json(bj):
    return sum(len(sj["coeffs"][0]) * ((2 * sj["l"] + 1) if sj["sph"] else ncart(sj["l"])) for sj in bj)


def gen_basis(rng, n, lmax, mmax=2, kmax=2):
    return [gen_shell(rng, lmax=lmax, kmax=kmax, mmax=mmax, sph=False, exp_lo=0.1, exp_hi=8.0).to_json()
            for _ in range(n)]


def with_types(bj, pattern):
    return [dict(sj, sph=bool(t)) for sj, t in zip(bj, pattern)]


def gen_conv(rng, sj):
    l = sj["l"]
    perm = list(range(ncart(l)))
    rng.shuffle(perm)
    labels = default_sph_labels(l)
    rng.shuffle(labels)
    labels = [("-" + x) if rng.random() < 0.4 else x for x in labels]
    return {"perm": perm, "labels": labels}


def gen_numeric(tier, rng):
    cases = []
    thorough = tier != "quick"
    nb = 6 if thorough else 2
    for fn in FUNCS:
        lmax = 1 if fn == "eri" else 3
        for n in (1, 2, 3):
            for _ in range(nb):
                bj = gen_basis(rng, n, lmax if n < 3 else min(lmax, 2), mmax=2)
                if fn == "eri" and n == 3:
                    bj = gen_basis(rng, n, 1, mmax=1)
                for pattern in itertools.product([0, 1], repeat=n):
                    b = with_types(bj, pattern)
                    c = {"kind": "num", "fn": fn, "basis": b, "prm": gen_prm(rng, fn), "T": gen_T_rat(rng, nfun_json(b))}
                    if fn == "overlap_asymm":
                        n2 = rng.randint(1, 2)
                        b2 = with_types(gen_basis(rng, n2, 3, mmax=2), [rng.randint(0, 1) for _ in range(n2)])
                        c["basis2"] = b2
                        which = rng.randint(0, 2)
                        c["T"] = c["T"] if which != 1 else None
                        c["T2"] = gen_T_rat(rng, nfun_json(b2)) if which != 2 else None
                    cases.append(c)
        # custom conventions
        for i in range(8 if thorough else 3):
            n = 1 + i % 3
            bj = gen_basis(rng, n, 1 if fn == "eri" else 3, mmax=1 if (fn == "eri" and n == 3) else 2)
            if i < 3:  # make sure high l is present in both coordinate types
                bj[0]["l"] = 1 if fn == "eri" else 3 - (i % 2)
            b = with_types(bj, [rng.randint(0, 1) for _ in range(n)])
            if i == 0:
                b[0]["sph"] = True
            c = {"kind": "conv", "fn": fn, "basis": b, "prm": gen_prm(rng, fn), "conv": [gen_conv(rng, sj) for sj in b],
                 "T": gen_T_rat(rng, nfun_json(b)) if i % 2 == 0 else None}
            if fn == "overlap_asymm":
                b2 = with_types(gen_basis(rng, 1, 3, mmax=2), [rng.randint(0, 1)])
                c["basis2"] = b2
                c["conv2"] = [gen_conv(rng, sj) for sj in b2]
                c["T2"] = gen_T_rat(rng, nfun_json(b2)) if c["T"] is not None else None
            cases.append(c)
    return cases


def gen_numeric_conv(tier, rng):
    """public functions on bases in which shells of ONE angular momentum carry DIFFERENT conventions (default /
    permuted Cartesian order / permuted+signed pure labels / both), inside one basis and, for the asymmetric overlap,
    across the two bases; all-spherical, all-Cartesian and mixed assignments (the all-spherical asymmetric path is
    generated explicitly).  Reference as in the 'conv' cases: the same shells in the default convention, permuted and
    signed per shell."""
    cases = []
    thorough = tier != "quick"

    def shared_basis(n, l, flavours, pattern, lmax_other, mmax):
        bj = gen_basis(rng, n, lmax_other, mmax=mmax)
        pos = rng.sample(range(n), len(flavours))
        for i, p_ in enumerate(pos):
            bj[p_]["l"] = l
        b = with_types(bj, pattern)
        fl = dict(zip(pos, flavours))
        conv = [draw_conv(rng, sj["l"], fl.get(i, rng.choice(FLAVOURS))) for i, sj in enumerate(b)]
        return b, conv

    for fn in FUNCS:
        eri = fn == "eri"
        asym = fn == "overlap_asymm"
        nrep = (4 if asym else 2) * (3 if thorough else 1)
        for i in range(nrep):
            n = 2 if (eri or i % 2 == 0) else 3
            l = 1 if eri else rng.choice([2, 2, 3, 1])
            if asym:
                k1 = rng.randint(1, 2)
                fl = rng.sample(FLAVOURS, k1 + 1)
                if i % 2 == 0:      # the key pairing of a first-seen-wins cache: same pure labels, other Cartesian order
                    fl = rng.sample(["default", "cart"], 2) + ["sph"]
                    k1 = rng.randint(1, 2)
                    fl = fl[:k1] + [fl[-1 if k1 == 2 else 1]]
                n = max(n if i >= 2 else k1, k1)
                pats = conv_patterns(rng, n)
                pattern = pats[0] if i < 2 or i % 4 < 2 else pats[-1]
                b, conv = shared_basis(n, l, fl[:k1], pattern, 2, 2)
                n2 = rng.randint(1, 2)
                p2 = (1,) * n2 if (i < 3 or i % 4 < 3) else tuple(rng.randint(0, 1) for _ in range(n2))
                b2, conv2 = shared_basis(n2, l, fl[k1:], p2, 2, 2)
            else:
                pats = conv_patterns(rng, n)
                pattern = pats[0] if i % 2 == 0 else pats[rng.choice([1, 2])]
                b, conv = shared_basis(n, l, draw_flavours(rng, 2 if n == 2 else rng.choice([2, 3])), pattern,
                                       1 if eri else 2, 1 if eri else 2)
            c = {"kind": "conv", "stream": "same-l", "fn": fn, "basis": b, "prm": gen_prm(rng, fn), "conv": conv,
                 "T": gen_T_rat(rng, nfun_json(b)) if i % 2 == 1 else None}
            if asym:
                c["basis2"] = b2
                c["conv2"] = conv2
                c["T2"] = gen_T_rat(rng, nfun_json(b2)) if c["T"] is not None else None
            cases.append(c)
    return cases


# ------------------------------------------------------------------------------------------------
def eval_case(model, case):
    if case["kind"] == "lab":
        return eval_labelled(model, case)
    if case["kind"] in ("num", "conv"):
        return eval_numeric(model, case)
    raise ValueError(case["kind"])


def shrink_case(case):
    if case["kind"] == "lab":
        for key in ("shells", "shells2"):
            lst = case.get(key)
            if not lst:
                continue
            if len(lst) > 1:
                for i in range(len(lst)):
                    c = dict(case)
                    c[key] = lst[:i] + lst[i + 1:]
                    yield refit(c)
            for i, sp in enumerate(lst):
                for ch in ({"M": sp["M"] - 1} if sp["M"] > 1 else None,
                           {"l": sp["l"] - 1} if sp["l"] > 0 and not sp.get("conv") else None):
                    if ch:
                        c = dict(case)
                        c[key] = lst[:i] + [dict(sp, **ch)] + lst[i + 1:]
                        yield refit(c)


def refit(case):
    """resize the transforms of a shrunk labelled case"""
    c = dict(case)
    if c.get("T") is not None:
        n = ntot(c["shells"])
        c["T"] = [[(r + 2 * k) % 5 - 1 for k in range(n)] for r in range(max(1, n - 1))]
    if c.get("T2") is not None:
        n = ntot(c["shells2"])
        c["T2"] = [[(2 * r + k) % 5 - 1 for k in range(n)] for r in range(n + 1)]
    return c


def gen_cases(tier, seed):
    rng = random.Random(7000003 * seed + 9)
    return (gen_labelled(tier, rng) + gen_numeric(tier, random.Random(7000003 * seed + 10))
            + gen_labelled_conv(tier, random.Random(7000003 * seed + 11))
            + gen_numeric_conv(tier, random.Random(7000003 * seed + 12)))


def run(rep, tier, seed, model, replay):
    if replay is not None:
        cases = [replay["case"]]
    else:
        cases = gen_cases(tier, seed)
    run_cases(rep, cases, eval_case, shrinkfn=shrink_case)
