"""C07 — multipole-moment integrals exact for every order and origin.
Correspondence: Moment.construct_array_contraction / moment_integral vs the exact Coq model (commands 8, 9);
order (0,0,0) vs overlap_integral; the binomial origin-shift law checked on the implementation with exact
binomial coefficients.
Stream "hp": Moment.construct_array_contraction (command 8) and the kernel _compute_multipole_moment_integrals itself
(command 5, norms from the real norm_prim_cart) replayed in 260-bit arithmetic on object arrays (harness/hpnum.py) and
compared at 1e-18 x sum|primitive terms|."""
import itertools
import random
from fractions import Fraction
from math import comb

import numpy as np

import twoindex
from lib import run_cases, sx

RULE = ("block level: (l_a, l_b) in 0..4 x 0..4 enumerated; every order triple with each order 0..4 is used (all 125 "
        "spread over the cases, in shuffled lists of 1-6 triples with repeats); origins on a centre, off centre, far "
        "away; basis level 1-4 shells cart/sph/mixed with/without transform; tolerance 1e-9 of the largest element "
        "of the same order slice (min 1e-9); distinct by input hash; hp stream: 8 (quick) / 80 (thorough) shell pairs "
        "l<=2 / l<=4, K,M<=2, 1-4 order triples up to 4, origins on/off centre and far, replayed at 260 bits against "
        "commands 8 and 5, tolerance 1e-18 x sum|primitive terms|")
RULE += " HISTORY stream (the returned value depends only on the arguments): basis-level shells carry the atom index (icenter; shells sharing a centre share it); every 2nd generated basis (quick; every 4th thorough; with a transform only bases of 1-2 shells) and every 5th same-centre pair is a GEOMETRY SCAN evaluated in one process: the same shells (exponents, coefficients, types, icenter) with the atoms displaced rigidly by k/16 bohr (one atom, or every atom by its own vector) at 1-2 further geometries, then the first geometry again; every call is compared with the exact model at its own geometry with the same tolerance (detail kind \"history\", the replay case contains the geometries; shrinking and replay evaluate every candidate sequence in a fresh process)"
ASSUMPTIONS = ["'double-precision accuracy' is read as 1e-9 relative to the largest element of the order slice; rounding "
               "of the NumPy pipeline is not modelled"]
ALL_ORDERS = list(itertools.product(range(5), repeat=3))


def _C(case):
    return [Fraction(c) for c in case["C"]]


def _impl_block(case, ga, gb):
    from gbasis.integrals.moment import Moment
    return Moment.construct_array_contraction(ga, gb, np.array([float(c) for c in _C(case)]),
                                              np.array(case["orders"], dtype=int))


def _impl_int(case, gbasis, T):
    from gbasis.integrals.moment import moment_integral
    return moment_integral(gbasis, np.array([float(c) for c in _C(case)]), np.array(case["orders"], dtype=int),
                           transform=T)


def _hp_block(case, ha, hb):
    import hpnum
    C = hpnum.hp_array(_C(case))
    orders = np.array(case["orders"], dtype=int)
    if case.get("hp") == 5:      # the kernel itself, as Moment.construct_array_contraction calls it
        from gbasis.integrals._moment_int import _compute_multipole_moment_integrals
        return _compute_multipole_moment_integrals(
            C, orders, ha.coord, ha.angmom_components_cart, ha.exps, ha.coeffs, ha.norm_prim_cart,
            hb.coord, hb.angmom_components_cart, hb.exps, hb.coeffs, hb.norm_prim_cart)
    from gbasis.integrals.moment import Moment
    return Moment.construct_array_contraction(ha, hb, C, orders)


def _block_cmd(case, sa, sb):
    code = 5 if case.get("hp") == 5 else 8
    return "(%d %s %s %s %s)" % (code, sx(_C(case)), sx(case["orders"]), sa.sx(), sb.sx())


def _tol(model, case, res, level, *args):
    """1e-9 x the natural magnitude of the slice: the largest element of the slice, or - when the slice is small or
    vanishes by parity while the recursion's intermediate terms do not (a single diffuse shell, odd orders about its own
    centre: exact value 0, terms ~ (1/2a)^(n/2) ~ 1e7) - the largest element of the moment whose orders are rounded up
    to even numbers, which never vanishes by symmetry on the diagonal (Cauchy-Schwarz scale of the operator)."""
    arr = np.array(res, dtype=object)
    nd = arr.shape[-1]
    scale = [max(1.0, max(abs(float(x)) for x in arr[..., d].flat)) for d in range(nd)]
    even = [[int(o) + int(o) % 2 for o in tr] for tr in case["orders"]]
    if even != [list(map(int, tr)) for tr in case["orders"]]:
        c2 = dict(case, orders=even)
        if level == "block":
            ev = model.call(KERNEL["block_cmd"](c2, *args))
        else:
            ev = model.call(KERNEL["int_cmd"](c2, *args))
        earr = np.array(ev, dtype=object)
        for d in range(nd):
            scale[d] = max(scale[d], max(abs(float(x)) for x in earr[..., d].flat))
    return None, (lambda idx: 1e-9 * scale[idx[-1]])


def _extra(case, impl, res, level):
    """order (0,0,0) slices must reproduce the overlap (implementation against itself and the model)."""
    if level != "basis":
        return None
    return None


KERNEL = dict(
    name="moment",
    block_cmd=_block_cmd, hp_block=_hp_block, hp_seg=lambda case: (1, 3) if case.get("hp") == 5 else (0, 2),
    int_cmd=lambda case, basis, T: "(9 %s %s %s %s)" % (sx(_C(case)), sx(case["orders"]), twoindex.basis_sx(basis),
                                                         twoindex.t_sx(T)),
    impl_block=_impl_block, impl_int=_impl_int, post=lambda a: a, tol=_tol)
_eval = twoindex.make_eval(KERNEL)


def eval_case(model, case):
    if case["kind"] == "shift":
        # binomial origin shift on the implementation: M'(k) = sum_m C(k,m) (X-X')^(k-m) M(m) per axis
        from gbasis.integrals.moment import moment_integral
        from lib import XShell
        basis = [XShell.from_json(s) for s in case["basis"]]
        gb = [s.to_gbasis() for s in basis]
        X = [Fraction(c) for c in case["C"]]
        X2 = [Fraction(c) for c in case["C2"]]
        o = case["order"]
        lower = [list(t) for t in itertools.product(range(o[0] + 1), range(o[1] + 1), range(o[2] + 1))]
        m_new = moment_integral(gb, np.array([float(c) for c in X2]), np.array([o], dtype=int))[:, :, 0]
        m_old = moment_integral(gb, np.array([float(c) for c in X]), np.array(lower, dtype=int))
        exp = np.zeros_like(m_new)
        mag = np.zeros_like(m_new)
        for t, low in enumerate(lower):
            coef = Fraction(1)
            for ax in range(3):
                coef *= comb(o[ax], low[ax]) * (X[ax] - X2[ax]) ** (o[ax] - low[ax])
            exp += float(coef) * m_old[:, :, t]
            mag += abs(float(coef)) * np.abs(m_old[:, :, t])
        err = np.abs(exp - m_new)
        tol = 1e-9 * np.maximum(1.0, mag)
        d = None
        if np.any(err > tol):
            i = np.unravel_index(np.argmax(err / tol), err.shape)
            d = {"kind": "origin-shift", "index": list(map(int, i)), "impl": repr(float(m_new[i])),
                 "binomial_sum": repr(float(exp[i]))}
        return {"detail": d, "nontrivial": sum(o) > 0, "tag": "moment shift"}
    out = _eval(model, case)
    if out["detail"] is None and case["kind"] == "basis" and case.get("T") is None and [0, 0, 0] in case["orders"]:
        from gbasis.integrals.moment import moment_integral
        from gbasis.integrals.overlap import overlap_integral
        from lib import XShell
        gb = [XShell.from_json(s).to_gbasis() for s in case["basis"]]
        k = case["orders"].index([0, 0, 0])
        mm = moment_integral(gb, np.array([float(Fraction(c)) for c in case["C"]]), np.array(case["orders"], dtype=int))
        if np.abs(mm[:, :, k] - overlap_integral(gb)).max() > 1e-9:
            out["detail"] = {"kind": "order0-not-overlap"}
    return out


def gen_cases(tier, seed):
    rng = random.Random(1000003 * seed + 7)
    pool = list(ALL_ORDERS)
    rng.shuffle(pool)
    state = {"i": 0}

    def extra(r, level, shells):
        n = r.randint(1, 6 if level == "block" else 4)
        orders = []
        for _ in range(n):
            if r.random() < 0.25 and orders:
                orders.append(list(r.choice(orders)))  # repeat
            else:
                orders.append(list(pool[state["i"] % len(pool)]))
                state["i"] += 1
        if r.random() < 0.3:
            orders.append([0, 0, 0])
        r.shuffle(orders)
        mode = r.random()
        if mode < 0.15:
            C = [Fraction(0)] * 3
        elif mode < 0.45:
            C = list(r.choice(shells).coord)          # origin exactly on a shell centre (any of them)
        elif mode < 0.8:
            C = [Fraction(r.randint(-40, 40), 16) for _ in range(3)]
        else:
            C = [Fraction(r.randint(-800, 800), 8) for _ in range(3)]  # far away
        return {"C": [str(c) for c in C], "orders": orders}

    def hp_extra(r, level, shells):
        d = extra(r, level, shells)
        d["orders"] = d["orders"][:4]
        return d

    cases = twoindex.hp_cases(tier, seed, salt=7, n_quick=8, n_thorough=80, extra=hp_extra)
    for i, c in enumerate(cases):
        if i % 2:
            c["hp"] = 5          # odd cases: the kernel called directly (command 5), axes [D][Ma][La][Mb][Lb]
    cases += twoindex.gen_cases(tier, seed, salt=7, lmax_block=4, lmax_basis=3, extra=extra,
                                nb_quick=40, nb_thorough=250, block_reps_thorough=4)
    nshift = 6 if tier == "quick" else 40
    from lib import gen_shell
    for _ in range(nshift):
        from lib import gen_basis
        basis = gen_basis(rng, rng.randint(1, 3), lmax=2, kmax=2, mmax=2)
        cases.append({"kind": "shift", "basis": [s.to_json() for s in basis],
                      "C": [str(Fraction(rng.randint(-32, 32), 16)) for _ in range(3)],
                      "C2": [str(Fraction(rng.randint(-32, 32), 16)) for _ in range(3)],
                      "order": [rng.randint(0, 3) for _ in range(3)]})
    return cases


def run(rep, tier, seed, model, replay):
    cases = [replay["case"]] if replay is not None else gen_cases(tier, seed)
    run_cases(rep, cases, eval_case, shrinkfn=twoindex.shrink_case, isolate=True)
