"""Build and audit of the Coq development: full .vo build, forbidden-token scan,
Print Assumptions of every theorem in Props/<id>.v compared with the allow-list."""
import os
import re
import subprocess

VERIF = os.path.dirname(os.path.dirname(os.path.abspath(__file__)))
COQ = os.path.join(VERIF, "coq")

# axioms declared by the Coq standard library that the development may rely on (DESIGN.md 8)
ALLOWED_AXIOMS = {
    "ClassicalDedekindReals.sig_forall_dec",
    "ClassicalDedekindReals.sig_not_dec",
    "FunctionalExtensionality.functional_extensionality_dep",
    "Classical_Prop.classic",
}
FORBIDDEN = re.compile(
    r"\b(Admitted|admit|Axiom|Axioms|Parameter|Parameters|Conjecture|Admit Obligations|bypass_check)\b"
    r"|Unset Guard Checking|Unset Positivity Checking|Unset Universe Checking|type-in-type|impredicative-set")

TRUSTED_BASE = [
    "Coq 8.16.1 kernel incl. vm_compute (no native_compute)",
    "Coq extraction with the directives of ExtrOcamlBasic and ExtrOcamlZBigInt only; OCaml 4.13.1; zarith 1.12",
    "ocaml/driver.ml (S-expression parser/printer, oracle closures) and harness/*.py (generators, comparison)",
    "mpmath 1.3.0 for pi, sqrt, exp, ln, Boys values (72-bit dyadic roundings of 260-bit evaluations)",
    "analytic bridge B1-B3 of DESIGN.md 2.6 (Gaussian integral of a monomial; Laplace transform of 1/r; positivity of the L2/Coulomb forms)",
    "NumPy/SciPy semantics and IEEE rounding are not modelled: accuracy clauses are decided on generated inputs",
]


def build():
    """Full build; returns (ok, log)."""
    p = subprocess.run(["flock", os.path.join(VERIF, ".build.lock"), os.path.join(VERIF, "build.sh")],
                       capture_output=True, text=True)
    ok = p.returncode == 0 and os.path.exists(os.path.join(VERIF, "ocaml", "driver"))
    return ok, (p.stdout + p.stderr)[-4000:]


def extraction_current():
    """True if Extract/Extract.vo exists and is not older than any .v it was built from (so the OCaml
    driver, rebuilt by build.sh whenever the extracted model changes, is the current model)."""
    ext = os.path.join(COQ, "Extract", "Extract.vo")
    if not os.path.exists(ext):
        return False
    t = os.path.getmtime(ext)
    with open(os.path.join(COQ, "_CoqProject")) as f:
        names = [l.strip() for l in f if l.strip().endswith(".v")]
    for n in names:
        if n.startswith(("Props/", "Proofs/", "Gen/")):
            continue
        vo = os.path.join(COQ, n + "o")
        if not os.path.exists(vo) or os.path.getmtime(os.path.join(COQ, n)) > os.path.getmtime(vo):
            return False
    return True


def scan_forbidden():
    hits = []
    for root, _, files in os.walk(COQ):
        for fn in files:
            if fn.endswith(".v"):
                path = os.path.join(root, fn)
                with open(path) as f:
                    src = f.read()
                # strip comments (non-nested is enough for our sources; nested handled by loop)
                prev = None
                while prev != src:
                    prev = src
                    src = re.sub(r"\(\*[^*(]*(?:\*(?!\))[^*(]*|\((?!\*)[^*(]*)*\*\)", " ", src)
                for m in FORBIDDEN.finditer(src):
                    hits.append("%s: %s" % (os.path.relpath(path, VERIF), m.group(0)))
    return hits


def _audit_file(pid, relname, res):
    """Compile one Props file, parse its theorems and their assumptions into res."""
    props = os.path.join(COQ, relname)
    with open(props) as f:
        src = f.read()
    theorems = re.findall(r"^\s*(?:Theorem|Example)\s+(\w+)", src, flags=re.M)
    printed = re.findall(r"^\s*Print Assumptions\s+(\w+)\s*\.", src, flags=re.M)
    res["obligations"] += len(theorems)
    missing = [t for t in theorems if t not in printed]
    if missing:
        res["broken"].append("no Print Assumptions for: " + ", ".join(missing))
    p = subprocess.run(["timeout", "900", "coqc", "-Q", ".", "GB", relname],
                       cwd=COQ, capture_output=True, text=True)
    if p.returncode != 0:
        res["broken"].append("coqc %s failed: %s" % (relname, (p.stderr or p.stdout)[-1500:]))
        return 0
    # split the output into one chunk per Print Assumptions
    out = p.stdout
    chunks = re.split(r"(?=Closed under the global context|Axioms:)", out)
    chunks = [c for c in chunks if c.startswith("Closed under") or c.startswith("Axioms:")]
    if len(chunks) != len(printed):
        res["broken"].append("%s: expected %d Print Assumptions outputs, got %d" % (relname, len(printed), len(chunks)))
        return 0
    good = 0
    for name, ch in zip(printed, chunks):
        if ch.startswith("Closed under"):
            axs = []
        else:
            axs = re.findall(r"^([A-Za-z_][\w.']*)\s*:", ch, flags=re.M)
            axs = [a for a in axs if a != "Axioms"]
        bad = [a for a in axs if a not in ALLOWED_AXIOMS]
        res["theorems"].append({"name": name, "assumptions": axs})
        res["_axioms"].update(axs)
        if bad:
            res["broken"].append("theorem %s depends on non-allowed assumptions: %s" % (name, ", ".join(bad)))
        elif name in theorems:
            good += 1
    return good


# Theorems shared by several properties: the analytic bridge B1 (Gauss/Bridge*.v, GaussInt.v: the algebraic moment
# functional E IS the normalised Gaussian integral over R) backs every separable-integral property.  It is audited
# with C16 (integrals and evaluations describe the same functions) on every run, with the others in the thorough tier.
SHARED = [
    # (Props file, properties that audit it on every run, properties that audit it in the thorough tier)
    ("BRIDGE_value.v", ("C16",), ("C01", "C02", "C07", "C08")),   # B1 closed: Gaussian integral proved
    ("BRIDGE_3d.v", ("C16",), ("C01", "C02", "C07", "C08")),      # model block entries = iterated integrals over R^3
    ("BRIDGE.v", (), ("C16", "C01", "C02", "C07", "C08")),        # uniqueness / kills-derivatives development
    ("BRIDGE_boys.v", (), ("C03", "C14", "C16")),                 # Phi with Boys values = t-integral over [0,1]
    ("BRIDGE_coulomb.v", (), ("C03", "C14")),                     # B2 reduced to the exchange of integrals alone
]


def props_files(pid, tier=None):
    """Props/<pid>.v plus any Props/<pid>_*.v (a property's theorems may be spread over several files)."""
    d = os.path.join(COQ, "Props")
    names = [pid + ".v"] + sorted(n for n in os.listdir(d) if n.startswith(pid + "_") and n.endswith(".v"))
    for fn, always, thorough in SHARED:
        if (pid in always or (tier == "thorough" and pid in thorough)) and os.path.exists(os.path.join(d, fn)):
            names.append(fn)
    return [os.path.join("Props", n) for n in names]


def audit(pid, tier=None):
    """Compile Props/<pid>.v (and Props/<pid>_*.v), parse theorems and their assumptions."""
    props = os.path.join(COQ, "Props", pid + ".v")
    res = {"obligations": 0, "discharged": 0, "theorems": [], "axioms": [], "broken": [], "_axioms": set(),
           "checker_cmd": "cd /verif/coq && make -f Makefile.coq (full .vo build) && coqc -Q . GB Props/%s.v [Props/%s_*.v] "
                          "(Print Assumptions under every theorem)" % (pid, pid),
           "trusted_base": list(TRUSTED_BASE)}
    if not os.path.exists(props):
        res["broken"].append("missing " + props)
        del res["_axioms"]
        return res
    hits = scan_forbidden()
    if hits:
        res["broken"].append("forbidden tokens: " + "; ".join(hits[:10]))
    # one coqc per Props file, in parallel (Print Assumptions dominates: ~0.6 s per theorem)
    from concurrent.futures import ThreadPoolExecutor
    files = props_files(pid, tier)
    parts = [{"obligations": 0, "theorems": [], "broken": [], "_axioms": set()} for _ in files]
    with ThreadPoolExecutor(max_workers=min(8, len(files))) as ex:
        goods = list(ex.map(lambda fr: _audit_file(pid, fr[0], fr[1]), zip(files, parts)))
    good = sum(goods)
    for part in parts:
        res["obligations"] += part["obligations"]
        res["theorems"] += part["theorems"]
        res["broken"] += part["broken"]
        res["_axioms"].update(part["_axioms"])
    axioms_all = res.pop("_axioms")
    res["axioms"] = sorted(axioms_all)
    res["discharged"] = good if not res["broken"] else min(good, max(0, res["obligations"] - 1))
    if axioms_all:
        res["trusted_base"].append("standard-library axioms used: " + ", ".join(sorted(axioms_all)))
    else:
        res["trusted_base"].append("axioms: none (every theorem is closed under the global context)")
    return res


def coqchk(pid, timeout=3000, tier="thorough"):
    """Thorough tier: re-check the compiled Props files of one property (and everything they depend on) with the
    independent checker coqchk; -o prints the axioms the loaded libraries rely on."""
    mods = ["GB." + rel[:-2].replace("/", ".") for rel in props_files(pid, tier)]
    try:
        p = subprocess.run(["timeout", str(timeout), "coqchk", "-silent", "-o", "-Q", ".", "GB"] + mods,
                           cwd=COQ, capture_output=True, text=True)
    except Exception as e:  # noqa: BLE001
        return {"ok": False, "error": str(e)}
    out = p.stdout + p.stderr
    m = re.search(r"\* Axioms:(.*?)\n\s*\n\* Constants/Inductives relying on type-in-type:(.*?)\n\s*\n"
                  r"\* Constants/Inductives relying on unsafe \(co\)fixpoints:(.*?)\n\s*\n"
                  r"\* Inductives whose positivity is assumed:(.*?)\n", out, flags=re.S)
    res = {"ok": p.returncode == 0 and m is not None, "modules": mods, "returncode": p.returncode}
    if m:
        ax = [a.strip() for a in m.group(1).split("\n") if a.strip() and a.strip() != "<none>"]
        res["axioms_of_loaded_libraries"] = ax
        res["type_in_type"] = m.group(2).strip()
        res["unsafe_fixpoints"] = m.group(3).strip()
        res["assumed_positivity"] = m.group(4).strip()
        if any(x != "<none>" for x in (res["type_in_type"], res["unsafe_fixpoints"], res["assumed_positivity"])):
            res["ok"] = False
    else:
        res["tail"] = out[-1500:]
    return res
