"""C03 — point-charge and nuclear-attraction integrals exact.
Correspondence: PointChargeIntegral.construct_array_contraction, point_charge_integral and
nuclear_electron_attraction_integral of /repo vs the exact Coq model (commands 14-16); Boys values from mpmath
(independent of scipy's hyp1f1). The nuclear-attraction matrix is also compared with the sum of the implementation's
own per-charge arrays.
Stream "hp": PointChargeIntegral.construct_array_contraction (the one-electron kernel _compute_one_elec_integrals: Boys
seed, vertical and horizontal recursions, the norms computed inside, contraction, component selection, a/b swap, charge
factor) replayed in 260-bit arithmetic on object arrays with the Boys function from mpmath (harness/hpnum.py) and
compared with command 14 at 1e-18 x (largest sum|primitive terms| of the block).  The points and charges are handed
over as the float arrays the method insists on (dtype check): they are dyadic rationals, and every operation that
involves them has an HP operand, so nothing is rounded."""
import random
from fractions import Fraction

import numpy as np

import lib
import twoindex
from lib import XShell, run_cases, sx

RULE = ("block level: every (l_a, l_b) in 0..5 x 0..5 (both L_a>=L_b and L_a<L_b) enumerated; 1-5 charges of either sign "
        "placed on a Gaussian centre, between the centres, near and far (Boys arguments from 0 to > 1e4 occur: the "
        "evidence lists the largest); basis level 1-4 shells cart/sph/mixed with/without transform, nuclear "
        "attraction = sum over charges; tolerance 1e-8*sqrt(|V_aa V_bb|) per charge from the exact model; direct sweep of "
        "PointChargeIntegral.boys_func (array shapes of the integral code): orders 0..10 x arguments {0, 5e-324, 1e-300, "
        "..., 1e-32, 1e-31, 1e-30, 2e-30, 1e-29 .. 1e-24 (what coincident product centres give through rounding), every "
        "decade to 1e6, 0.5, 2, 5, 20..100} + 21 seeded 53-bit arguments log-uniform in 1e-33..1e6, against mpmath at "
        "1e-11 relative; distinct by input hash; hp stream: 6 (quick) / 50 (thorough) shell pairs l<=2 / l<=3, K,M<=2, 1-2 charges, "
        "replayed at 260 bits (Boys function by mpmath), tolerance 1e-18 x largest sum|primitive terms| of the block")
RULE += " HISTORY stream (the returned value depends only on the arguments): basis-level shells carry the atom index (icenter; shells sharing a centre share it); every 2nd generated basis (quick; every 4th thorough; with a transform only bases of 1-2 shells; only where the exact model is cheap: pair-cost estimate x charges <= 40000 quick / 120000 thorough) and every 5th same-centre pair is a GEOMETRY SCAN evaluated in one process: the same shells (exponents, coefficients, types, icenter) with the atoms displaced rigidly by k/16 bohr (one atom, or every atom by its own vector) at 1-2 further geometries, then the first geometry again; every call is compared with the exact model at its own geometry with the same tolerance (detail kind \"history\", the replay case contains the geometries; shrinking and replay evaluate every candidate sequence in a fresh process)"
ASSUMPTIONS = ["rounding of the NumPy pipeline and of scipy.special.hyp1f1 is not modelled: accuracy is decided on the "
               "generated inputs against the exact value (Boys function by mpmath at 260 bits)"]


def _pts(case):
    return [[Fraction(x) for x in p] for p in case["pts"]]


def _np_pts(case):
    pts = _pts(case)
    return (np.array([[float(x) for x in p[:3]] for p in pts]), np.array([float(p[3]) for p in pts]))


def _impl_block(case, ga, gb):
    from gbasis.integrals.point_charge import PointChargeIntegral
    pc, pq = _np_pts(case)
    return PointChargeIntegral.construct_array_contraction(ga, gb, pc, pq)


_HPCLS = []


def _hp_block(case, ha, hb):
    import hpnum
    from gbasis.integrals.point_charge import PointChargeIntegral
    if not _HPCLS:
        _HPCLS.append(type("PointChargeHP", (PointChargeIntegral,), {"boys_func": staticmethod(hpnum.boys_hp)}))
    pc, pq = _np_pts(case)
    return _HPCLS[0].construct_array_contraction(ha, hb, pc, pq)


def _impl_int(case, gbasis, T):
    pc, pq = _np_pts(case)
    if case.get("nuclear"):
        from gbasis.integrals.nuclear_electron_attraction import nuclear_electron_attraction_integral
        return nuclear_electron_attraction_integral(gbasis, pc, pq, transform=T)
    from gbasis.integrals.point_charge import point_charge_integral
    return point_charge_integral(gbasis, pc, pq, transform=T)


def _tol(model, case, res, level, *args):
    pts = sx(_pts(case))
    if level == "block":
        sa, sb = args
        da = model.call("(14 %s %s %s)" % (pts, sa.sx(), sa.sx()))
        db = model.call("(14 %s %s %s)" % (pts, sb.sx(), sb.sx()))
        np_ = len(case["pts"])
        ta = [[[abs(float(da[m][c][m][c][k])) for k in range(np_)] for c in range(len(da[0]))] for m in range(len(da))]
        tb = [[[abs(float(db[m][c][m][c][k])) for k in range(np_)] for c in range(len(db[0]))] for m in range(len(db))]
        return None, (lambda idx: 1e-8 * (ta[idx[0]][idx[1]][idx[4]] * tb[idx[2]][idx[3]][idx[4]]) ** 0.5)
    basis, T = args
    un = model.call("(15 %s %s ())" % (pts, twoindex.basis_sx(basis)))
    n = len(un)
    np_ = len(case["pts"])
    diag = [[abs(float(un[i][i][k])) for k in range(np_)] for i in range(n)]
    if T is None and not case.get("nuclear"):
        return None, (lambda idx: 1e-8 * (diag[idx[0]][idx[1 + 1]] * diag[idx[1]][idx[2]]) ** 0.5
                      if False else 1e-8 * (diag[idx[0]][idx[2]] * diag[idx[1]][idx[2]]) ** 0.5)
    # summed over charges and/or transformed: scale = sum over charges of the largest diagonal, times row norms of T
    tot = sum(max(diag[i][k] for i in range(n)) for k in range(np_))
    if T is None:
        return 1e-8 * tot, None
    rn = [sum(abs(float(x)) for x in row) for row in T]
    if case.get("nuclear"):
        return None, (lambda idx: 1e-8 * tot * max(rn[idx[0]], 1e-30) * max(rn[idx[1]], 1e-30))
    dmax = [max(diag[i][k] for i in range(n)) for k in range(np_)]
    return None, (lambda idx: 1e-8 * dmax[idx[2]] * max(rn[idx[0]], 1e-30) * max(rn[idx[1]], 1e-30))


def _int_cmd(case, basis, T):
    code = 16 if case.get("nuclear") else 15
    return "(%d %s %s %s)" % (code, sx(_pts(case)), twoindex.basis_sx(basis), twoindex.t_sx(T))


def _extra(case, impl, res, level):
    if level == "basis" and case.get("nuclear") and case.get("T") is None:
        from gbasis.integrals.point_charge import point_charge_integral
        gb = [XShell.from_json(s).to_gbasis() for s in case["basis"]]
        pc, pq = _np_pts(case)
        per = point_charge_integral(gb, pc, pq)
        if np.abs(per.sum(axis=2) - impl).max() > 1e-10 * max(1.0, np.abs(per).max()):
            return {"kind": "nuclear-not-sum-of-charges"}
    return None


KERNEL = dict(
    name="pointcharge",
    block_cmd=lambda case, sa, sb: "(14 %s %s %s)" % (sx(_pts(case)), sa.sx(), sb.sx()),
    int_cmd=_int_cmd, impl_block=_impl_block, impl_int=_impl_int, post=lambda a: a, tol=_tol, extra_check=_extra,
    hp_block=_hp_block, hp_floor=1.0)
_eval_int = twoindex.make_eval(KERNEL)


def eval_case(model, case):
    if case["kind"] == "boys":
        return lib.eval_boys_case(case)
    return _eval_int(model, case)


def shrink_case(case):
    if case["kind"] == "boys":
        return lib.shrink_boys_case(case)
    return twoindex.shrink_case(case)


def place_points(rng, centres, n):
    """1-5 charges: on a centre, between centres, near, far."""
    pts = []
    for _ in range(n):
        mode = rng.random()
        c = rng.choice(centres)
        if mode < 0.25:
            pos = list(c)
        elif mode < 0.4 and len(centres) > 1:
            d = rng.choice(centres)
            pos = [(a + b) / 2 for a, b in zip(c, d)]
        elif mode < 0.75:
            pos = [x + Fraction(rng.randint(-24, 24), 16) for x in c]
        else:
            pos = [x + Fraction(rng.randint(-400, 400), 4) for x in c]
        q = 0
        while q == 0:
            q = Fraction(rng.randint(-40, 40), 4) if rng.random() < 0.7 else Fraction(rng.randint(-100, 100), 1)
        pts.append([str(x) for x in pos] + [str(q)])
    return pts


def gen_cases(tier, seed):
    rng = random.Random(1000003 * seed + 31)
    cases = twoindex.gen_cases(tier, seed, salt=3, lmax_block=5, lmax_basis=3, nb_quick=24, nb_thorough=150,
                               block_reps_thorough=2, kcap_big=2)
    hp = twoindex.hp_cases(tier, seed, salt=3, lmax_quick=2, lmax_thorough=3, n_quick=6, n_thorough=50)
    for c in hp:
        centres = [[Fraction(x) for x in c["a"]["coord"]], [Fraction(x) for x in c["b"]["coord"]]]
        # the replay receives the points as float arrays: snap every coordinate to the double it will become (a centre
        # with a 53-bit coordinate plus k/16 is not a double in general), so that model and replay see the same number
        c["pts"] = [[str(Fraction(float(Fraction(x)))) for x in p] for p in place_points(rng, centres, rng.randint(1, 2))]
    for i, c in enumerate(cases):
        if c["kind"] == "block":
            big = c["a"]["l"] + c["b"]["l"] >= 7
            centres = [[Fraction(x) for x in c["a"]["coord"]], [Fraction(x) for x in c["b"]["coord"]]]
            c["pts"] = place_points(rng, centres, rng.randint(1, 2 if (tier == "quick" or big) else 5))
            if big:  # keep the exact model affordable for the largest tables
                for key in ("a", "b"):
                    c[key]["exps"] = c[key]["exps"][:2]
                    c[key]["coeffs"] = c[key]["coeffs"][:2]
        else:
            centres = [[Fraction(x) for x in s["coord"]] for s in c["basis"]]
            c["pts"] = place_points(rng, centres, rng.randint(1, 5))
            c["nuclear"] = (i % 2 == 0)
            # HISTORY (geometry scans, twoindex.add_history; the charges stay where they are): only where the exact
            # model (Boys tables per charge) is cheap, so that no scan sets the wall time of the tier
            if c.get("hist") and twoindex.cost_proxy(c) * len(c["pts"]) > (40000 if tier == "quick" else 120000):
                c["hist"] = None
    # the Boys function itself: orders 0..10 (l_a + l_b <= 10), arguments 0, 5e-324 .. 1e6
    cases += lib.boys_cases(seed, 10, "pointcharge")
    return hp + cases


def run(rep, tier, seed, model, replay):
    cases = [replay["case"]] if replay is not None else gen_cases(tier, seed)
    run_cases(rep, cases, eval_case, shrinkfn=shrink_case, isolate=True)
