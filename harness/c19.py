"""C19 - calls are pure: arguments, shells and the process-wide numpy error state are never changed.

The monitor.  A case is one *history*: an environment of SHARED objects (a basis of 1-3 shells and the
list/tuple objects holding them, point / density / transform / charge arrays, a parsed basis dictionary,
atom and coord_types lists, ...) plus a sequence of 1-30 operations on them:

  call     a public function of gbasis (valid arguments, or deliberately corrupted ones that raise)
  update   shell.<angmom|coord|exps|coeffs|coord_type> = value (accepted or rejected by the setter)
  assign   shell.assign_norm_cont()
  seterr   the *user* changes numpy's error state (np.seterr) - part of the world, not a library call

Around EVERY call a bitwise snapshot of every shared object (arrays: dtype, shape, writeable flag, bytes;
lists/tuples/dicts deeply; every attribute of every shell incl. the cached norm_cont) and of
numpy.geterr()/geterrcall() is taken and compared, whether the call returned or raised.  Results are stored as
digests and then scribbled over (so a result that aliases an argument, or that the library keeps and hands
out again, is noticed); results must not share memory with any shared array.

The Coq model (coq/Model/Effects.v, run through the extracted runner, command 210, and re-evaluated inside
Coq with vm_compute from a generated _work/cases_c19_<tier>.v for a subset) is given the same environment
(exact rationals) and the same operations.  It predicts, per operation: accepted / rejected for updates,
"world unchanged" for calls, the index of the first earlier call that must give the *same* outcome
(computed in the free interpretation of result_of, so it is sound for every deterministic function), and
the final world: every array value, every shell parameter, the error state, and for every shell the
parameters at its last (re)normalisation.  Observed and predicted are compared op by op; the cached
norm_cont is compared bitwise with that of a freshly constructed shell carrying the predicted parameters;
shells the model calls fresh must have a unit overlap diagonal (1e-8).

Component conventions: the environment may hold shells of one angular momentum whose class reports another
Cartesian order / other pure labels (subclasses as gbasis/wrappers.py builds them; the labels of one of them are
a caller-owned LIST that is also passed to generate_transformation directly, several times).  The convention
objects are shared objects like any other (snapshots cover lists of strings), and a shell's table is part of the
shell's value in the model.  "The value returned depends only on the arguments" is additionally tested ACROSS
PROCESSES: a pair of call-only histories with the same calls in different orders is executed in two newly forked
processes; calls the model declares equal (result_depends_on_values_only, on first ++ second) must give bitwise
equal results - state that a call leaves behind in the process (a memo keyed by part of the arguments) makes
them differ even though every repetition inside one process agrees.
"""
import copy
import hashlib
import json
import multiprocessing as mp
import os
import random
import subprocess
import traceback
from fractions import Fraction

import numpy as np

import lib
from lib import XShell, gen_shell

RULE = ("histories of 1-30 operations (quick ~40, thorough ~600) on one environment of shared objects: basis of 1-3 "
        "generalized shells (l<=2, K<=3, M<=2, Cartesian/spherical mixed), list/tuple/sub-list basis objects, points, "
        "PSD and non-symmetric density matrices, square and rectangular transforms, charges (float / zero / str dtype), "
        "moment and derivative orders, a basis dictionary parsed from tests/data_*.nwchem|gbs with atoms / coords / "
        "coord_types list+tuple; ops: ~45% valid public calls (30 functions), ~20% corrupted calls (an argument "
        "replaced by another shared object or a bad immediate), ~20% shell parameter updates (valid and rejected), "
        "~10% assign_norm_cont, ~5% np.seterr by the user; 35% of histories start from a non-default error state "
        "(modes ignore/warn/raise). COMPONENT CONVENTIONS (60% of the histories, 4 directed ones, tag 'conventions'): "
        "three more spherical shells of one l in {1,2,3} - the library class (default order), a subclass with a permuted "
        "Cartesian order and the default pure labels, a subclass whose pure labels ARE the shared list object SO "
        "(permuted, '-' markers) - bases Bd/Bc/Bs/Bdc/Bcd/Bcs over them and the caller's convention objects SO (list), "
        "SOt (tuple), CO/COd (component arrays); ~20% of the ops are calls on them: symmetric / asymmetric overlap, "
        "kinetic energy, evaluate_basis on default order, a custom order of the same l, default again, and "
        "generate_transformation with the SAME list object 'right' then 'left' (then 'left'); the convention table of a "
        "shell is part of its value in the model (coord_type field = (coord_type, table)). TWO-PROCESS PAIRS (4 quick, "
        "24 thorough, tag 'two-processes'): two call-only histories over one environment holding the same calls in "
        "another order (default-order-first vs custom-order-first, and random shuffles / reversals) are run in two "
        "newly forked processes that have made no library call; the model, given first++second, names the calls that "
        "must agree and their results are compared bitwise across the processes. overlap_integral is also called with "
        "loose tolerances (pairs really screened). Every random choice from random.Random(seed,index). A history is non-trivial "
        "when it has >=2 ops, at least one call returned and at least one pair of calls was predicted equal or an "
        "update happened; distinct by the hash of the exact case.")
ASSUMPTIONS = [
    "NumPy view/copy aliasing inside the library is not modelled in Coq: the model states what purity means "
    "(world unchanged, outcome a function of argument values); that the implementation conforms is OBSERVED by the "
    "monitor on the generated histories (bitwise snapshots, shares_memory, scribbling over results), not proved",
    "observation covers what is reachable from the shared objects (arrays, containers, every attribute of every "
    "shell, numpy.geterr/geterrcall); other process state (warnings registry, BLAS threads, the file system) is not "
    "watched",
    "bitwise equality of repeated results presumes single-threaded BLAS (./check exports OPENBLAS_NUM_THREADS=1); "
    "the two-process pairs presume in addition that two processes forked from this one compute bitwise equal "
    "results for bitwise equal arguments (same binary, same libraries, same error state)",
    "unit normalisation is checked numerically (1e-8) on the generated shells only; the exact statement is C01's",
    "shell parameter updates are made through the property setters with fresh arrays; in-place writes into an "
    "array a shell was built from (which the shell shares) are user mutations and are not generated",
    "results of make_contractions / parse_* legitimately share arrays with their arguments / each other; the "
    "no-alias check is applied to array-valued results only",
]
EXTRA = {}

DATA_FILES = ["data_sto6g.nwchem", "data_631g.nwchem", "data_sto6g.gbs", "data_631g.gbs", "data_ccpvdz.nwchem",
              "data_anorcc.nwchem"]
MODES = ["ignore", "warn", "raise", "call", "print", "log"]
DEFAULT_ERR = {"divide": "warn", "over": "warn", "under": "ignore", "invalid": "warn"}
CTYPE_ID = {"c": 0, "cartesian": 1, "p": 2, "spherical": 3}


# ----------------------------------------------------------------------------------------------
# the functions driven (public API only)
# ----------------------------------------------------------------------------------------------
def _funcs():
    from gbasis import parsers, spherical
    from gbasis.evals import density, electrostatic_potential, eval, eval_deriv, stress_tensor
    from gbasis.integrals import (angular_momentum, electron_repulsion, kinetic_energy, moment, momentum,
                                  nuclear_electron_attraction, overlap, overlap_asymm, point_charge)
    return {
        "overlap_integral": overlap.overlap_integral,
        "overlap_integral_asymmetric": overlap_asymm.overlap_integral_asymmetric,
        "kinetic_energy_integral": kinetic_energy.kinetic_energy_integral,
        "moment_integral": moment.moment_integral,
        "momentum_integral": momentum.momentum_integral,
        "angular_momentum_integral": angular_momentum.angular_momentum_integral,
        "point_charge_integral": point_charge.point_charge_integral,
        "nuclear_electron_attraction_integral": nuclear_electron_attraction.nuclear_electron_attraction_integral,
        "electron_repulsion_integral": electron_repulsion.electron_repulsion_integral,
        "evaluate_basis": eval.evaluate_basis,
        "evaluate_deriv_basis": eval_deriv.evaluate_deriv_basis,
        "evaluate_density_using_evaluated_orbs": density.evaluate_density_using_evaluated_orbs,
        "evaluate_density": density.evaluate_density,
        "evaluate_deriv_reduced_density_matrix": density.evaluate_deriv_reduced_density_matrix,
        "evaluate_deriv_density": density.evaluate_deriv_density,
        "evaluate_density_gradient": density.evaluate_density_gradient,
        "evaluate_density_laplacian": density.evaluate_density_laplacian,
        "evaluate_density_hessian": density.evaluate_density_hessian,
        "evaluate_posdef_kinetic_energy_density": density.evaluate_posdef_kinetic_energy_density,
        "evaluate_general_kinetic_energy_density": density.evaluate_general_kinetic_energy_density,
        "electrostatic_potential": electrostatic_potential.electrostatic_potential,
        "evaluate_stress_tensor": stress_tensor.evaluate_stress_tensor,
        "evaluate_ehrenfest_force": stress_tensor.evaluate_ehrenfest_force,
        "evaluate_ehrenfest_hessian": stress_tensor.evaluate_ehrenfest_hessian,
        "parse_nwchem": parsers.parse_nwchem,
        "parse_gbs": parsers.parse_gbs,
        "make_contractions": parsers.make_contractions,
        "generate_transformation": spherical.generate_transformation,
    }


FUNC_NAMES = ["overlap_integral", "overlap_integral_asymmetric", "kinetic_energy_integral", "moment_integral",
              "momentum_integral", "angular_momentum_integral", "point_charge_integral",
              "nuclear_electron_attraction_integral", "electron_repulsion_integral", "evaluate_basis",
              "evaluate_deriv_basis", "evaluate_density_using_evaluated_orbs", "evaluate_density",
              "evaluate_deriv_reduced_density_matrix", "evaluate_deriv_density", "evaluate_density_gradient",
              "evaluate_density_laplacian", "evaluate_density_hessian", "evaluate_posdef_kinetic_energy_density",
              "evaluate_general_kinetic_energy_density", "electrostatic_potential", "evaluate_stress_tensor",
              "evaluate_ehrenfest_force", "evaluate_ehrenfest_hessian", "parse_nwchem", "parse_gbs",
              "make_contractions", "generate_transformation"]
FUNC_ID = {n: i for i, n in enumerate(FUNC_NAMES)}
ESP_ID = FUNC_ID["electrostatic_potential"]  # = 20, the function with an error-state window in the model
_FUNCS = None


def funcs():
    global _FUNCS
    if _FUNCS is None:
        _FUNCS = _funcs()
    return _FUNCS


# ----------------------------------------------------------------------------------------------
# JSON <-> objects (exact: floats are written as "num/den")
# ----------------------------------------------------------------------------------------------
def fstr(x):
    q = Fraction(float(x))
    return "%d/%d" % (q.numerator, q.denominator)


def arr_json(a):
    a = np.asarray(a)
    if a.dtype.kind == "f":
        def cv(x):
            return [cv(y) for y in x] if isinstance(x, list) else fstr(x)
        return {"dtype": "f", "shape": list(a.shape), "data": cv(a.tolist())}
    if a.dtype.kind == "i":
        return {"dtype": "i", "shape": list(a.shape), "data": a.tolist()}
    if a.dtype.kind == "U":
        return {"dtype": "U", "shape": list(a.shape), "data": a.tolist()}
    raise ValueError(a.dtype)


def arr_from_json(j):
    if j["dtype"] == "f":
        def cv(x):
            return [cv(y) for y in x] if isinstance(x, list) else float(Fraction(x))
        return np.array(cv(j["data"]), dtype=float).reshape(j["shape"])
    if j["dtype"] == "i":
        return np.array(j["data"], dtype=int).reshape(j["shape"])
    return np.array(j["data"], dtype=str).reshape(j["shape"])


def imm_from_json(v):
    """immediates: None, bool, int, str, {"f": "n/d"}, {"arr": arrjson}, {"list": [...]}, {"tuple": [...]}"""
    if isinstance(v, dict):
        if "f" in v:
            return float(Fraction(v["f"]))
        if "arr" in v:
            return arr_from_json(v["arr"])
        if "list" in v:
            return [imm_from_json(x) for x in v["list"]]
        if "tuple" in v:
            return tuple(imm_from_json(x) for x in v["tuple"])
        raise ValueError(v)
    return v


def shell_from_json(sj):
    from gbasis.contractions import GeneralizedContractionShell
    xs = XShell.from_json(sj)
    return GeneralizedContractionShell(
        xs.l, np.array([float(c) for c in xs.coord]), np.array([[float(c) for c in r] for r in xs.coeffs]),
        np.array([float(e) for e in xs.exps]), "spherical" if xs.sph else "cartesian")


def default_comps(l):
    return [(x, y, l - x - y) for x in range(l, -1, -1) for y in range(l - x, -1, -1)]


def default_labels(l):
    if l == 1:
        return ["c1", "s1", "c0"]
    return ["s%d" % m for m in range(l, 0, -1)] + ["c%d" % m for m in range(l + 1)]


_CONV_CLASS = None


def conv_class():
    """GeneralizedContractionShell subclass that reports the component convention it was GIVEN (as the subclasses of
    gbasis/wrappers.py do for other programs).  The convention is an ordinary attribute of the shell object:
    `_conv = {"cart": [indices into the default Cartesian order], "sph": <the caller's list/tuple of pure labels>}`;
    `angmom_components_sph` hands out that very object (a stored convention table), so the snapshots of the shell
    (and of the shared object, if the table is one) show any edit made to it."""
    global _CONV_CLASS
    if _CONV_CLASS is None:
        from gbasis.contractions import GeneralizedContractionShell as G

        class ConventionShell(G):
            def __init__(self, angmom, coord, coeffs, exps, coord_type, conv):
                self._conv = conv
                super().__init__(angmom, coord, coeffs, exps, coord_type)

            @property
            def angmom_components_cart(self):
                return G.angmom_components_cart.fget(self)[self._conv["cart"]]

            @property
            def angmom_components_sph(self):
                return self._conv["sph"]

        _CONV_CLASS = ConventionShell
    return _CONV_CLASS


def conv_shell_from_json(sj, conv):
    xs = XShell.from_json(sj)
    return conv_class()(
        xs.l, np.array([float(c) for c in xs.coord]), np.array([[float(c) for c in r] for r in xs.coeffs]),
        np.array([float(e) for e in xs.exps]), "spherical" if xs.sph else "cartesian", conv)


def fresh_like(s, angmom, coord, coeffs, exps):
    """a freshly constructed Cartesian shell of the class (and convention) of s with the given parameters"""
    from gbasis.contractions import GeneralizedContractionShell
    if hasattr(s, "_conv"):
        return conv_class()(angmom, coord, coeffs, exps, "cartesian", s._conv)
    return GeneralizedContractionShell(angmom, coord, coeffs, exps, "cartesian")


def tests_dir():
    return os.path.join(lib.REPO, "tests")


def build_env(envj):
    """Shared objects, by name.  Built from the case alone (replayable)."""
    env = {}
    shells = [shell_from_json(sj) for sj in envj["shells"]]
    env["_shells"] = shells
    env["B"] = list(shells)
    env["Bt"] = tuple(shells)
    env["B0"] = [shells[0]]
    for name, aj in envj["arrays"].items():
        a = arr_from_json(aj)
        if name in envj.get("fortran", []):        # same values, column-major memory
            a = np.asfortranarray(a)
        elif name in envj.get("strided", []):      # same values, a non-contiguous view of a larger buffer
            big = np.zeros(tuple(2 * n for n in a.shape), dtype=a.dtype)
            view = big[tuple(slice(None, None, 2) for _ in a.shape)]
            view[...] = a
            a = view
        env[name] = a
    cv = envj.get("cv")
    if cv:
        # shells of ONE angular momentum in different component conventions + the convention objects themselves
        l = cv["l"]
        dc = np.array(default_comps(l), dtype=int).reshape(-1, 3)
        env["SO"] = list(cv["SO"])             # a caller's LIST of pure labels (with '-' markers), reused by calls
        env["SOt"] = tuple(cv["SO"])
        env["CO"] = dc[list(cv["CO"])].copy()  # a caller's Cartesian order
        env["COd"] = dc.copy()
        cs = []
        for sj in cv["shells"]:
            c = sj.get("cv")
            if c is None:
                cs.append(shell_from_json(sj))          # the library's own class: default order
            else:
                sph = env[c["sph"]] if c["sph"] in ("SO", "SOt") else tuple(default_labels(l))
                cart = list(c["cart"]) if c["cart"] is not None else list(range(len(dc)))
                cs.append(conv_shell_from_json(sj, {"cart": cart, "sph": sph}))
        shells.extend(cs)                      # env["_shells"] is this list: they are part of the watched world
        for name, b in cv["bases"].items():
            objs = [cs[i] for i in b["idx"]]
            env[name] = tuple(objs) if b.get("tuple") else objs
    bd = envj.get("bd")
    if bd:
        f = funcs()[bd["parser"]]
        full = f(os.path.join(tests_dir(), bd["file"]))
        env["BD"] = {a: full[a] for a in full if a in bd["atoms"]}   # the entries of the atoms used (same arrays)
        env["AT"] = list(bd["atoms"])
        env["ATt"] = tuple(bd["atoms"])
        env["CT"] = list(bd["coord_types"])
        env["CTt"] = tuple(bd["coord_types"])
    return env


def shared_names(env):
    return sorted(k for k in env if not k.startswith("_"))


# ----------------------------------------------------------------------------------------------
# snapshots
# ----------------------------------------------------------------------------------------------
def is_shell(o):
    return any(c.__name__ == "GeneralizedContractionShell" for c in type(o).__mro__)


def snap(o, ids=True):
    if isinstance(o, np.ndarray):
        return ("nd", o.dtype.str, o.shape, bool(o.flags.writeable), o.tobytes())
    if isinstance(o, np.generic):
        return ("ns", o.dtype.str, o.tobytes())
    if isinstance(o, (list, tuple)):
        return (type(o).__name__, tuple(snap(e, ids) for e in o))
    if isinstance(o, dict):
        return ("dict", tuple((snap(k, ids), snap(v, ids)) for k, v in o.items()))
    if o is None or isinstance(o, (bool, int, float, str)):
        return ("py", type(o).__name__, repr(o))
    if is_shell(o):
        return ("shell", id(o) if ids else 0, type(o).__name__,
                tuple((k, snap(v, ids)) for k, v in sorted(vars(o).items())))
    return ("obj", type(o).__name__)


def snap_world(env):
    w = {k: snap(env[k]) for k in shared_names(env)}
    for i, s in enumerate(env["_shells"]):
        w["shell[%d]" % i] = snap(s)
    w["numpy.geterr"] = ("err", tuple(sorted(np.geterr().items())), repr(np.geterrcall()))
    return w


def describe(s, depth=0):
    """short human-readable form of a snapshot"""
    if s[0] == "nd":
        try:
            a = np.frombuffer(s[4], dtype=np.dtype(s[1])).reshape(s[2])
            return "array(%s, dtype=%s, writeable=%s)" % (np.array2string(a, threshold=12, precision=6), s[1], s[3])
        except Exception:  # noqa: BLE001
            return "array(shape=%s dtype=%s)" % (s[2], s[1])
    if s[0] in ("list", "tuple"):
        inner = ", ".join(describe(e, depth + 1) for e in s[1][:8])
        return ("[%s]" if s[0] == "list" else "(%s)") % inner
    if s[0] == "py":
        return s[2]
    if s[0] == "shell":
        return "shell(" + ", ".join("%s=%s" % (k, describe(v, depth + 1)) for k, v in s[3]) + ")" if depth < 1 \
            else "<shell>"
    if s[0] == "err":
        return "%s errcall=%s" % (dict(s[1]), s[2])
    if s[0] == "dict":
        if depth < 2 and len(s[1]) <= 4:
            return "{" + ", ".join("%s: %s" % (describe(k, depth + 1), describe(v, depth + 1)) for k, v in s[1]) + "}"
        return "{%d items}" % len(s[1])
    return str(s[:2])


def world_diff(before, after):
    out = []
    for k in before:
        if before[k] != after.get(k):
            out.append({"object": k, "before": describe(before[k])[:600], "after": describe(after[k])[:600]})
    return out


def digest(o):
    return hashlib.sha1(repr(snap(o, ids=False)).encode()).hexdigest()


def all_arrays(o, acc=None, seen=None):
    acc = [] if acc is None else acc
    seen = set() if seen is None else seen
    if id(o) in seen:
        return acc
    seen.add(id(o))
    if isinstance(o, np.ndarray):
        acc.append(o)
    elif isinstance(o, (list, tuple)):
        for e in o:
            all_arrays(e, acc, seen)
    elif isinstance(o, dict):
        for e in o.values():
            all_arrays(e, acc, seen)
    elif is_shell(o):
        for e in vars(o).values():
            all_arrays(e, acc, seen)
    return acc


def aliases(res, env):
    """names of shared objects whose memory an array-valued result shares"""
    if not isinstance(res, np.ndarray):
        return []
    hit = []
    for k in shared_names(env) + ["_shells"]:
        for a in all_arrays(env[k]):
            if np.may_share_memory(res, a) and np.shares_memory(res, a):
                hit.append(k)
                break
    return hit


# ----------------------------------------------------------------------------------------------
# encoding of the world / the operations for the Coq model (wire format of Extract/Sx.v)
# value encoding (injective): None (0) | str (1 id) | bool (2 b) | list (3 ..) | tuple (4 ..) |
#   array (5 dtype shape data) with dtype 0 float 1 int 2 other | dict (6 (k v)..) | shell ref (7 i) |
#   python int = bare integer | python float = n/d
# ----------------------------------------------------------------------------------------------
class Intern:
    def __init__(self):
        self.tab = dict(CTYPE_ID)

    def __call__(self, s):
        if s not in self.tab:
            self.tab[s] = 100 + len(self.tab)
        return self.tab[s]


def q_tok(x):
    q = Fraction(float(x))
    return "%d/%d" % (q.numerator, q.denominator)


def enc_val(o, intern, shell_index):
    if o is None:
        return "(0)"
    if isinstance(o, (bool, np.bool_)):
        return "(2 %d)" % int(o)
    if isinstance(o, (int, np.integer)):
        return str(int(o))
    if isinstance(o, (float, np.floating)):
        return q_tok(o)
    if isinstance(o, str):
        return "(1 %d)" % intern(o)
    if isinstance(o, list):
        return "(3 %s)" % " ".join(enc_val(e, intern, shell_index) for e in o)
    if isinstance(o, tuple):
        return "(4 %s)" % " ".join(enc_val(e, intern, shell_index) for e in o)
    if isinstance(o, np.ndarray):
        dt = 0 if o.dtype.kind == "f" else 1 if o.dtype.kind == "i" else 2

        def data(x):
            if isinstance(x, list):
                return "(%s)" % " ".join(data(y) for y in x)
            return enc_val(x, intern, shell_index)
        return "(5 %d (%s) %s)" % (dt, " ".join(str(n) for n in o.shape), data(o.tolist()))
    if isinstance(o, dict):
        return "(6 %s)" % " ".join("(%s %s)" % (enc_val(k, intern, shell_index), enc_val(v, intern, shell_index))
                                   for k, v in o.items())
    if is_shell(o):
        return "(7 %d)" % shell_index[id(o)]
    raise ValueError(type(o))


def enc_err(e, callid=0):
    return "(%d %d %d %d %d)" % (MODES.index(e["divide"]), MODES.index(e["over"]), MODES.index(e["under"]),
                                 MODES.index(e["invalid"]), callid)


def enc_case(case, env):
    """S-expression of command 210 for this case (env freshly built, nothing run yet)."""
    intern = Intern()
    names = shared_names(env)
    index = {n: i for i, n in enumerate(names)}
    shell_index = {id(s): i for i, s in enumerate(env["_shells"])}
    objs = " ".join(enc_val(env[n], intern, shell_index) for n in names)
    # fifth field: the coord_type; for a shell that carries a convention table the PAIR (coord_type, table), so that
    # the table is part of the value of the shell (and of every basis holding it) in the model
    shells = " ".join("(%d %s %s %s %s)" % (
        s.angmom, enc_val(s.coord, intern, shell_index), enc_val(s.exps, intern, shell_index),
        enc_val(s.coeffs, intern, shell_index),
        "(1 %d)" % CTYPE_ID[s.coord_type] if not hasattr(s, "_conv")
        else "(4 (1 %d) %s)" % (CTYPE_ID[s.coord_type], enc_val(s._conv, intern, shell_index)))
        for s in env["_shells"])
    ops = []
    for op in case["ops"]:
        if op["op"] == "call":
            def enc_arg(a):
                if isinstance(a, str) and a.startswith("@"):
                    return "(0 %d)" % index[a[1:]]
                return "(1 %s)" % enc_val(imm_from_json(a), intern, shell_index)
            args = [enc_arg(a) for a in op["a"]]
            for k in sorted(op["k"]):   # keyword arguments: the name (an immediate str) then the value
                args.append("(1 (1 %d))" % intern("kw:" + k))
                args.append(enc_arg(op["k"][k]))
            ops.append("(0 %d (%s))" % (FUNC_ID[op["fn"]], " ".join(args)))
        elif op["op"] == "update":
            fld = ["angmom", "coord", "exps", "coeffs", "coord_type"].index(op["field"])
            ops.append("(1 %d %d %s)" % (op["shell"], fld, enc_val(imm_from_json(op["value"]), intern, shell_index)))
        elif op["op"] == "assign":
            ops.append("(2 %d)" % op["shell"])
        elif op["op"] == "seterr":
            ops.append("(3 %s)" % enc_err(op["err"]))
        else:
            raise ValueError(op)
    return "(210 (%s) (%s) %s (%s))" % (objs, shells, enc_err(case["env"]["err"]), " ".join(ops)), names


def model_predict(model, case, env=None):
    """Run the Coq model (extracted runner) on the case.  Returns dict(ops=[(kind, first, changed)], objs, shells,
    err, fresh, names, cmd, raw)."""
    env = env if env is not None else build_env(case["env"])
    cmd, names = enc_case(case, env)
    raw = model.call_raw(cmd).strip()
    res = lib.parse_sx(raw)
    if isinstance(res, list) and len(res) == 2 and res[0] == -1:
        raise RuntimeError("model rejected command 210 (code %s)" % res[1])
    ops, objs, shells, err, fresh = res
    return {"ops": [(int(k), int(f), int(c)) for (k, f, c) in ops], "objs": objs, "shells": shells,
            "err": [int(x) for x in err], "fresh": [int(x) for x in fresh], "names": names, "cmd": cmd, "raw": raw}


# decoding of a model value back to something comparable with an observed object
def val_matches(v, o, shells):
    """does the model value v (parsed S-expression with the tags above) denote exactly the Python object o?"""
    if o is None:
        return v == [0]
    if isinstance(o, (bool, np.bool_)):
        return v == [2, int(o)]
    if isinstance(o, (int, np.integer)):
        return not isinstance(v, list) and v == int(o)
    if isinstance(o, (float, np.floating)):
        return not isinstance(v, list) and np.isfinite(o) and v == Fraction(float(o))
    if isinstance(o, str):
        return isinstance(v, list) and len(v) == 2 and v[0] == 1  # interned: identity checked through the snapshots
    if isinstance(o, (list, tuple)):
        tag = 3 if isinstance(o, list) else 4
        return (isinstance(v, list) and len(v) == len(o) + 1 and v[0] == tag
                and all(val_matches(x, y, shells) for x, y in zip(v[1:], o)))
    if isinstance(o, np.ndarray):
        dt = 0 if o.dtype.kind == "f" else 1 if o.dtype.kind == "i" else 2
        if not (isinstance(v, list) and len(v) == 4 and v[0] == 5 and v[1] == dt
                and [int(x) for x in v[2]] == list(o.shape)):
            return False

        def eq(x, y):
            if isinstance(y, list):
                return isinstance(x, list) and len(x) == len(y) and all(eq(a, b) for a, b in zip(x, y))
            return val_matches(x, y, shells)
        return eq(v[3], o.tolist())
    if isinstance(o, dict):
        return (isinstance(v, list) and len(v) == len(o) + 1 and v[0] == 6
                and all(val_matches(p[0], k, shells) and val_matches(p[1], w, shells)
                        for p, (k, w) in zip(v[1:], o.items())))
    if is_shell(o):
        return isinstance(v, list) and len(v) == 2 and v[0] == 7 and shells[int(v[1])] is o
    return False


def arr_of_val(v):
    """numpy array denoted by a model array value (5 dtype shape data)"""
    def cv(x):
        return [cv(y) for y in x] if isinstance(x, list) else (float(x) if v[1] == 0 else int(x))
    return np.array(cv(v[3]), dtype=float if v[1] == 0 else int).reshape([int(n) for n in v[2]])


# ----------------------------------------------------------------------------------------------
# running one history against the implementation
# ----------------------------------------------------------------------------------------------
def resolve(a, env):
    if isinstance(a, str) and a.startswith("@"):
        return env[a[1:]]
    return imm_from_json(a)


def scribble(res):
    """overwrite a returned array (the caller owns it): a result that is a view of an argument or that the
    library keeps would show up in the next snapshot / the next repeated call"""
    if isinstance(res, np.ndarray) and res.flags.writeable and res.dtype.kind == "f" and res.size:
        res.fill(7.25)


def unit_diag_problem(shell):
    """None if diag(overlap_integral([shell])) == 1 to 1e-8, else a description"""
    f = funcs()["overlap_integral"]
    with np.errstate(all="ignore"):
        s = f([shell])
    d = np.abs(np.diag(s) - 1.0)
    if not np.all(np.isfinite(d)) or d.max() > 1e-8:
        return "diag(overlap_integral([shell])) = %s" % np.array2string(np.diag(s), precision=12)
    return None


def run_history(case, pred=None, outcomes_out=None):
    """Execute the history; returns (detail | None, stats).  detail carries 'signature' (what kind of defect,
    which function) used to group failing histories.  outcomes_out (a list) receives the per-op outcomes."""
    F = funcs()
    saved_err = np.geterr()
    saved_call = np.geterrcall()
    stats = {"calls": 0, "returned": 0, "raised": 0, "updates": 0, "rejected_updates": 0, "assigns": 0,
             "pairs_equal": 0, "pairs_equal_model": 0, "unit_checks": 0, "assign_raised": 0,
             "eager_renormalisation_accepted": 0, "stale_norm_confirmed": 0, "setter_decision_differs": 0}
    try:
        np.seterr(**DEFAULT_ERR)
        env = build_env(case["env"])
        shells = env["_shells"]
        np.seterr(**case["env"]["err"])
        # as constructed: unit-normalised (the check is itself a public call on each shell: it is monitored too)
        before = snap_world(env)
        problems = []
        for i, s in enumerate(shells):
            stats["unit_checks"] += 1
            p = unit_diag_problem(s)
            if p:
                problems.append((i, p))
        diff = world_diff(before, snap_world(env))
        if diff:
            which = "errstate" if all(d["object"] == "numpy.geterr" for d in diff) else "argument"
            return ({"kind": "world-changed-by-call", "signature": "%s:overlap_integral:ok" % which, "op_index": -1,
                     "op": "overlap_integral([shell]) on every shell of the freshly built environment",
                     "changed": diff, "model": "world unchanged by a public call"}, stats)
        if problems:
            return ({"kind": "not-unit-normalised", "signature": "unit:constructed", "op_index": -1,
                     "shell": problems[0][0], "impl": problems[0][1]}, stats)
        outcomes = outcomes_out if outcomes_out is not None else []   # per op: ("ok", digest) | ("rejected", "") | None
        keys = {}       # harness-side key of a call -> index of first occurrence
        opkeys = {}     # op index -> key
        for idx, op in enumerate(case["ops"]):
            kind = op["op"]
            if kind == "seterr":
                np.seterr(**op["err"])
                outcomes.append(None)
                continue
            before = snap_world(env)
            if kind == "call":
                stats["calls"] += 1
                args = [resolve(a, env) for a in op["a"]]
                kw = {k: resolve(v, env) for k, v in op["k"].items()}
                try:
                    if op["fn"] in ("parse_nwchem", "parse_gbs") and isinstance(args[0], str):
                        res = F[op["fn"]](os.path.join(tests_dir(), args[0]), *args[1:], **kw)
                    else:
                        res = F[op["fn"]](*args, **kw)
                    out = ("ok", digest(res))
                except Exception as exc:  # noqa: BLE001
                    res = None
                    out = ("rejected", type(exc).__name__ + ": " + str(exc)[:160])
                after = snap_world(env)
                diff = world_diff(before, after)
                if diff:
                    which = "errstate" if all(d["object"] == "numpy.geterr" for d in diff) else "argument"
                    return ({"kind": "world-changed-by-call", "signature": "%s:%s:%s" % (which, op["fn"], out[0]),
                             "op_index": idx, "op": op, "call_outcome": out[0] if out[0] == "ok" else out[1],
                             "changed": diff, "model": "world unchanged by a public call"}, stats)
                if out[0] == "ok":
                    stats["returned"] += 1
                    al = aliases(res, env)
                    if al:
                        return ({"kind": "result-aliases-argument", "signature": "alias:%s" % op["fn"],
                                 "op_index": idx, "op": op, "shares_memory_with": al}, stats)
                    scribble(res)
                    after2 = snap_world(env)
                    if after2 != before:
                        return ({"kind": "result-aliases-argument", "signature": "alias:%s" % op["fn"],
                                 "op_index": idx, "op": op, "changed": world_diff(before, after2)}, stats)
                else:
                    stats["raised"] += 1
                out = (out[0], out[1] if out[0] == "ok" else "")
                outcomes.append(out)
                # which earlier call must have given the same outcome?
                key = (op["fn"], tuple(repr(snap(v, ids=False)) for v in args),
                       tuple((k, repr(snap(kw[k], ids=False))) for k in sorted(kw)), before["numpy.geterr"])
                first_h = keys.setdefault(key, idx)
                opkeys[idx] = key
                first = first_h
                if pred is not None:
                    pk, pf, pc = pred["ops"][idx]
                    if pc != 0:
                        raise RuntimeError("model predicts a world change for a call")  # impossible (theorem)
                    # The model's claim "same outcome as op pf" is made on exact values (incl. the PARAMETERS a
                    # norm was computed from); the harness key is made on the observed bits.  Model-equal must
                    # imply bit-equal arguments (else the encoding is broken); the converse need not hold (a
                    # renormalisation after a coord update gives the same bits).  Both oracles are enforced.
                    if opkeys.get(pf) != key:
                        raise RuntimeError("model says op %d repeats op %d but their argument bits differ" % (idx, pf))
                    if pf != idx:
                        stats["pairs_equal_model"] += 1
                        if outcomes[pf] != out:
                            first = pf
                if first != idx:
                    stats["pairs_equal"] += 1
                    if outcomes[first] != out:
                        return ({"kind": "outcome-differs-on-repeat", "signature": "repeat:%s" % op["fn"],
                                 "op_index": idx, "first_index": first, "op": op,
                                 "first_outcome": outcomes[first][0], "this_outcome": out[0],
                                 "model": "same outcome as op %d (same function, same argument values, same error "
                                          "state)" % first}, stats)
            elif kind == "update":
                stats["updates"] += 1
                s = shells[op["shell"]]
                val = imm_from_json(op["value"])
                try:
                    setattr(s, op["field"], val)
                    st = "ok"
                except Exception:  # noqa: BLE001
                    st = "rejected"
                    stats["rejected_updates"] += 1
                outcomes.append(None)
                after = snap_world(env)
                changed = sorted(k for k in before if before[k] != after[k])
                if pred is not None:
                    pk = pred["ops"][idx][0]
                    if (pk == 1) != (st == "rejected"):
                        # which values a setter accepts is not part of C19: the model's rules (contractions.py:
                        # 214-221, 255-259, 290-298, 339-358, 559-571) no longer describe the code; the purity
                        # checks of this step still apply, the rest of the history is not judged
                        stats["setter_decision_differs"] += 1
                        pred = None
                # an update may change only that shell (and the containers showing it)
                allowed = {"shell[%d]" % op["shell"], "B", "Bt"} | ({"B0"} if op["shell"] == 0 else set())
                bad = [k for k in changed if k not in allowed]
                if st == "rejected" and changed:
                    bad = changed
                if bad:
                    return ({"kind": "update-changed-other-state", "signature": "update:%s:%s" % (op["field"], st),
                             "op_index": idx, "op": op, "changed": world_diff(before, after)}, stats)
            elif kind == "assign":
                stats["assigns"] += 1
                s = shells[op["shell"]]
                try:
                    s.assign_norm_cont()
                except Exception:  # noqa: BLE001
                    # e.g. FloatingPointError under a user-chosen 'raise' mode: the property does not forbid it and
                    # the model does not describe it; the rest of this history is not judged
                    stats["assign_raised"] += 1
                    return (None, stats)
                outcomes.append(None)
                after = snap_world(env)
                allowed = {"shell[%d]" % op["shell"], "B", "Bt"} | ({"B0"} if op["shell"] == 0 else set())
                bad = [k for k in before if before[k] != after[k] and k not in allowed]
                if bad:
                    return ({"kind": "assign-changed-other-state", "signature": "assign:other", "op_index": idx,
                             "op": op, "changed": world_diff(before, after)}, stats)
                stats["unit_checks"] += 1
                p = unit_diag_problem(s)
                if p:
                    return ({"kind": "not-unit-normalised", "signature": "unit:after-assign", "op_index": idx,
                             "op": op, "impl": p, "model": "renormalised_after_update: norm_cont = norm of a freshly "
                             "constructed shell"}, stats)
        # ---- final world against the model's final world
        if pred is not None:
            names = pred["names"]
            for n, v in zip(names, pred["objs"]):
                if not val_matches(v, env[n], shells):
                    return ({"kind": "final-world", "signature": "final:%s" % n, "op_index": len(case["ops"]),
                             "object": n, "impl": describe(snap(env[n]))[:600], "model": str(v)[:600]}, stats)
            cur = np.geterr()
            obs_err = [MODES.index(cur[k]) for k in ("divide", "over", "under", "invalid")]
            if obs_err != pred["err"][:4] or (np.geterrcall() is not None):
                return ({"kind": "final-world", "signature": "final:errstate", "op_index": len(case["ops"]),
                         "impl": str(cur), "model": str([MODES[i] for i in pred["err"][:4]])}, stats)
            for i, (s, pv) in enumerate(zip(shells, pred["shells"])):
                angmom, coord, exps, coeffs, ctype, norm = pv
                ok = (val_matches(angmom, s.angmom, shells) and val_matches(coord, s.coord, shells)
                      and val_matches(exps, s.exps, shells) and val_matches(coeffs, s.coeffs, shells)
                      and (ctype == [1, CTYPE_ID[s.coord_type]] if not hasattr(s, "_conv") else
                           (isinstance(ctype, list) and len(ctype) == 3 and ctype[0] == 4
                            and ctype[1] == [1, CTYPE_ID[s.coord_type]] and val_matches(ctype[2], s._conv, shells))))
                if not ok:
                    return ({"kind": "final-world", "signature": "final:shell-params", "shell": i,
                             "op_index": len(case["ops"]), "impl": describe(snap(s))[:800], "model": str(pv)[:800]},
                            stats)
                # the cached norm is the norm of a fresh shell carrying the parameters of the last (re)normalisation
                n_ang, n_coord, n_exps, n_coeffs = norm
                with np.errstate(all="ignore"):
                    ref = fresh_like(s, int(n_ang), arr_of_val(n_coord), arr_of_val(n_coeffs), arr_of_val(n_exps))
                same = snap(ref.norm_cont)[1:] == snap(s.norm_cont)[1:]
                if same and not pred["fresh"][i]:
                    stats["stale_norm_confirmed"] += 1
                if not same and not pred["fresh"][i]:
                    # The model (like the pinned code) leaves the cache stale until assign_norm_cont.  The property
                    # does not demand staleness: a setter that renormalises at once is accepted as well.
                    with np.errstate(all="ignore"):
                        cur = fresh_like(s, s.angmom, s.coord.copy(), s.coeffs.copy(), s.exps.copy())
                    if snap(cur.norm_cont)[1:] == snap(s.norm_cont)[1:]:
                        same = True
                        stats["eager_renormalisation_accepted"] += 1
                if not same:
                    return ({"kind": "final-world", "signature": "final:norm_cont", "shell": i,
                             "op_index": len(case["ops"]), "fresh_predicted": bool(pred["fresh"][i]),
                             "impl": describe(snap(s.norm_cont)), "model": "norm_cont of a fresh shell with the "
                             "parameters at the last assign_norm_cont: " + describe(snap(ref.norm_cont))}, stats)
        return (None, stats)
    finally:
        np.seterr(**saved_err)
        np.seterrcall(saved_call)


# ----------------------------------------------------------------------------------------------
# generation
# ----------------------------------------------------------------------------------------------
def nfun(sj):
    m = len(sj["coeffs"][0])
    return m * ((2 * sj["l"] + 1) if sj["sph"] else (sj["l"] + 1) * (sj["l"] + 2) // 2)


def rq(rng, den, span):
    return Fraction(rng.randint(-span * den, span * den), den)


def psd(rng, n):
    r = min(n, 2)
    c = np.array([[float(Fraction(rng.randint(-4, 4), 4)) for _ in range(r)] for _ in range(n)])
    return c @ c.T


def gen_env(rng):
    nsh = rng.choice([1, 2, 2, 3])
    shells = []
    for _ in range(nsh):
        l = rng.choice([0, 0, 1, 1, 2])
        shells.append(gen_shell(rng, l=l, kmax=3, mmax=2, span=1, exp_lo=0.05, exp_hi=20.0).to_json())
    n = sum(nfun(s) for s in shells)
    n0 = nfun(shells[0])
    m = max(1, n + rng.choice([0, 0, -1, 1]))
    arrays = {}
    npts = rng.randint(1, 4)
    pts = [[float(rq(rng, 8, 2)) for _ in range(3)] for _ in range(npts)]
    if rng.random() < 0.4:
        pts[0] = [float(Fraction(c)) for c in shells[0]["coord"]]
    arrays["pts"] = np.array(pts)
    arrays["P"] = psd(rng, n)
    if n > 1 and rng.random() < 0.35:
        # symmetric only to within the library's own tolerance (np.allclose: 1e-8 + 1e-5 |P|), as a matrix that went
        # through float32 or a text file is: it must be accepted AND left alone (no "clean-up" of the caller's array)
        arrays["P"][0, n - 1] += 3e-10 * (1.0 + abs(arrays["P"][0, n - 1]))
    pns = psd(rng, n)
    if n > 1:
        pns[0, n - 1] += 0.5
    else:
        pns = np.array([[1.0, 0.5]])
    arrays["Pns"] = pns
    arrays["T"] = np.array([[float(Fraction(rng.randint(-4, 4), 4)) for _ in range(n)] for _ in range(m)])
    arrays["Pm"] = psd(rng, m)
    if m > 1 and rng.random() < 0.35:
        arrays["Pm"][0, m - 1] += 3e-10 * (1.0 + abs(arrays["Pm"][0, m - 1]))
    arrays["T0"] = np.array([[float(Fraction(rng.randint(-4, 4), 4)) for _ in range(n0)] for _ in range(2)])
    k = rng.randint(1, 2)
    nc = [[float(rq(rng, 8, 2)) for _ in range(3)] for _ in range(k)]
    nq = [float(rng.randint(1, 8)) for _ in range(k)]
    if rng.random() < 0.5:
        nc[0] = list(pts[0])          # a nucleus exactly on a grid point ...
        if rng.random() < 0.5:
            nq[0] = 0.0               # ... possibly a ghost atom (0/0)
    arrays["NC"] = np.array(nc)
    arrays["NQ"] = np.array(nq)
    arrays["NQs"] = np.array(["%d" % int(q) for q in nq])
    arrays["MC"] = np.array([float(rq(rng, 8, 1)) for _ in range(3)])
    arrays["MO"] = np.array([[rng.randint(0, 2) for _ in range(3)] for _ in range(rng.randint(1, 3))])
    arrays["O1"] = np.array([rng.randint(0, 2) for _ in range(3)])
    arrays["O2"] = np.array([rng.randint(0, 1) for _ in range(3)])
    arrays["Ipts"] = np.array([[rng.randint(-2, 2) for _ in range(3)] for _ in range(2)])
    envj = {"shells": shells, "arrays": {k_: arr_json(v) for k_, v in arrays.items()}}
    envj["fortran"] = sorted(k_ for k_ in ("pts", "P", "Pm", "T", "NC") if rng.random() < 0.2)
    envj["strided"] = sorted(k_ for k_ in ("pts", "P", "Pm", "T", "NC", "NQ", "MC") if k_ not in envj["fortran"]
                             and rng.random() < 0.2)
    # parsed basis dictionary + atoms / coords / coord_types
    avail = [f for f in DATA_FILES if os.path.exists(os.path.join(tests_dir(), f))]
    if avail:
        fn = rng.choice(avail)
        parser = "parse_nwchem" if fn.endswith(".nwchem") else "parse_gbs"
        bd = funcs()[parser](os.path.join(tests_dir(), fn))
        light = [a for a in bd if 0 < sum(1 for _ in bd[a]) <= 6 and all(t[0] <= 2 for t in bd[a])] or list(bd)
        atoms = [rng.choice(light) for _ in range(rng.randint(1, 2))]
        ncont = sum(len(bd[a]) for a in atoms)
        envj["bd"] = {"parser": parser, "file": fn, "atoms": atoms,
                      "coord_types": [rng.choice(["cartesian", "spherical", "c", "p"]) for _ in range(ncont)]}
        envj["arrays"]["AC"] = arr_json(np.array([[float(rq(rng, 8, 2)) for _ in range(3)] for _ in atoms]))
    if rng.random() < 0.65:
        envj["err"] = dict(DEFAULT_ERR)
    else:
        envj["err"] = {k_: rng.choice(["ignore", "warn", "raise"]) for k_ in DEFAULT_ERR}
    return envj


# ----------------------------------------------------------------------------------------------
# shells of one angular momentum in different component conventions; convention objects reused across calls
# ----------------------------------------------------------------------------------------------
CV_BASES = {"Bd": {"idx": [0]}, "Bc": {"idx": [1]}, "Bs": {"idx": [2]}, "Bdc": {"idx": [0, 1]},
            "Bcd": {"idx": [1, 0]}, "Bcs": {"idx": [1, 2], "tuple": True}}


def gen_cv(rng):
    """three spherical shells of ONE angular momentum l: [0] the library's class (default order), [1] a subclass with
    a permuted Cartesian order and the default pure labels, [2] a subclass whose pure labels are the shared LIST
    object SO (permuted, with '-' markers; Cartesian order default or permuted); the objects SO (list), SOt (tuple),
    CO (the permuted Cartesian order), COd (default order); one-shell / two-shell bases over them"""
    l = rng.choice([2, 2, 3, 1])
    n = len(default_comps(l))
    perm = list(range(n))
    while perm == sorted(perm):
        rng.shuffle(perm)
    base = default_labels(l)
    labs = list(base)
    while labs == base:
        rng.shuffle(labs)
    k = rng.randrange(len(labs))
    labs = [("-" + x) if (i == k or rng.random() < 0.4) else x for i, x in enumerate(labs)]
    shells = [gen_shell(rng, l=l, kmax=2, mmax=2, span=1, exp_lo=0.05, exp_hi=20.0, sph=True).to_json()
              for _ in range(3)]
    shells[1]["cv"] = {"cart": perm, "sph": None}
    perm2 = list(range(n))
    if rng.random() < 0.5:
        rng.shuffle(perm2)
    shells[2]["cv"] = {"cart": perm2, "sph": "SO"}
    return {"l": l, "SO": labs, "CO": perm, "shells": shells, "bases": copy.deepcopy(CV_BASES)}


def cv_call(fn, *a):
    return {"op": "call", "fn": fn, "a": list(a), "k": {}}


def conv_ops(rng, envj):
    """one call (or a default / custom / default triple) on the convention shells or the convention objects"""
    l = envj["cv"]["l"]
    names = sorted(envj["cv"]["bases"])
    r = rng.random()
    if r < 0.2:      # the same function on the default order, a custom order of the same l, the default order again
        fn = rng.choice(["overlap_integral_asymmetric", "overlap_integral_asymmetric", "overlap_integral",
                         "kinetic_energy_integral"])
        x, y = rng.choice([("@Bd", "@Bc"), ("@Bc", "@Bd"), ("@Bd", "@Bs"), ("@Bs", "@Bc")])
        if fn == "overlap_integral_asymmetric":
            return [cv_call(fn, x, x), cv_call(fn, y, y), cv_call(fn, x, x)]
        return [cv_call(fn, x), cv_call(fn, y), cv_call(fn, x)]
    if r < 0.45:
        return [cv_call("overlap_integral_asymmetric", "@" + rng.choice(names), "@" + rng.choice(names))]
    if r < 0.6:
        return [cv_call("overlap_integral", "@" + rng.choice(names))]
    if r < 0.7:
        if rng.random() < 0.5:
            return [cv_call("kinetic_energy_integral", "@" + rng.choice(names))]
        return [cv_call("evaluate_basis", "@" + rng.choice(names), "@pts")]
    # generate_transformation with the caller's (reused) convention objects
    so = rng.choice(["@SO", "@SO", "@SO", "@SOt"])
    co = rng.choice(["@CO", "@COd"])
    if rng.random() < 0.5:
        return [cv_call("generate_transformation", l, co, so, side) for side in
                rng.choice([("right", "left"), ("left", "left"), ("right", "left", "left")])]
    return [cv_call("generate_transformation", l, co, so, rng.choice(["left", "right"]))]


def F_(q):
    q = Fraction(q)
    return {"f": "%d/%d" % (q.numerator, q.denominator)}


def valid_call(rng, envj, fn=None):
    """a call with well-formed arguments (it may still be refused, e.g. after an angmom update)"""
    n = sum(nfun(s) for s in envj["shells"])
    has_bd = "bd" in envj
    names = [f for f in FUNC_NAMES if f != "generate_transformation"
             and (has_bd or f not in ("parse_nwchem", "parse_gbs", "make_contractions"))]
    fn = fn or rng.choice(names)
    basis = rng.choice(["@B", "@B", "@Bt"])
    tr = rng.random() < 0.35
    kw = {}
    P = "@P"
    if tr:
        kw["transform"] = "@T"
        P = "@Pm"
    dt = rng.choice(["general", "general", "direct"])
    if fn in ("overlap_integral",):
        a = [basis]
        if rng.random() < 0.3:
            # tight tolerances (nothing screened) as well as loose ones (cutoff below the distance of the centres:
            # shell pairs really are screened)
            kw["tol_screen"] = F_(rng.choice([Fraction(1, 1 << rng.randint(3, 40)), Fraction(1, 1 << rng.randint(1, 3)),
                                              1 - Fraction(1, 1 << rng.randint(4, 30))]))
    elif fn == "overlap_integral_asymmetric":
        a = [basis, "@B0"]
        kw = {}
        if tr:
            kw = {"transform_one": "@T", "transform_two": "@T0"}
    elif fn in ("kinetic_energy_integral", "momentum_integral", "angular_momentum_integral"):
        a = [basis]
    elif fn == "moment_integral":
        a = [basis, "@MC", "@MO"]
    elif fn == "point_charge_integral":
        a = [basis, "@NC", "@NQ"]
    elif fn == "nuclear_electron_attraction_integral":
        a = [basis, "@NC", "@NQ"]
    elif fn == "electron_repulsion_integral":
        if n > 12:
            a, kw = ["@B0"], {}
        else:
            a = [basis]
        if rng.random() < 0.5:
            kw["notation"] = rng.choice(["physicist", "chemist"])
    elif fn == "evaluate_basis":
        a = [basis, "@pts"]
    elif fn == "evaluate_deriv_basis":
        a = [basis, "@pts", "@O1"]
        kw["deriv_type"] = dt
    elif fn == "evaluate_density_using_evaluated_orbs":
        a, kw = ["@P", "@P"], {}
    elif fn == "evaluate_density":
        a = [P, basis, "@pts"]
        if rng.random() < 0.3:
            kw["threshold"] = F_(Fraction(1, 1 << rng.randint(10, 30)))
    elif fn == "evaluate_deriv_reduced_density_matrix":
        a = ["@O1", "@O2", P, basis, "@pts"]
        kw["deriv_type"] = dt
    elif fn == "evaluate_deriv_density":
        a = ["@O2", P, basis, "@pts"]
        kw["deriv_type"] = dt
    elif fn in ("evaluate_density_gradient", "evaluate_density_laplacian", "evaluate_density_hessian",
                "evaluate_posdef_kinetic_energy_density"):
        a = [P, basis, "@pts"]
        kw["deriv_type"] = dt
    elif fn == "evaluate_general_kinetic_energy_density":
        a = [P, basis, "@pts", F_(Fraction(rng.randint(-4, 4), 4))]
        kw["deriv_type"] = dt
    elif fn == "electrostatic_potential":
        a = [basis, P, "@pts", "@NC", "@NQ"]
        if rng.random() < 0.4:
            kw["threshold_dist"] = F_(Fraction(rng.randint(0, 8), 8))
    elif fn in ("evaluate_stress_tensor", "evaluate_ehrenfest_force", "evaluate_ehrenfest_hessian"):
        a = [P, basis, "@pts"]
        if rng.random() < 0.5:
            kw["alpha"] = F_(Fraction(rng.randint(-4, 4), 4))
            kw["beta"] = F_(Fraction(rng.randint(-4, 4), 4))
        if fn == "evaluate_ehrenfest_hessian" and rng.random() < 0.5:
            kw["symmetric"] = True
    elif fn in ("parse_nwchem", "parse_gbs"):
        ok = [f for f in DATA_FILES if f.endswith(".nwchem" if fn == "parse_nwchem" else ".gbs")
              and os.path.exists(os.path.join(tests_dir(), f))]
        a, kw = [rng.choice(ok) if ok else envj["bd"]["file"]], {}
    elif fn == "make_contractions":
        ct = rng.choice(["@CT", "@CT", "@CTt", "spherical", "c"])
        a, kw = ["@BD", rng.choice(["@AT", "@ATt"]), "@AC", ct], {}
    else:
        raise ValueError(fn)
    return {"op": "call", "fn": fn, "a": a, "k": kw}


BAD_IMMS = [None, -1, {"f": "-1/1"}, "spherical", "foo", {"list": [1, 2, 3]}, {"list": []}, True,
            {"arr": {"dtype": "f", "shape": [2, 2], "data": [["1/1", "1/2"], ["0/1", "1/1"]]}},
            {"arr": {"dtype": "i", "shape": [3], "data": [-1, 0, 1]}},
            {"arr": {"dtype": "f", "shape": [0, 3], "data": []}}]


def corrupt_call(rng, envj, op):
    """replace one argument by another shared object or a bad immediate (most such calls raise; all must be pure)"""
    op = copy.deepcopy(op)
    refs = ["@" + k for k in envj["arrays"]] + ["@B", "@Bt", "@B0"]
    if "bd" in envj:
        refs += ["@BD", "@AT", "@CT", "@CTt"]
    if "cv" in envj:
        refs += ["@SO", "@SOt", "@CO", "@COd", "@Bd", "@Bc", "@Bs", "@Bcs"]
    slots = [("a", i) for i in range(len(op["a"]))] + [("k", k) for k in op["k"]]
    if op["fn"] == "electrostatic_potential" and rng.random() < 0.5:
        op["a"][4] = "@NQs"       # charges with a string dtype pass the ndarray/ndim test
        return op
    if op["fn"] in ("parse_nwchem", "parse_gbs"):
        op["a"][0] = rng.choice(["no_such_file.nwchem", "README.md", "data_sto6g.gbs", "data_sto6g.nwchem"])
        return op
    where, key = rng.choice(slots)
    new = rng.choice(refs) if rng.random() < 0.6 else rng.choice(BAD_IMMS)
    if where == "a":
        op["a"][key] = new
    else:
        op["k"][key] = new
    return op


def gen_update(rng, envj, state):
    """a parameter update of one shell; `state` tracks the current K, M of every shell"""
    i = rng.randrange(len(envj["shells"]))
    K, M = state[i]["K"], state[i]["M"]
    field = rng.choice(["exps", "coeffs", "coord", "angmom", "exps", "coeffs", "coord", "coord_type"])
    bad = rng.random() < 0.25
    if field == "exps":
        k = K if not bad else K + rng.choice([-1, 1])
        vals = []
        while len(vals) < max(k, 0):
            e = lib.short_float(rng, 0.05, 20.0)
            if e not in vals:
                vals.append(e)
        val = {"arr": arr_json(np.array([float(e) for e in vals], dtype=float))}
        if bad and rng.random() < 0.4:
            val = {"arr": {"dtype": "i", "shape": [K], "data": [rng.randint(1, 5) for _ in range(K)]}}
        elif bad and rng.random() < 0.3:
            val = {"list": [F_(e) for e in vals]}
    elif field == "coeffs":
        k = K if not bad else K + rng.choice([-1, 1, 2])
        if rng.random() < 0.25 and M == 1:
            data = np.array([float(Fraction(rng.choice([-1, 1]) * rng.randint(1, 16), 8)) for _ in range(max(k, 0))])
        else:
            data = np.array([[float(Fraction(rng.choice([-1, 1]) * rng.randint(1, 16), 8)) for _ in range(M)]
                             for _ in range(max(k, 0))]).reshape(max(k, 0), M)
        val = {"arr": arr_json(data)}
        if bad and rng.random() < 0.3:
            val = {"arr": {"dtype": "i", "shape": [K, M], "data": [[1] * M for _ in range(K)]}}
    elif field == "coord":
        if not bad:
            if rng.random() < 0.25:
                val = {"arr": {"dtype": "i", "shape": [3], "data": [rng.randint(-1, 1) for _ in range(3)]}}
            else:
                val = {"arr": arr_json(np.array([float(rq(rng, 16, 1)) for _ in range(3)]))}
        else:
            val = rng.choice([{"arr": arr_json(np.array([0.5, 0.25]))}, {"list": [F_(0), F_(0), F_(1)]},
                              {"arr": arr_json(np.array([0.5, 0.25, 1.0, 2.0]))},
                              {"arr": {"dtype": "U", "shape": [3], "data": ["a", "b", "c"]}}])
    elif field == "angmom":
        val = rng.choice([0, 1, 2]) if not bad else rng.choice([-1, {"f": "1/1"}, None, "s"])
    else:
        val = rng.choice(["cartesian", "spherical", "c", "p"]) if not bad else rng.choice(["x", 1, None, "Cartesian"])
    return {"op": "update", "shell": i, "field": field, "value": val}


def gen_case(seed, index, tier):
    rng = random.Random(1000003 * seed + 7919 * index + (0 if tier == "quick" else 500000009))
    envj = gen_env(rng)
    if rng.random() < 0.6:
        envj["cv"] = gen_cv(rng)
    state = [{"K": len(s["exps"]), "M": len(s["coeffs"][0])} for s in envj["shells"]]
    nops = rng.choice([1, 2, 3, 5, 8, 12, 16, 20, 25, 30]) if index % 4 else rng.randint(1, 30)
    ops = []
    pending = []  # shells updated and not yet renormalised
    heavy = 0
    while len(ops) < nops:
        if "cv" in envj and rng.random() < 0.2:
            ops.extend(conv_ops(rng, envj))
            continue
        r = rng.random()
        if r < 0.45:
            op = valid_call(rng, envj)
            if ops and rng.random() < 0.3:   # repeat an earlier call literally (possibly after other calls)
                prev = [o for o in ops if o["op"] == "call"]
                if prev:
                    op = copy.deepcopy(rng.choice(prev))
            if op["fn"] in ("electron_repulsion_integral", "evaluate_ehrenfest_hessian"):
                heavy += 1
                if heavy > 3:
                    continue
            ops.append(op)
        elif r < 0.65:
            ops.append(corrupt_call(rng, envj, valid_call(rng, envj)))
        elif r < 0.85:
            op = gen_update(rng, envj, state)
            ops.append(op)
            pending.append(op["shell"])
            if rng.random() < 0.6 and len(ops) < nops:
                ops.append({"op": "assign", "shell": op["shell"]})
                pending = [p for p in pending if p != op["shell"]]
        elif r < 0.95:
            sh = rng.choice(pending) if pending and rng.random() < 0.8 else rng.randrange(len(envj["shells"]))
            ops.append({"op": "assign", "shell": sh})
            pending = [p for p in pending if p != sh]
        else:
            if rng.random() < 0.3:
                err = dict(DEFAULT_ERR)
            else:
                err = {k_: rng.choice(["ignore", "warn", "raise"]) for k_ in DEFAULT_ERR}
            ops.append({"op": "seterr", "err": err})
    return {"env": envj, "ops": ops[:nops]}


def directed_cases():
    """a few fixed short histories for the mechanisms the property names (run in both tiers)"""
    out = []
    rng = random.Random(19)
    for i in range(6):
        envj = gen_env(rng)
        envj["err"] = dict(DEFAULT_ERR)
        mc = []
        if "bd" in envj:
            mc += [{"op": "call", "fn": "make_contractions", "a": ["@BD", "@AT", "@AC", "@CT"], "k": {}}] * 2
            mc += [{"op": "call", "fn": "make_contractions", "a": ["@BD", "@ATt", "@AC", "@CTt"], "k": {}}] * 2
        esp = {"op": "call", "fn": "electrostatic_potential", "a": ["@B", "@P", "@pts", "@NC", "@NQ"], "k": {}}
        esp_bad = {"op": "call", "fn": "electrostatic_potential", "a": ["@B", "@P", "@pts", "@NC", "@NQs"], "k": {}}
        ops = mc + [esp, esp_bad, esp] if i < 3 else [esp, esp_bad, esp] + mc
        if i % 2:
            ops = [{"op": "seterr", "err": {"divide": "warn", "over": "raise", "under": "raise", "invalid": "raise"}}] \
                + ops
        ops += [{"op": "call", "fn": "overlap_integral", "a": ["@B"], "k": {}},
                {"op": "call", "fn": "evaluate_basis", "a": ["@B", "@pts"], "k": {}},
                # screening with a loose tolerance: every pair of shells on different centres is screened
                {"op": "call", "fn": "overlap_integral", "a": ["@B"], "k": {"tol_screen": F_(1 - Fraction(1, 1 << 20))}},
                {"op": "call", "fn": "overlap_integral", "a": ["@B"], "k": {}}]
        out.append({"env": envj, "ops": copy.deepcopy(ops)})
    # component conventions: default order / custom order of the same l / default again; a reused list of labels
    A, S, G = "overlap_integral_asymmetric", "overlap_integral", "generate_transformation"
    for i in range(4):
        envj = gen_env(rng)
        envj["err"] = dict(DEFAULT_ERR)
        envj["cv"] = gen_cv(rng)
        l = envj["cv"]["l"]
        ops = [
            [cv_call(A, "@Bd", "@Bd"), cv_call(A, "@Bc", "@Bc"), cv_call(A, "@Bd", "@Bd"), cv_call(S, "@Bd"),
             cv_call(S, "@Bc"), cv_call(S, "@Bd"), cv_call(S, "@Bdc"), cv_call(S, "@Bcd")],
            [cv_call(A, "@Bc", "@Bc"), cv_call(A, "@Bd", "@Bd"), cv_call(A, "@Bc", "@Bc"), cv_call(A, "@Bdc", "@Bcd"),
             cv_call(A, "@Bcd", "@Bdc"), cv_call(A, "@Bdc", "@Bcd")],
            [cv_call(G, l, "@CO", "@SO", "right"), cv_call(G, l, "@CO", "@SO", "left"),
             cv_call(G, l, "@CO", "@SO", "left"), cv_call(G, l, "@COd", "@SOt", "right"),
             cv_call(G, l, "@COd", "@SOt", "left"), cv_call(G, l, "@COd", "@SO", "right")],
            [cv_call(S, "@Bs"), cv_call(S, "@Bs"), cv_call(A, "@Bs", "@Bs"), cv_call(A, "@Bcs", "@Bd"),
             cv_call(S, "@Bs"), cv_call(G, l, "@COd", "@SO", "left"), cv_call(G, l, "@COd", "@SO", "left")],
        ][i]
        out.append({"env": envj, "ops": copy.deepcopy(ops)})
    return out


def twin_cases(seed, tier):
    """pairs of call-only histories over ONE environment, to be executed in two FRESH processes: the same calls in
    another order.  The model (one history: first half then second half; calls leave the world unchanged) says which
    calls of the second half repeat a call of the first; the outcomes must be bitwise equal although they were
    obtained after different sequences of earlier calls, in different processes."""
    out = []
    A, S, G = "overlap_integral_asymmetric", "overlap_integral", "generate_transformation"
    light = ["overlap_integral", "overlap_integral_asymmetric", "kinetic_energy_integral", "moment_integral",
             "momentum_integral", "evaluate_basis", "evaluate_deriv_basis", "evaluate_density", "point_charge_integral"]
    for k in range(4 if tier == "quick" else 24):
        rng = random.Random(1000003 * seed + 104729 * k + (17 if tier == "quick" else 500000017))
        envj = gen_env(rng)
        envj["cv"] = gen_cv(rng)
        l = envj["cv"]["l"]
        if k % 2 == 0:
            first = [cv_call(A, "@Bd", "@Bd"), cv_call(A, "@Bc", "@Bc"), cv_call(S, "@Bd"), cv_call(A, "@Bd", "@Bd"),
                     cv_call(G, l, "@CO", "@SO", "right"), cv_call(G, l, "@CO", "@SO", "left"), cv_call(S, "@Bs")]
            second = [cv_call(A, "@Bc", "@Bc"), cv_call(S, "@Bs"), cv_call(A, "@Bd", "@Bd"),
                      cv_call(G, l, "@CO", "@SO", "left"), cv_call(S, "@Bd"), cv_call(A, "@Bc", "@Bc"),
                      cv_call(G, l, "@CO", "@SO", "right")]
        else:
            pool = []
            for _ in range(rng.randint(3, 5)):
                pool.extend(conv_ops(rng, envj))
            for _ in range(rng.randint(1, 3)):
                pool.append(valid_call(rng, envj, fn=rng.choice(light)))
            if rng.random() < 0.5:
                pool.append(corrupt_call(rng, envj, valid_call(rng, envj, fn=rng.choice(light))))
            first = list(pool)
            rng.shuffle(first)
            second = list(reversed(first))
            first.append(copy.deepcopy(first[0]))
        out.append({"env": envj, "ops": copy.deepcopy(first), "twin": copy.deepcopy(second)})
    return out


# ----------------------------------------------------------------------------------------------
# evaluation, shrinking, in-Coq cross-check, run()
# ----------------------------------------------------------------------------------------------
_W_MODEL = None


def _w_init():
    global _W_MODEL
    _W_MODEL = lib.ModelProc()


def eval_case(model, case):
    pred = model_predict(model, case) if model is not None else None
    detail, stats = run_history(case, pred)
    return detail, stats, (pred["cmd"], pred["raw"]) if pred else None


def _w_run(case):
    try:
        return (case, eval_case(_W_MODEL, case), None)
    except Exception:  # noqa: BLE001
        return (case, None, traceback.format_exc()[-3000:])


def _t_run(half):
    """one half of a twin case, in a process that has made no call yet"""
    try:
        outs = []
        detail, stats = run_history(half, None, outs)
        return (detail, stats, outs, None)
    except Exception:  # noqa: BLE001
        return (None, None, None, traceback.format_exc()[-3000:])


def eval_twins(model, cases):
    """-> list of (case, detail | None, stats, (cmd, raw))"""
    halves = []
    for c in cases:
        halves.append({"env": c["env"], "ops": c["ops"]})
        halves.append({"env": c["env"], "ops": c["twin"]})
    ctx = mp.get_context("fork")
    with ctx.Pool(min(8, len(halves)), maxtasksperchild=1) as pool:     # every half in a newly forked process
        res = pool.map(_t_run, halves, chunksize=1)
    out = []
    for i, c in enumerate(cases):
        ops = c["ops"] + c["twin"]
        pred = model_predict(model, {"env": c["env"], "ops": ops})
        stats = {}
        detail = None
        outs = []
        for h, (d, st, o, err) in zip(("first", "second"), res[2 * i:2 * i + 2]):
            if err is not None:
                raise RuntimeError("harness error on twin case %s:\n%s" % (json.dumps(c, default=str)[:400], err))
            for k_, v in st.items():
                stats[k_] = stats.get(k_, 0) + v
            if d is not None and detail is None:
                detail = dict(d, process="%s history of the pair (op_index counts inside it)" % h)
            outs.extend(o)
        n_eq = 0
        if detail is None:
            assert len(outs) == len(ops)
            for idx, (pk, pf, pc) in enumerate(pred["ops"]):
                if pc != 0:
                    raise RuntimeError("model predicts a world change for a call")
                if pf != idx:
                    n_eq += 1
                    if outs[pf] != outs[idx] and detail is None:
                        n1 = len(c["ops"])
                        where = lambda j: ("first process, call %d" % j) if j < n1 else ("second process, call %d" % (j - n1))  # noqa: E731
                        detail = {"kind": "outcome-depends-on-earlier-calls", "signature": "history:%s" % ops[idx]["fn"],
                                  "op_index": idx, "first_index": pf, "op": ops[idx],
                                  "first_outcome": outs[pf][0], "this_outcome": outs[idx][0],
                                  "impl": "%s and %s gave different results (same function, bitwise equal argument "
                                          "values, same error state)" % (where(pf), where(idx)),
                                  "model": "result_depends_on_values_only: same outcome as op %d whatever calls were "
                                           "made before" % pf}
        stats["twin_pairs_equal_model"] = n_eq
        out.append((c, detail, stats, (pred["cmd"], pred["raw"])))
    return out


def shrink_case(model, case, signature, budget=150):
    """drop operations while a violation with the same signature remains"""
    def fails(c):
        try:
            d, _, _ = eval_case(model, c)
        except Exception:  # noqa: BLE001
            return None
        return d if d is not None and d["signature"] == signature else None
    best = case
    detail = fails(case)
    steps = 0
    chunk = max(1, len(best["ops"]) // 2)
    while chunk >= 1 and steps < budget:
        i = 0
        progressed = False
        while i < len(best["ops"]) and steps < budget:
            cand = dict(best)
            cand["ops"] = best["ops"][:i] + best["ops"][i + chunk:]
            steps += 1
            d = fails(cand) if cand["ops"] else None
            if d is not None:
                best, detail, progressed = cand, d, True
            else:
                i += chunk
        if chunk == 1 and not progressed:
            break
        chunk = chunk // 2 if chunk > 1 else (1 if progressed else 0)
    # a start from the default error state is simpler, if it still fails
    if best["env"]["err"] != DEFAULT_ERR:
        cand = copy.deepcopy(best)
        cand["env"]["err"] = dict(DEFAULT_ERR)
        d = fails(cand)
        if d is not None:
            best, detail = cand, d
    return best, detail


def coq_crosscheck(pairs, tier):
    """Evaluate the same commands inside Coq (vm_compute) and compare with what the extracted runner answered.
    pairs: list of (cmd, raw_result) S-expression strings.  Returns (n_checked, list of disagreeing indices)."""
    def lit(s):
        # S-expression text -> Coq term of type sx
        out, i, n = [], 0, len(s)
        stack = []
        while i < n:
            ch = s[i]
            if ch == "(":
                stack.append([])
                i += 1
            elif ch == ")":
                top = stack.pop()
                t = "SL [" + "; ".join(top) + "]"
                (stack[-1] if stack else out).append(t)
                i += 1
            elif ch in " \n\t":
                i += 1
            else:
                j = i
                while j < n and s[j] not in " ()\n\t":
                    j += 1
                tok = s[i:j]
                if "/" in tok:
                    a, b = tok.split("/")
                    t = "SQ (%s) %s" % (a, b)
                else:
                    t = "SZ (%s)" % tok
                (stack[-1] if stack else out).append(t)
                i = j
        return out[0]
    path = os.path.join(lib.WORK, "cases_c19_%s.v" % tier)
    with open(path, "w") as f:
        f.write("(* generated by harness/c19.py: the histories of this run, evaluated by the Coq model inside Coq *)\n"
                "From Coq Require Import ZArith List.\nFrom GB Require Import Base.Field Extract.Sx Extract.Run.\n"
                "Import ListNotations.\nOpen Scope Z_scope.\n"
                "Definition K0 := QcK false (qc_of 0 1) (fun x => x) (fun x => x) (fun x => x) (fun _ x => x).\n")
        for i, (cmd, raw) in enumerate(pairs):
            f.write("Definition c%d : sx := %s.\nDefinition r%d : sx := %s.\n" % (i, lit(cmd), i, lit(raw)))
        f.write("Definition answers := [%s].\n" % "; ".join("sx_eqb (run K0 c%d) r%d" % (i, i)
                                                                for i in range(len(pairs))))
        f.write("Eval vm_compute in answers.\n")
    p = subprocess.run(["timeout", "900", "coqc", "-Q", os.path.join(lib.VERIF, "coq"), "GB", path],
                       capture_output=True, text=True, cwd=lib.WORK)
    if p.returncode != 0:
        raise RuntimeError("coqc on %s failed: %s" % (path, (p.stderr or p.stdout)[-1500:]))
    toks = [t for t in p.stdout.replace("[", " ").replace("]", " ").replace(";", " ").split() if t in ("true", "false")]
    if len(toks) != len(pairs):
        raise RuntimeError("could not read the in-Coq answers (%d of %d)" % (len(toks), len(pairs)))
    return len(pairs), [i for i, t in enumerate(toks) if t != "true"]


def run(rep, tier, seed, model, replay):
    if replay is not None:
        cases = [replay["case"]]
    else:
        nseq = 40 if tier == "quick" else 600
        cases = twin_cases(seed, tier) + directed_cases() + [gen_case(seed, i, tier) for i in range(nseq)]
    results = []
    # pairs of histories in fresh processes first (this process has made no library call yet)
    twins = [c for c in cases if "twin" in c]
    cases = [c for c in cases if "twin" not in c]
    if twins and model is not None:
        for c, detail, stats, pr in eval_twins(model, twins):
            results.append((c, (detail, stats, pr), None))
    if not cases:
        pass
    elif len(cases) < 4 or model is None:
        for c in cases:
            results.append((c, eval_case(model, c), None))
    else:
        ctx = mp.get_context("fork")
        with ctx.Pool(min(16, len(cases)), initializer=_w_init) as pool:
            for r in pool.imap_unordered(_w_run, cases, chunksize=1):
                results.append(r)
    results.sort(key=lambda r: json.dumps(r[0], sort_keys=True, default=str))
    tot = {}
    failing = {}
    pairs = []
    prior = set()
    for case, out, err in results:
        if err is not None:
            raise RuntimeError("harness error on case %s:\n%s" % (json.dumps(case, default=str)[:400], err))
        detail, stats, pr = out
        for k, v in stats.items():
            tot[k] = tot.get(k, 0) + v
        nontrivial = len(case["ops"]) >= 2 and stats["returned"] > 0 and (
            stats["pairs_equal"] > 0 or stats["updates"] > 0 or stats.get("twin_pairs_equal_model", 0) > 0)
        tag = "ops=%d-%d" % (10 * (len(case["ops"]) // 10), 10 * (len(case["ops"]) // 10) + 9)
        if "twin" in case:
            tag = "two-processes"
        elif "cv" in case["env"]:
            tag += " conventions"
        rep.count(case, nontrivial=nontrivial, tag=tag)
        if pr is not None:
            pairs.append(pr)
            if "twin" in case or "cv" in case["env"]:
                prior.add(pr[0])
        if detail is not None:
            failing.setdefault(detail["signature"], []).append((case, detail))
    # one minimal replay per distinct signature
    for sig in sorted(failing):
        lst = sorted(failing[sig], key=lambda cd: len(cd[0]["ops"]))
        case, detail = lst[0]
        if replay is None and "twin" not in case:
            case, detail = shrink_case(model, case, sig)
        detail = dict(detail)
        detail["histories_failing_with_this_signature"] = len(lst)
        rep.violation(case, detail)
    # the same commands inside Coq
    if pairs and model is not None:
        # every 6th history (thorough) / in the quick tier: the two-process pairs and the histories with component
        # conventions first, then the others, while the generated Coq terms stay below ~1.3 MB of text (coqc spends
        # ~25 s per MB on them); a single history above 60 kB of S-expression is skipped
        def est(pr):     # size of the Coq literal of an S-expression text
            return sum(len(x) + 6 * x.count(" ") + 4 * x.count("(") for x in pr)
        cand = pairs if tier == "quick" or replay is not None else pairs[::6]
        if tier == "quick":
            cand = sorted(cand, key=lambda pr: 0 if pr[0] in prior else 1)     # stable: otherwise the order of `pairs`
        budget = 1300000 if tier == "quick" else 3600000
        sub, size = [], 0
        for pr in cand:
            if len(pr[0]) + len(pr[1]) <= 60000 and size + est(pr) <= budget:
                sub.append(pr)
                size += est(pr)
        n, bad = coq_crosscheck(sub, tier)
        tot["in_coq_vm_compute_histories"] = n
        if bad:
            raise RuntimeError("extracted runner and in-Coq vm_compute disagree on histories %s" % bad[:5])
    EXTRA.clear()
    EXTRA.update({"monitor_totals": tot, "traces_validated_against_impl": len(pairs), "distinct_violation_signatures": sorted(failing),
                  "functions_driven": FUNC_NAMES})
