"""C16 — analytic integrals and pointwise evaluations describe the same functions.

What is decided here (supporting SEARCH; the theorems are in coq/Props/C16.v): for generated bases the
library's own pointwise evaluations (evaluate_basis, evaluate_deriv_basis, evaluate_density,
evaluate_density_using_evaluated_orbs, evaluate_deriv_reduced_density_matrix,
evaluate_posdef_kinetic_energy_density) are integrated with a uniform-grid trapezoid rule and compared with the
library's analytic integrals (overlap_integral, moment_integral, kinetic_energy_integral):

    int phi_i phi_j                     = S_ij                       (overlap)
    int phi_i (x-C)^a (y-C)^b (z-C)^c phi_j = M_ij[a,b,c]            (moments, every order <= 2 per axis)
    1/2 int grad phi_i . grad phi_j     = T_ij                       (kinetic)
    int rho_P                           = tr(P S)                    (P symmetric: PSD and indefinite)
    int t+_P                            = tr(P T)

Quadrature (the quantifier of the property: "... for which a uniform-grid trapezoid rule converges geometrically
to below 1e-10").  Parameters are FIXED, derived from the generator's bounds alpha in [0.3, 3], l <= 4, moment
order <= 2 per axis, |centre| <= 1, |moment origin| <= 1:
  * every integrand is a sum of products of two primitives = polynomial (per-axis degree <= l+l+2 = 10) times
    exp(-p (x-P)^2) per axis with 0.6 <= p <= 6.  By Poisson summation the trapezoid rule on the whole line
    has error 2 sum_{m>=1} |f^(2 pi m / h)| ~ poly * exp(-pi^2 / (p h^2)): geometric in 1/h^2.  With
    h = 3/16 (a dyadic rational, so that every grid point is exactly representable and can be handed to the
    exact model) the worst 1-D case p = 6, degree 10 has relative error 2e-14 (h = 0.25 gives 1e-6, h = 0.2
    6e-12, h = 0.18 1e-15: measured with mpmath, re-measured on every run by `selftest`);
  * truncation to [-L, L]: the slowest decay is degree 10 with p = 0.6 centred at |c| = 1: the tail beyond
    L = 9.375 = 50 h is < 2e-14 of the integral of the absolute value (L = 8 gives 2e-9, L = 9 7e-13).
  So the rule has 101^3 = 1 030 301 points, weight h^3 (h/2 per axis at the box faces), and converges to ~1e-13 for
  every generated basis, far below the 1e-10 of the quantifier; tolerance of the comparison is 1e-8 for the matrices
  (absolute for O(1) quantities, times max(1, largest analytic element) for moments / kinetic) and the quantifier's
  1e-10 times sum|P_ab| (times max|T|) for the traces.  Separability is used for the GRID and its weights only; all function values come
  from the library.  The grid is processed in x-slabs (5 planes = 51 005 points) spread over the worker pool.
  The error of the coarser rule 2h (every second point) is recorded to document the geometric convergence
  (typically 1e-3 .. 1e-6 at 2h against 1e-13 at h).

Tie to the proven models: for EVERY generated basis the analytic integrals are also compared with the exact Coq
model (runner commands 2, 7, 9) and the evaluations at seeded grid points with commands 102 / 101 (values and the
three first derivatives).  The quadrature comparison is made regardless of the anchors; when it disagrees the anchor
result is attached to the finding (it says WHICH half left the model the theorem same_function_objects talks about);
an anchor disagreement alone (both halves changed consistently) is reported as a violation of kind `anchor:*`.

Verdict: a VIOLATION is a basis on which some quadrature differs from the analytic value by more than the
tolerance, or an anchor disagreement, or a valid request refused.  Cases are shrunk (fewer shells, primitives,
segments, lower l, simpler numbers, single moment order) and written to a replay file."""
import math
import os
import random
import time
from fractions import Fraction

import numpy as np

import lib
import twoindex
from lib import XShell, call_impl, compare, short_float, shrink_shell_json, sx

H = Fraction(3, 16)
NHALF = 50
NPTS = 2 * NHALF + 1
SLAB = 5
TOL = 1e-8
# the traces int rho = tr(P S), int t+ = tr(P T): 1e-10 x sum|P_ab| (x max|T|), the convergence bound of the property's
# quantifier ("a uniform-grid trapezoid rule converges geometrically to below 1e-10"); the rule used here is good to
# ~1e-13 and the observed error is ~1e-15 of that scale.  (With 1e-8 the check saw a density whose small values are
# flushed to zero - integral off by 4e-7 whatever the size of P - only for sum|P_ab| < 40.)
TOL_TRACE = 1e-10
TOL_EVAL = 1e-9
EXP_LO, EXP_HI = 0.3, 3.0
LMAX = 4

RULE = ("bases of 1-3 shells, l in 0..4 (every l and both coordinate types occur in every tier; all-Cartesian, "
        "all-spherical and mixed bases), K 1-3 primitives, M 1-2 segments (generalized; about 60% of the K>=2, M>=2 "
        "shells - at least two shells per run - carry the zero-padded layout of published general contractions: exact "
        "zeros in some but not all columns of a primitive's row, every column and every row keeping a non-zero entry; "
        "evidence counter 'zero-padded generalized shells'), exponents log-uniform "
        "0.3..3 with 8-bit mantissas, centres k/16 with |centre| <= 1, coefficients k/8; moment origin on a centre / "
        "off centre / at the coordinate origin (k/16, norm <= 1), moment orders: all 10 triples of total order <= 2 "
        "plus 3 of the remaining triples with every order <= 2 (thorough: all 27); density matrices P = C C^T "
        "(positive semi-definite, C entries k/4) through evaluate_density / evaluate_posdef_kinetic_energy_density and "
        "a symmetric indefinite P (entries k/4) through evaluate_density_using_evaluated_orbs / "
        "evaluate_deriv_reduced_density_matrix; trapezoid rule h = 3/16 on [-9.375, 9.375]^3 (101^3 points: the box contains "
        "the tails where 0 < rho < 1e-8); tolerance 1e-8 for the matrices, 1e-10 x sum|P_ab| for the traces; a case "
        "is non-trivial when l > 0 or K > 1 or M > 1 or more than one shell; distinct by the hash of the exact input")
ASSUMPTIONS = [
    "the quadrature is supporting search, not a proof object: the analytic statement 'integral of a product of two "
    "function descriptors = E-functional' is the trusted bridge (B1) of DESIGN 2.6",
    "trapezoid parameters are derived from the generator bounds (alpha 0.3..3, l <= 4, order <= 2, |centre| <= 1) "
    "and re-validated on every run against closed-form 1-D Gaussian moments (selftest)",
    "floating-point rounding of the NumPy pipeline and of the 1e6-term sums is not modelled (observed total "
    "error ~1e-13 against the tolerance 1e-8)",
    "evaluate_density / evaluate_posdef_kinetic_energy_density clip negative values and refuse clearly negative "
    "ones (documented behaviour), so they are driven with positive semi-definite P only; indefinite symmetric P "
    "goes through the public un-clipped routines of the same module",
]
EXTRA = {}

ALL_ORDERS = [(a, b, c) for a in range(3) for b in range(3) for c in range(3)]
LOW_ORDERS = [o for o in ALL_ORDERS if sum(o) <= 2]
HIGH_ORDERS = [o for o in ALL_ORDERS if sum(o) > 2]


# ----------------------------------------------------------------------------------------------
# quadrature grid (separable: axis points and weights)
# ----------------------------------------------------------------------------------------------
def axis_grid():
    h = float(H)
    x = np.arange(-NHALF, NHALF + 1, dtype=float) * h          # exact: k * 3/16
    w = np.full(NPTS, h)
    w[0] = w[-1] = h / 2
    return x, w


def selftest():
    """1-D rule against closed forms for the extreme integrands the generator can produce; returns the worst
    relative error (relative to the integral of the absolute value)."""
    x, w = axis_grid()
    worst = 0.0
    for p, c in ((6.0, 0.0), (6.0, 0.40625), (0.6, 1.0), (0.6, -1.0), (3.3, 0.7)):
        for n in range(0, 11):
            # int (x-c)^n exp(-p (x-c)^2) dx = Gamma((n+1)/2) / p^((n+1)/2) for even n, 0 for odd n
            f = (x - c) ** n * np.exp(-p * (x - c) ** 2)
            ex = math.gamma((n + 1) / 2) / p ** ((n + 1) / 2) if n % 2 == 0 else 0.0
            sc = math.gamma((n + 1) / 2) / p ** ((n + 1) / 2)
            worst = max(worst, abs(float(np.dot(w, f)) - ex) / sc)
    return worst


# ----------------------------------------------------------------------------------------------
# cases
# ----------------------------------------------------------------------------------------------
def _basis(case):
    return [XShell.from_json(s) for s in case["basis"]]


def _nfun(basis):
    return sum(s.nfun() for s in basis)


def density_matrices(case, nfun):
    """(P_psd, P_sym) as exact Fractions, derived from the case's seed and the number of functions (so that a
    shrunk case has matrices of the right size)."""
    rng = random.Random(7919 * int(case["pseed"]) + nfun)
    r = rng.randint(1, 3)
    C = [[Fraction(rng.randint(-6, 6), 4) for _ in range(r)] for _ in range(nfun)]
    if all(x == 0 for row in C for x in row):
        C[0][0] = Fraction(1)
    Ppsd = [[sum(C[i][k] * C[j][k] for k in range(r)) for j in range(nfun)] for i in range(nfun)]
    Psym = [[Fraction(0)] * nfun for _ in range(nfun)]
    for i in range(nfun):
        for j in range(i, nfun):
            v = Fraction(rng.randint(-6, 6), 4)
            Psym[i][j] = Psym[j][i] = v
    return Ppsd, Psym


def _fmat(M):
    return np.array([[float(x) for x in row] for row in M], dtype=float)


def gen_centre(rng):
    while True:
        c = [Fraction(rng.randint(-16, 16), 16) for _ in range(3)]
        if sum(x * x for x in c) <= 1:
            return c


def gen_shell16(rng, l, sph, kmax=3, mmax=2, coord=None):
    k = rng.randint(1, kmax)
    m = rng.randint(1, mmax)
    exps = []
    while len(exps) < k:
        e = short_float(rng, EXP_LO, EXP_HI, 8)
        e = min(max(e, Fraction(5, 16)), Fraction(3))      # 5/16 = 0.3125 >= 0.3
        if e not in exps:
            exps.append(e)
    coeffs = []
    for _ in range(k):
        row = []
        for _ in range(m):
            c = 0
            while c == 0:
                c = rng.randint(-16, 16)
            row.append(Fraction(c, 8))
        coeffs.append(row)
    return XShell(l, coord if coord is not None else gen_centre(rng), exps, coeffs, sph)


def zero_pad(rng, sh):
    """Zero-padded layout of published general contractions (cc-pVXZ, ANO: [[.7, 0], [.4, .3], [0, .9]]): exact zeros
    in some but not all columns of a row; every column keeps a non-zero entry and no row becomes all zero.  Returns
    True when at least one row of the shell mixes zero and non-zero entries afterwards."""
    k, m = len(sh.exps), len(sh.coeffs[0])
    if k < 2 or m < 2:
        return False
    for _ in range(50):
        keep = [rng.randrange(k) for _ in range(m)]
        z = [[row != keep[col] and rng.random() < 0.55 for col in range(m)] for row in range(k)]
        if any(all(r) for r in z) or not any(any(r) and not all(r) for r in z):
            continue
        for row in range(k):
            for col in range(m):
                if z[row][col]:
                    sh.coeffs[row][col] = Fraction(0)
        return True
    return False


def pad_bases(rng, bases):
    """About 60% of the generalized (K >= 2, M >= 2) shells get the zero-padded layout; every run has at least two such
    shells: if the bases hold fewer, a primitive is added to shells with M = 2, K = 1 (then, if still short, a second
    segment to K >= 2 shells of the lowest l) - the number of shells and the grid stay what they were."""
    padded = 0
    for shells in bases:
        for sh in shells:
            if len(sh.exps) >= 2 and len(sh.coeffs[0]) >= 2 and rng.random() < 0.6:
                padded += bool(zero_pad(rng, sh))
    allsh = sorted((sh for shells in bases for sh in shells), key=lambda sh: sh.l)
    for sh in allsh:
        if padded >= 2:
            break
        if len(sh.coeffs[0]) >= 2 and len(sh.exps) >= 2:
            if not any(0 in row and any(x != 0 for x in row) for row in sh.coeffs):
                padded += bool(zero_pad(rng, sh))
    for sh in allsh:
        if padded >= 2:
            break
        if len(sh.coeffs[0]) >= 2 and len(sh.exps) == 1:
            while True:
                e = min(max(short_float(rng, EXP_LO, EXP_HI, 8), Fraction(5, 16)), Fraction(3))
                if e not in sh.exps:
                    break
            sh.exps.append(e)
            sh.coeffs.append([Fraction(rng.choice([-3, -2, -1, 1, 2, 3]), 4) for _ in sh.coeffs[0]])
            padded += bool(zero_pad(rng, sh))
    for sh in allsh:
        if padded >= 2:
            break
        if len(sh.coeffs[0]) == 1 and len(sh.exps) >= 2:
            for row in sh.coeffs:
                row.append(Fraction(rng.choice([-3, -2, -1, 1, 2, 3]), 4))
            padded += bool(zero_pad(rng, sh))
    return padded


def gen_cases(tier, seed):
    rng = random.Random(1000003 * seed + 16)
    prng = random.Random(1000003 * seed + 1616)       # zero-padding: its own stream, the bases are otherwise unchanged
    n_cases = 11 if tier == "quick" else 100
    cases = []
    for i in range(n_cases):
        # first 10 cases: l = 0..4 as the leading shell in both coordinate types (enumerated), then random
        if i < 10:
            l0, sph0 = i % 5, bool(i // 5)
        else:
            l0, sph0 = rng.randint(0, LMAX), rng.random() < 0.5
        nsh = 1 + (i % 3)
        if tier == "quick" and l0 >= 3:
            nsh = min(nsh, 2)
        mode = rng.random()
        shells = [gen_shell16(rng, l0, sph0)]
        centres = [shells[0].coord]
        while len(shells) < nsh:
            lcap = LMAX if tier == "thorough" else 3
            l = rng.randint(0, lcap)
            sph = sph0 if mode < 0.3 else (rng.random() < 0.5)
            same = rng.random() < 0.3
            sh = gen_shell16(rng, l, sph, coord=list(rng.choice(centres)) if same else None)
            centres.append(sh.coord)
            shells.append(sh)
        rng.shuffle(shells)
        r = rng.random()
        if r < 0.35:
            C = list(rng.choice(shells).coord)
        elif r < 0.5:
            C = [Fraction(0)] * 3
        else:
            C = gen_centre(rng)
        if tier == "thorough":
            orders = list(ALL_ORDERS)
        else:
            orders = list(LOW_ORDERS) + rng.sample(HIGH_ORDERS, 3)
        cases.append({"kind": "basis", "basis": shells, "C": [str(c) for c in C],
                      "orders": [list(o) for o in orders], "pseed": rng.randint(1, 10 ** 6)})
    pad_bases(prng, [c["basis"] for c in cases])
    for c in cases:
        c["basis"] = [s.to_json() for s in c["basis"]]
    return cases


# ----------------------------------------------------------------------------------------------
# one slab of the grid (runs in a worker process)
# ----------------------------------------------------------------------------------------------
def slab_sums(args):
    """Partial quadrature sums over the x-planes i0 <= i < i1.  Every function value comes from gbasis."""
    case, i0, i1 = args
    try:
        return _slab_sums(case, i0, i1)
    except Exception as exc:  # noqa: BLE001   canonicalised: the implementation refused / crashed
        import traceback
        return {"rejected": type(exc).__name__ + ": " + str(exc)[:300], "where": traceback.format_exc()[-600:]}


def _slab_sums(case, i0, i1):
    from gbasis.evals.density import (evaluate_density, evaluate_density_using_evaluated_orbs,
                                      evaluate_deriv_reduced_density_matrix,
                                      evaluate_posdef_kinetic_energy_density)
    from gbasis.evals.eval import evaluate_basis
    from gbasis.evals.eval_deriv import evaluate_deriv_basis

    basis = _basis(case)
    gb = [s.to_gbasis() for s in basis]
    nfun = _nfun(basis)
    Ppsd, Psym = density_matrices(case, nfun)
    Ppsd, Psym = _fmat(Ppsd), _fmat(Psym)
    C = [float(Fraction(c)) for c in case["C"]]
    ax, aw = axis_grid()
    X, Y, Z = np.meshgrid(ax[i0:i1], ax, ax, indexing="ij")
    WX, WY, WZ = np.meshgrid(aw[i0:i1], aw, aw, indexing="ij")
    pts = np.stack([X.ravel(), Y.ravel(), Z.ravel()], axis=1)
    w = (WX * WY * WZ).ravel()
    # coarse rule 2h: every second point of the same grid (box faces are even indices), weights of spacing 2h
    IX, IY, IZ = np.meshgrid(np.arange(i0, i1), np.arange(NPTS), np.arange(NPTS), indexing="ij")
    even = ((IX % 2 == 0) & (IY % 2 == 0) & (IZ % 2 == 0)).ravel()
    w2 = np.where(even, 8.0 * w, 0.0)
    out = {}
    with np.errstate(all="ignore"):
        phi = evaluate_basis(gb, pts)
        if phi.shape != (nfun, pts.shape[0]):
            return {"rejected": "evaluate_basis returned shape %r, expected %r" % (phi.shape, (nfun, pts.shape[0]))}
        pw = phi * w
        out["S"] = pw @ phi.T
        out["S2"] = (phi * w2) @ phi.T
        d = pts - np.array(C)
        mom = []
        for (a, b, c) in case["orders"]:
            mono = d[:, 0] ** a * d[:, 1] ** b * d[:, 2] ** c
            mom.append((pw * mono) @ phi.T)
        out["M"] = np.stack(mom, axis=2) if mom else np.zeros((nfun, nfun, 0))
        T = np.zeros((nfun, nfun))
        for k in range(3):
            o = np.zeros(3, dtype=int)
            o[k] = 1
            g = evaluate_deriv_basis(gb, pts, o)
            T += 0.5 * ((g * w) @ g.T)
        out["T"] = T
        out["rho_psd"] = float(np.dot(w, evaluate_density(Ppsd, gb, pts)))
        out["ked_psd"] = float(np.dot(w, evaluate_posdef_kinetic_energy_density(Ppsd, gb, pts)))
        out["rho_sym"] = float(np.dot(w, evaluate_density_using_evaluated_orbs(Psym, phi)))
        ks = np.zeros(pts.shape[0])
        for k in range(3):
            o = np.zeros(3, dtype=int)
            o[k] = 1
            ks += evaluate_deriv_reduced_density_matrix(o, o, Psym, gb, pts)
        out["ked_sym"] = float(np.dot(w, 0.5 * ks))
    return out


def slabs():
    return [(i, min(i + SLAB, NPTS)) for i in range(0, NPTS, SLAB)]


def quadrature(pool, case):
    """Sum the slab contributions (in slab order, so the result does not depend on scheduling)."""
    tasks = [(case, i0, i1) for (i0, i1) in slabs()]
    parts = pool.map(slab_sums, tasks, chunksize=1) if pool is not None else [slab_sums(t) for t in tasks]
    for p in parts:
        if "rejected" in p:
            return p
    tot = {}
    for key in parts[0]:
        acc = parts[0][key]
        for p in parts[1:]:
            acc = acc + p[key]
        tot[key] = acc
    return tot


# ----------------------------------------------------------------------------------------------
# comparison of one case
# ----------------------------------------------------------------------------------------------
def _worst(name, quad, ref, tol, errs, rel=None):
    rel = TOL if rel is None else rel
    quad = np.asarray(quad, dtype=float)
    ref = np.asarray(ref, dtype=float)
    if quad.shape != ref.shape:
        return {"kind": "shape", "check": name, "quadrature_shape": list(quad.shape), "analytic_shape": list(ref.shape)}
    if not (np.all(np.isfinite(quad)) and np.all(np.isfinite(ref))):
        return {"kind": "nonfinite", "check": name}
    diff = np.abs(quad - ref)
    e = float(diff.max()) if diff.size else 0.0
    errs[name] = max(errs.get(name, 0.0), e / (tol / rel))       # error in units of the scale the tolerance is relative to
    if e > tol:
        idx = np.unravel_index(int(diff.argmax()), diff.shape) if diff.ndim else ()
        return {"kind": "value", "check": name, "index": [int(i) for i in idx],
                "quadrature": repr(float(quad[idx])), "analytic": repr(float(ref[idx])), "abs_diff": e, "tol": tol}
    return None


def eval_case(model, case, pool):
    """-> dict(detail, nontrivial, tag, errs)"""
    from gbasis.evals.eval import evaluate_basis
    from gbasis.evals.eval_deriv import evaluate_deriv_basis
    from gbasis.integrals.kinetic_energy import kinetic_energy_integral
    from gbasis.integrals.moment import moment_integral
    from gbasis.integrals.overlap import overlap_integral

    basis = _basis(case)
    gb = [s.to_gbasis() for s in basis]
    nfun = _nfun(basis)
    types = "".join("s" if s.sph else "c" for s in basis)
    tag = "n=%d %s lmax=%d" % (len(basis), "cart" if "s" not in types else ("sph" if "c" not in types else "mixed"),
                               max(s.l for s in basis))
    nontriv = len(basis) > 1 or any(s.l > 0 or len(s.exps) > 1 or len(s.coeffs[0]) > 1 for s in basis)
    res = {"nontrivial": nontriv, "tag": tag, "errs": {}}
    Cq = [Fraction(c) for c in case["C"]]
    orders = [list(o) for o in case["orders"]]
    # ---- analytic side -------------------------------------------------------------------------
    st1, S = call_impl(overlap_integral, gb)
    st2, T = call_impl(kinetic_energy_integral, gb)
    st3, M = call_impl(moment_integral, gb, np.array([float(c) for c in Cq]), np.array(orders, dtype=int).reshape(-1, 3))
    for st, val, nm in ((st1, S, "overlap_integral"), (st2, T, "kinetic_energy_integral"), (st3, M, "moment_integral")):
        if st != "ok":
            res["detail"] = {"kind": "refused-valid-request", "check": nm, "impl": val}
            return res
    # ---- anchors: each half against the exact model ----------------------------------------------
    anchor = None
    if model is not None:
        bsx = twoindex.basis_sx(basis)
        d = compare(S, model.call("(2 %s ())" % bsx), tol_abs=TOL)
        if d is None:
            Tm = model.call("(7 %s ())" % bsx)
            tmax = max([1.0] + [abs(float(x)) for row in Tm for x in row])
            d = compare(T, Tm, tol_abs=TOL * tmax)
            if d is not None:
                d["check"] = "anchor-kinetic (kinetic_energy_integral vs exact model, command 7)"
        else:
            d["check"] = "anchor-overlap (overlap_integral vs exact model, command 2)"
        if d is None and orders:
            Mm = model.call("(9 %s %s %s ())" % (sx(Cq), sx(orders), bsx))
            mmax = max([1.0] + [abs(float(x)) for r1 in Mm for r2 in r1 for x in r2])
            d = compare(M, Mm, tol_abs=TOL * mmax)
            if d is not None:
                d["check"] = "anchor-moment (moment_integral vs exact model, command 9)"
        if d is None:
            rng = random.Random(case["pseed"])
            pts = []
            for s in basis[:2]:                     # points near the centres, on the quadrature grid
                base = [int(round(float(c / H))) for c in s.coord]
                pts.append([H * (b + rng.randint(-4, 4)) for b in base])
            pts.append([H * rng.randint(-20, 20) for _ in range(3)])
            pts.append([H * rng.randint(-8, 8) for _ in range(3)])
            P = np.array([[float(c) for c in p] for p in pts])
            ev = model.call("(102 %s %s ())" % (bsx, sx(pts)))
            st, phi = call_impl(evaluate_basis, gb, P)
            if st != "ok":
                d = {"kind": "refused-valid-request", "check": "evaluate_basis", "impl": phi}
            else:
                d = compare(phi, ev, tol_fn=lambda idx: TOL_EVAL * (1.0 + abs(float(ev[idx[0]][idx[1]]))))
                if d is not None:
                    d["check"] = "anchor-eval (evaluate_basis vs exact model, command 102)"
            for k in range(3):
                if d is not None:
                    break
                o = [0, 0, 0]
                o[k] = 1
                dv = model.call("(101 %s %s %s () 0)" % (bsx, sx(pts), sx(o)))
                st, g = call_impl(evaluate_deriv_basis, gb, P, np.array(o))
                if st != "ok":
                    d = {"kind": "refused-valid-request", "check": "evaluate_deriv_basis", "impl": g}
                else:
                    d = compare(g, dv, tol_fn=lambda idx: TOL_EVAL * (1.0 + abs(float(dv[idx[0]][idx[1]]))))
                    if d is not None:
                        d["check"] = "anchor-deriv (evaluate_deriv_basis %r vs exact model, command 101)" % (o,)
        if d is not None:
            d["kind"] = "anchor:" + d.get("kind", "value")
            anchor = d
    # ---- quadrature of the evaluation side --------------------------------------------------------
    q = quadrature(pool, case)
    if "rejected" in q:
        res["detail"] = {"kind": "refused-valid-request", "check": "pointwise evaluation on the grid", "impl": q["rejected"]}
        return res
    if np.shape(q["S"]) != np.shape(S):
        res["detail"] = {"kind": "shape", "check": "overlap", "quadrature_shape": list(np.shape(q["S"])),
                         "analytic_shape": list(np.shape(S))}
        return res
    Ppsd, Psym = density_matrices(case, nfun)
    Ppsd, Psym = _fmat(Ppsd), _fmat(Psym)
    errs = res["errs"]
    tmax = max(1.0, float(np.abs(T).max()))
    checks = [("overlap", q["S"], S, TOL, TOL)]
    for dnum, o in enumerate(orders):
        ref = M[:, :, dnum]
        checks.append(("moment %s" % (tuple(o),), q["M"][:, :, dnum], ref, TOL * max(1.0, float(np.abs(ref).max())), TOL))
    checks.append(("kinetic", q["T"], T, TOL * tmax, TOL))
    for nm, P in (("psd", Ppsd), ("sym", Psym)):
        pa = max(1.0, float(np.abs(P).sum()))
        checks.append(("density %s: int rho vs tr(P S)" % nm, q["rho_" + nm], float(np.sum(P * S)), TOL_TRACE * pa, TOL_TRACE))
        checks.append(("posdef KED %s: int t+ vs tr(P T)" % nm, q["ked_" + nm], float(np.sum(P * T)), TOL_TRACE * pa * tmax,
                       TOL_TRACE))
    detail = None
    for nm, quad, ref, tol, rel in checks:
        dd = _worst(nm.split(" ")[0] if nm.startswith("moment") else nm, quad, ref, tol, errs, rel)
        if dd is not None and detail is None:
            dd["check"] = nm
            detail = dd
    # geometric convergence: error of the 2h rule (documentation only)
    errs["overlap_2h"] = float(np.abs(q["S2"] - S).max())
    if detail is not None and anchor is not None:
        # the quadrature found the mismatch between the halves; the anchor says which half left its model
        detail["anchor"] = {k: anchor[k] for k in ("check", "index", "impl", "model", "abs_diff", "tol") if k in anchor}
    res["detail"] = detail if detail is not None else anchor
    return res


# ----------------------------------------------------------------------------------------------
# shrinking
# ----------------------------------------------------------------------------------------------
def shrink_candidates(case, detail):
    chk = (detail or {}).get("check", "")
    if len(case["orders"]) > 1:
        if chk.startswith("moment ("):
            o = [int(t) for t in chk[len("moment ("):].split(")")[0].split(",")]
            c = dict(case)
            c["orders"] = [o]
            yield c
        else:
            c = dict(case)
            c["orders"] = [[0, 0, 0]]
            yield c
    lst = case["basis"]
    if len(lst) > 1:
        for i in range(len(lst)):
            c = dict(case)
            c["basis"] = lst[:i] + lst[i + 1:]
            yield c
    for i, sj in enumerate(lst):
        for t in shrink_shell_json(sj):
            c = dict(case)
            c["basis"] = lst[:i] + [t] + lst[i + 1:]
            yield c
    if any(x != "0" for x in case["C"]):
        c = dict(case)
        c["C"] = ["0", "0", "0"]
        yield c


def _klass(detail):
    k = detail.get("kind", "")
    return "anchor" if k.startswith("anchor:") else ("refused" if k.startswith("refused") else "quadrature")


def shrink(model, pool, case, detail, budget=18):
    """greedy; a candidate is accepted only if it fails in the same way (quadrature / anchor / refusal)"""
    steps = 0
    improved = True
    klass = _klass(detail)
    while improved and steps < budget:
        improved = False
        for cand in shrink_candidates(case, detail):
            steps += 1
            if steps > budget:
                break
            try:
                out = eval_case(model, cand, pool)
            except Exception:  # noqa: BLE001
                continue
            if out.get("detail") is not None and _klass(out["detail"]) == klass:
                case, detail = cand, out["detail"]
                improved = True
                break
    return case, detail


# ----------------------------------------------------------------------------------------------
def run(rep, tier, seed, model, replay):
    import multiprocessing as mp

    st = selftest()
    if not st < 1e-11:
        raise RuntimeError("quadrature self-test failed: 1-D worst-case relative error %.3g (must be < 1e-11)" % st)
    cases = [replay["case"]] if replay is not None else gen_cases(tier, seed)
    ctx = mp.get_context("fork")
    nproc = min(16, os.cpu_count() or 1)
    worst = {}
    t_quad = time.time()
    with ctx.Pool(nproc) as pool:
        for case in cases:
            out = eval_case(model, case, pool)
            rep.count(case, nontrivial=out["nontrivial"], tag=out["tag"])
            for b in _basis(case):
                key = "shell l=%d %s K=%d M=%d" % (b.l, "sph" if b.sph else "cart", len(b.exps), len(b.coeffs[0]))
                rep.dist[key] = rep.dist.get(key, 0) + 1
                if len(b.exps) >= 2 and len(b.coeffs[0]) >= 2:
                    zp = any(0 in row and any(x != 0 for x in row) for row in b.coeffs)
                    key = "stat:%s generalized shells (K>=2, M>=2)" % ("zero-padded" if zp else "dense")
                    rep.dist[key] = rep.dist.get(key, 0) + 1
            for k, v in out["errs"].items():
                worst[k] = max(worst.get(k, 0.0), v)
            detail = out["detail"]
            if detail is not None:
                if len(rep.violations) < 1 and replay is None:      # every candidate costs a full quadrature
                    case, detail = shrink(model, pool, case, detail)
                if len(rep.violations) < 20:
                    rep.violation(case, detail)
    EXTRA["quadrature"] = {
        "rule": "trapezoid, uniform product grid", "h": str(H), "half_width": str(H * NHALF), "points_per_axis": NPTS,
        "points": NPTS ** 3, "slab_planes": SLAB, "tolerance": TOL, "tolerance_traces": TOL_TRACE,
        "selftest_worst_1d_relative_error": st,
        "worst_abs_error_in_units_of_tolerance_scale": {k: v for k, v in sorted(worst.items()) if k != "overlap_2h"},
        "worst_overlap_error_of_the_2h_rule": worst.get("overlap_2h"),
        "wall_s_cases": round(time.time() - t_quad, 1), "processes": nproc,
    }


def xcheck_cmds(seed):
    """the anchor commands on a small basis, re-evaluated inside Coq with vm_compute"""
    rng = random.Random(1600 + seed)
    sa = gen_shell16(rng, 1, False, kmax=1, mmax=1)
    sb = gen_shell16(rng, 1, True, kmax=1, mmax=1)
    bsx = twoindex.basis_sx([sa, sb])
    pts = [[H * 2, H * -1, H * 3]]
    return ["(2 %s ())" % bsx, "(102 %s %s ())" % (bsx, sx(pts))]
