"""Regenerates /verif/MANIFEST.json from the table below (run by hand after adding a check)."""
import json
import os

VERIF = os.path.dirname(os.path.dirname(os.path.abspath(__file__)))
LEVEL_NOTE = ("Trusted: Coq 8.16.1 kernel (vm_compute, no native_compute); extraction via ExtrOcamlBasic + "
              "ExtrOcamlZBigInt only; the OCaml driver and Python harness; mpmath oracle values; the analytic bridge "
              "B1-B3 (DESIGN.md 2.6); NumPy/SciPy/IEEE rounding are not modelled. Axioms per theorem: see evidence "
              "(Print Assumptions is parsed on every run).")

def load_checks():
    """one JSON file per claimed property under harness/checks/ (keys: text, design, technique[, level_note])"""
    out = {}
    d = os.path.join(VERIF, "harness", "checks")
    for fn in sorted(os.listdir(d)):
        if fn.endswith(".json"):
            with open(os.path.join(d, fn)) as f:
                out[fn[:-5]] = json.load(f)
    return out


CHECKS = load_checks()
NOT_YET = {}


def main():
    with open(os.path.join(VERIF, "properties.jsonl")) as f:
        pids = [json.loads(l)["id"] for l in f if l.strip()]
    checks = []
    for pid in pids:
        if pid in CHECKS:
            c = CHECKS[pid]
            checks.append({
                "property_id": pid,
                "quick_cmd": "./check %s --tier quick" % pid,
                "thorough_cmd": "./check %s --tier thorough" % pid,
                "evidence_file": "/verif/evidence/%s.json" % pid,
                "replay_cmd_template": "./check %s --replay {path}" % pid,
                "engine": "coq+correspondence",
                "level_claimed": {"category": "proof", "text": c["text"], "design_ref": c["design"]},
                "level_note": c.get("level_note", LEVEL_NOTE),
                "technique": c["technique"],
            })
    na = [{"property_id": pid, "reason": NOT_YET.get(pid, "check not built yet in this session (planned, see DESIGN.md 10); not claimed")}
          for pid in pids if pid not in CHECKS]
    man = {
        "version": 1,
        "setup_cmd": "./build.sh",
        "hooks": {"guard": "GBASIS_VERIF", "enable": "no source hooks are needed: the checks drive the public API of the "
                  "working tree (PYTHONPATH=/repo); GBASIS_VERIF=1 is exported by ./check but nothing in /repo reads it",
                  "baseline_off_cmd": "cd /repo && /venv/bin/python -m pytest -ra -q -p no:cacheprovider --timeout=900",
                  "source_commits": [], "add_only": True},
        "engines": [{"name": "coq+correspondence", "path": "/verif/check",
                     "serves_properties": sorted(CHECKS),
                     "kind_free_text": "Coq 8.16 development under /verif/coq (theorems in Props/), extracted "
                                       "executable model (ocaml/driver) compared with /repo by harness/*.py"}],
        "checks": checks,
        "not_applicable": na,
        "notes": "See DESIGN.md (Part II = as built). Known findings: KNOWN_FINDINGS.json (currently none open; eleven defects repaired by fix: commits in /repo). Seeded changes and detection: seeded/RESULTS.md.",
    }
    with open(os.path.join(VERIF, "MANIFEST.json"), "w") as f:
        json.dump(man, f, indent=1)


if __name__ == "__main__":
    main()
