"""Regenerates /verif/MANIFEST.json from the table below (run by hand after adding a check)."""
import json
import os

VERIF = os.path.dirname(os.path.dirname(os.path.abspath(__file__)))
LEVEL_NOTE = ("Trusted: Coq 8.16.1 kernel (vm_compute, no native_compute); extraction via ExtrOcamlBasic + "
              "ExtrOcamlZBigInt only; the OCaml driver and Python harness; mpmath oracle values; the analytic bridge "
              "B1-B3 (DESIGN.md 2.6); NumPy/SciPy/IEEE rounding are not modelled. Axioms per theorem: see evidence "
              "(Print Assumptions is parsed on every run).")

CHECKS = {
    "C01": dict(
        text="Coq theorems (all l_a, l_b, orders, exponents, centres, by induction): the 1-D table the code's "
             "Obara-Saika recursion builds equals prefactor x Gaussian moment at every index; the executable Gallina "
             "model of the block / normalisation / spherical transform / triangle assembly is run (extracted OCaml, "
             "exact rationals) against overlap_integral, overlap_integral_asymmetric and "
             "Overlap.construct_array_contraction of /repo on every run. The 1e-8 accuracy clause is decided on the "
             "generated inputs only.",
        design="5 C01", technique="Coq proof (induction over the recursion) + model/implementation correspondence"),
}
CHECKS["C02"] = dict(
    text="Coq theorems (all l_a, l_b, derivative orders D, exponents, centres; induction): on the whole slice the code "
         "returns, the padded derivative recursion equals the k-fold x-derivative applied to the exact 1-D overlap "
         "integrals (padding argument), and by integration by parts equals the integral of phi_a d^k/dx^k phi_b. The "
         "executable model of the kinetic block (-1/2 sum of the three second derivatives) and of the assembly is run "
         "against KineticEnergyIntegral.construct_array_contraction and kinetic_energy_integral on every run; the "
         "1e-8*sqrt(T_aa T_bb) accuracy clause is decided on the generated inputs.",
    design="5 C02", technique="Coq proof (induction over the padded recursion, integration by parts) + correspondence")
CHECKS["C07"] = dict(
    text="Coq theorems (all orders, l_a, l_b, origins; induction): the table built by the three-level Obara-Saika "
         "recursion (a, then b, then moment order) equals prefactor x E((y+PC)^k (y+PA)^i (y+PB)^j) at every index; "
         "order 0 does not depend on the origin. The executable model is run against Moment.construct_array_contraction "
         "and moment_integral (all 125 order triples spread over shuffled lists, origins on/off centre/far), order "
         "(0,0,0) vs overlap_integral, and the binomial origin-shift law is checked on the implementation.",
    design="5 C07", technique="Coq proof (Obara-Saika induction, three linear factors) + correspondence")
CHECKS["C08"] = dict(
    text="Coq theorems (all l, exponents, centres): first-derivative entries of the recursion are the integrals of "
         "phi_a d/dx phi_b; derivative on the right = minus derivative on the left (1-D anti-symmetry, hence Hermitian "
         "-i d/dx); exchange symmetry of the moment integrals. The model assembles the real matrix R of -iR with "
         "conjugate-transposed lower blocks (Hermitian) and is compared with momentum_integral / "
         "angular_momentum_integral and the two construct_array_contraction methods; every component is also checked "
         "purely imaginary and antisymmetric for every ordering of 2-3 shells.",
    design="5 C08", technique="Coq proof (integration-by-parts identity by induction) + correspondence + Hermiticity monitor")
NOT_YET = {}


def main():
    with open(os.path.join(VERIF, "properties.jsonl")) as f:
        pids = [json.loads(l)["id"] for l in f if l.strip()]
    checks = []
    for pid in pids:
        if pid in CHECKS:
            c = CHECKS[pid]
            checks.append({
                "property_id": pid,
                "quick_cmd": "./check %s --tier quick" % pid,
                "thorough_cmd": "./check %s --tier thorough" % pid,
                "evidence_file": "/verif/evidence/%s.json" % pid,
                "replay_cmd_template": "./check %s --replay {path}" % pid,
                "engine": "coq+correspondence",
                "level_claimed": {"category": "proof", "text": c["text"], "design_ref": c["design"]},
                "level_note": LEVEL_NOTE,
                "technique": c["technique"],
            })
    na = [{"property_id": pid, "reason": NOT_YET.get(pid, "check not built yet in this session (planned, see DESIGN.md 10); not claimed")}
          for pid in pids if pid not in CHECKS]
    man = {
        "version": 1,
        "setup_cmd": "./build.sh",
        "hooks": {"guard": "GBASIS_VERIF", "enable": "no source hooks are needed: the checks drive the public API of the "
                  "working tree (PYTHONPATH=/repo); GBASIS_VERIF=1 is exported by ./check but nothing in /repo reads it",
                  "baseline_off_cmd": "cd /repo && /venv/bin/python -m pytest -ra -q -p no:cacheprovider --timeout=900",
                  "source_commits": [], "add_only": True},
        "engines": [{"name": "coq+correspondence", "path": "/verif/check",
                     "serves_properties": sorted(CHECKS),
                     "kind_free_text": "Coq 8.16 development under /verif/coq (theorems in Props/), extracted "
                                       "executable model (ocaml/driver) compared with /repo by harness/*.py"}],
        "checks": checks,
        "not_applicable": na,
        "notes": "See DESIGN.md. Known findings: KNOWN_FINDINGS.json.",
    }
    with open(os.path.join(VERIF, "MANIFEST.json"), "w") as f:
        json.dump(man, f, indent=1)


if __name__ == "__main__":
    main()
