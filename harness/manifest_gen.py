"""Regenerates /verif/MANIFEST.json from the table below (run by hand after adding a check)."""
import json
import os

VERIF = os.path.dirname(os.path.dirname(os.path.abspath(__file__)))
LEVEL_NOTE = ("Trusted: Coq 8.16.1 kernel (vm_compute, no native_compute); extraction via ExtrOcamlBasic + "
              "ExtrOcamlZBigInt only; the OCaml driver and Python harness; mpmath oracle values; the analytic bridge "
              "B1-B3 (DESIGN.md 2.6); NumPy/SciPy/IEEE rounding are not modelled. Axioms per theorem: see evidence "
              "(Print Assumptions is parsed on every run).")

CHECKS = {
    "C01": dict(
        text="Coq theorems (all l_a, l_b, orders, exponents, centres, by induction): the 1-D table the code's "
             "Obara-Saika recursion builds equals prefactor x Gaussian moment at every index; the executable Gallina "
             "model of the block / normalisation / spherical transform / triangle assembly is run (extracted OCaml, "
             "exact rationals) against overlap_integral, overlap_integral_asymmetric and "
             "Overlap.construct_array_contraction of /repo on every run. The 1e-8 accuracy clause is decided on the "
             "generated inputs only.",
        design="5 C01", technique="Coq proof (induction over the recursion) + model/implementation correspondence"),
    "C10": dict(
        text="Coq theorems about an exact Gallina model of generate_transformation in which every entry is a pair "
             "(r, q) = r*sqrt(q), r, q rational: C10_all (for every l <= 10, by complete enumeration with vm_compute: "
             "2l+1 rows, each a homogeneous degree-l polynomial with vanishing Laplacian once the normalisation of the "
             "unit-normalised Cartesians is divided out; rows orthonormal for the overlap of unit-normalised Cartesians "
             "of one shell; the row at the documented position of m equals A(x^2+y^2,z) Re/Im (x+iy)^m with the same A "
             "for the c_m/s_m partners and A > 0 near the pole; left = right^T); for ALL l and all conventions, by "
             "induction: any accepted Cartesian order / label order / sign list only selects and negates entries of "
             "the default matrix (C10_convention_honoured), left = transpose of right (C10_left_is_transpose), whatever "
             "is accepted is well-formed, i.e. malformed label sets and Cartesian lists are rejected "
             "(C10_invalid_rejected), the four documented label forms are accepted. The model is run (extracted OCaml, "
             "cross-checked in Coq by vm_compute on a seeded subset) against gbasis.spherical.generate_transformation "
             "at relative 1e-12: every l <= 10, all Cartesian permutations l <= 2 (l = 3: sample / all 10! in the "
             "thorough tier), all label order/sign patterns l <= 2, random conventions above, a malformed stream; the "
             "overlap matrix of one spherical shell is checked to be the identity to 1e-8. Accuracy and the bound "
             "l <= 10 of the harmonicity/orthonormality theorem are the property's own.",
        design="5 C10", technique="Coq proof (finite domain by vm_compute + induction for conventions) + exact-model/"
                                  "implementation correspondence"),
}
NOT_YET = {}


def main():
    with open(os.path.join(VERIF, "properties.jsonl")) as f:
        pids = [json.loads(l)["id"] for l in f if l.strip()]
    checks = []
    for pid in pids:
        if pid in CHECKS:
            c = CHECKS[pid]
            checks.append({
                "property_id": pid,
                "quick_cmd": "./check %s --tier quick" % pid,
                "thorough_cmd": "./check %s --tier thorough" % pid,
                "evidence_file": "/verif/evidence/%s.json" % pid,
                "replay_cmd_template": "./check %s --replay {path}" % pid,
                "engine": "coq+correspondence",
                "level_claimed": {"category": "proof", "text": c["text"], "design_ref": c["design"]},
                "level_note": LEVEL_NOTE,
                "technique": c["technique"],
            })
    na = [{"property_id": pid, "reason": NOT_YET.get(pid, "check not built yet in this session (planned, see DESIGN.md 10); not claimed")}
          for pid in pids if pid not in CHECKS]
    man = {
        "version": 1,
        "setup_cmd": "./build.sh",
        "hooks": {"guard": "GBASIS_VERIF", "enable": "no source hooks are needed: the checks drive the public API of the "
                  "working tree (PYTHONPATH=/repo); GBASIS_VERIF=1 is exported by ./check but nothing in /repo reads it",
                  "baseline_off_cmd": "cd /repo && /venv/bin/python -m pytest -ra -q -p no:cacheprovider --timeout=900",
                  "source_commits": [], "add_only": True},
        "engines": [{"name": "coq+correspondence", "path": "/verif/check",
                     "serves_properties": sorted(CHECKS),
                     "kind_free_text": "Coq 8.16 development under /verif/coq (theorems in Props/), extracted "
                                       "executable model (ocaml/driver) compared with /repo by harness/*.py"}],
        "checks": checks,
        "not_applicable": na,
        "notes": "See DESIGN.md. Known findings: KNOWN_FINDINGS.json.",
    }
    with open(os.path.join(VERIF, "MANIFEST.json"), "w") as f:
        json.dump(man, f, indent=1)


if __name__ == "__main__":
    main()
