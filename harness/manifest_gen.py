"""Regenerates /verif/MANIFEST.json from the table below (run by hand after adding a check)."""
import json
import os

VERIF = os.path.dirname(os.path.dirname(os.path.abspath(__file__)))
LEVEL_NOTE = ("Trusted: Coq 8.16.1 kernel (vm_compute, no native_compute); extraction via ExtrOcamlBasic + "
              "ExtrOcamlZBigInt only; the OCaml driver and Python harness; mpmath oracle values; the analytic bridge "
              "B1-B3 (DESIGN.md 2.6); NumPy/SciPy/IEEE rounding are not modelled. Axioms per theorem: see evidence "
              "(Print Assumptions is parsed on every run).")

CHECKS = {
    "C01": dict(
        text="Coq theorems (all l_a, l_b, orders, exponents, centres, by induction): the 1-D table the code's "
             "Obara-Saika recursion builds equals prefactor x Gaussian moment at every index; the executable Gallina "
             "model of the block / normalisation / spherical transform / triangle assembly is run (extracted OCaml, "
             "exact rationals) against overlap_integral, overlap_integral_asymmetric and "
             "Overlap.construct_array_contraction of /repo on every run. The 1e-8 accuracy clause is decided on the "
             "generated inputs only.",
        design="5 C01", technique="Coq proof (induction over the recursion) + model/implementation correspondence"),
    "C20": dict(
        text="Coq theorems about the executable Gallina model of is_integral_screened / construct_array_contraction / "
             "overlap_integral with tol_screen (Model/Screening.v). For every field: tol=None is no screening "
             "(decision, block, assembled matrix); a kept pair contributes exactly the unscreened block, a removed "
             "pair the all-zero block of shape (M_a,L_a,M_b,L_b); the assembled screened matrix (any basis, "
             "transform, tolerance) is the same triangle assembly of the unscreened processed blocks and same-shape "
             "zero matrices. For the model at the reals (sqrt, exp, ln of the standard library; classical-real "
             "axioms): the squared comparison is the documented |R_a-R_b| > sqrt(-(a+b)/(ab) ln tol) with a, b the "
             "minima of the exponent lists for all tol in (0,1]; monotone in the tolerance; depends on the exponents "
             "only through the minima; every removed s-s element is < tol x (n_a sum|d_i|)(n_b sum|d_j|) (with "
             "mu increasing in each exponent, AM-GM prefactor <= 1, and the primitive formula shown equal to the "
             "model's normalised s-s primitive; the contraction of the model block into the abstract double sum is "
             "checked numerically, not proved). Correspondence on every run: block pattern, kept blocks bitwise, "
             "exact values 1e-8, None, monotonicity, min-vs-max exponents, s bound, transform, bool rejected; pairs "
             "within 1e-9 relative of the cutoff accept either decision.",
        design="5 C20", technique="Coq proof (lists + real analysis with lra/nra) + model/implementation correspondence"),
}
NOT_YET = {}


def main():
    with open(os.path.join(VERIF, "properties.jsonl")) as f:
        pids = [json.loads(l)["id"] for l in f if l.strip()]
    checks = []
    for pid in pids:
        if pid in CHECKS:
            c = CHECKS[pid]
            checks.append({
                "property_id": pid,
                "quick_cmd": "./check %s --tier quick" % pid,
                "thorough_cmd": "./check %s --tier thorough" % pid,
                "evidence_file": "/verif/evidence/%s.json" % pid,
                "replay_cmd_template": "./check %s --replay {path}" % pid,
                "engine": "coq+correspondence",
                "level_claimed": {"category": "proof", "text": c["text"], "design_ref": c["design"]},
                "level_note": LEVEL_NOTE,
                "technique": c["technique"],
            })
    na = [{"property_id": pid, "reason": NOT_YET.get(pid, "check not built yet in this session (planned, see DESIGN.md 10); not claimed")}
          for pid in pids if pid not in CHECKS]
    man = {
        "version": 1,
        "setup_cmd": "./build.sh",
        "hooks": {"guard": "GBASIS_VERIF", "enable": "no source hooks are needed: the checks drive the public API of the "
                  "working tree (PYTHONPATH=/repo); GBASIS_VERIF=1 is exported by ./check but nothing in /repo reads it",
                  "baseline_off_cmd": "cd /repo && /venv/bin/python -m pytest -ra -q -p no:cacheprovider --timeout=900",
                  "source_commits": [], "add_only": True},
        "engines": [{"name": "coq+correspondence", "path": "/verif/check",
                     "serves_properties": sorted(CHECKS),
                     "kind_free_text": "Coq 8.16 development under /verif/coq (theorems in Props/), extracted "
                                       "executable model (ocaml/driver) compared with /repo by harness/*.py"}],
        "checks": checks,
        "not_applicable": na,
        "notes": "See DESIGN.md. Known findings: KNOWN_FINDINGS.json.",
    }
    with open(os.path.join(VERIF, "MANIFEST.json"), "w") as f:
        json.dump(man, f, indent=1)


if __name__ == "__main__":
    main()
