"""Regenerates /verif/MANIFEST.json from the table below (run by hand after adding a check)."""
import json
import os

VERIF = os.path.dirname(os.path.dirname(os.path.abspath(__file__)))
LEVEL_NOTE = ("Trusted: Coq 8.16.1 kernel (vm_compute, no native_compute); extraction via ExtrOcamlBasic + "
              "ExtrOcamlZBigInt only; the OCaml driver and Python harness; mpmath oracle values; the analytic bridge "
              "B1-B3 (DESIGN.md 2.6); NumPy/SciPy/IEEE rounding are not modelled. Axioms per theorem: see evidence "
              "(Print Assumptions is parsed on every run).")

CHECKS = {
    "C01": dict(
        text="Coq theorems (all l_a, l_b, orders, exponents, centres, by induction): the 1-D table the code's "
             "Obara-Saika recursion builds equals prefactor x Gaussian moment at every index; the executable Gallina "
             "model of the block / normalisation / spherical transform / triangle assembly is run (extracted OCaml, "
             "exact rationals) against overlap_integral, overlap_integral_asymmetric and "
             "Overlap.construct_array_contraction of /repo on every run. The 1e-8 accuracy clause is decided on the "
             "generated inputs only.",
        design="5 C01", technique="Coq proof (induction over the recursion) + model/implementation correspondence"),
    "C19": dict(
        text="PARTIAL. Coq theorems about an executable state-machine model of 'purity' (Model/Effects.v; world = "
             "contents of every argument object, every shell incl. its cached norm_cont, the numpy error state), for "
             "every deterministic library and every history, by induction over operation lists: public calls "
             "(returning or raising) leave the world identical; a call's outcome is a function of the argument "
             "values and the error state only, so repeating it gives the same outcome; an update changes exactly "
             "one parameter and leaves norm_cont stale, assign_norm_cont makes the shell equal to a freshly "
             "constructed one; the error state is restored. The model cannot exhibit NumPy aliasing: that gbasis "
             "conforms to it is OBSERVED, not proved, by a monitor that runs the model (extracted runner, command "
             "210, re-evaluated in Coq by vm_compute) and the implementation on the same random histories of 1-30 "
             "operations over shared objects, with bitwise snapshots of every argument and of numpy.geterr() around "
             "every call, bitwise comparison of repeated results, shares_memory / scribbling of results, and the "
             "final world compared with the model's.",
        note="PARTIAL SCOPE: the proof is about a specification-level state machine (what purity means and what "
             "follows from it for all histories); the claim that the NumPy implementation has no aliasing / hidden "
             "state, i.e. that it refines that machine, rests on runtime observation of generated histories only "
             "(about 650 histories / 4500 monitored calls in the thorough tier), and unit normalisation is checked "
             "numerically. ",
        design="5 C19", technique="Coq proof about an effects model + runtime monitor (model/implementation "
                                  "correspondence on operation histories)"),
}
NOT_YET = {}


def main():
    with open(os.path.join(VERIF, "properties.jsonl")) as f:
        pids = [json.loads(l)["id"] for l in f if l.strip()]
    checks = []
    for pid in pids:
        if pid in CHECKS:
            c = CHECKS[pid]
            checks.append({
                "property_id": pid,
                "quick_cmd": "./check %s --tier quick" % pid,
                "thorough_cmd": "./check %s --tier thorough" % pid,
                "evidence_file": "/verif/evidence/%s.json" % pid,
                "replay_cmd_template": "./check %s --replay {path}" % pid,
                "engine": "coq+correspondence",
                "level_claimed": {"category": "proof", "text": c["text"], "design_ref": c["design"]},
                "level_note": c.get("note", "") + LEVEL_NOTE,
                "technique": c["technique"],
            })
    na = [{"property_id": pid, "reason": NOT_YET.get(pid, "check not built yet in this session (planned, see DESIGN.md 10); not claimed")}
          for pid in pids if pid not in CHECKS]
    man = {
        "version": 1,
        "setup_cmd": "./build.sh",
        "hooks": {"guard": "GBASIS_VERIF", "enable": "no source hooks are needed: the checks drive the public API of the "
                  "working tree (PYTHONPATH=/repo); GBASIS_VERIF=1 is exported by ./check but nothing in /repo reads it",
                  "baseline_off_cmd": "cd /repo && /venv/bin/python -m pytest -ra -q -p no:cacheprovider --timeout=900",
                  "source_commits": [], "add_only": True},
        "engines": [{"name": "coq+correspondence", "path": "/verif/check",
                     "serves_properties": sorted(CHECKS),
                     "kind_free_text": "Coq 8.16 development under /verif/coq (theorems in Props/), extracted "
                                       "executable model (ocaml/driver) compared with /repo by harness/*.py"}],
        "checks": checks,
        "not_applicable": na,
        "notes": "See DESIGN.md. Known findings: KNOWN_FINDINGS.json.",
    }
    with open(os.path.join(VERIF, "MANIFEST.json"), "w") as f:
        json.dump(man, f, indent=1)


if __name__ == "__main__":
    main()
