"""Regenerates /verif/MANIFEST.json from the table below (run by hand after adding a check)."""
import json
import os

VERIF = os.path.dirname(os.path.dirname(os.path.abspath(__file__)))
LEVEL_NOTE = ("Trusted: Coq 8.16.1 kernel (vm_compute, no native_compute); extraction via ExtrOcamlBasic + "
              "ExtrOcamlZBigInt only; the OCaml driver and Python harness; mpmath oracle values; the analytic bridge "
              "B1-B3 (DESIGN.md 2.6); NumPy/SciPy/IEEE rounding are not modelled. Axioms per theorem: see evidence "
              "(Print Assumptions is parsed on every run).")

CHECKS = {
    "C01": dict(
        text="Coq theorems (all l_a, l_b, orders, exponents, centres, by induction): the 1-D table the code's "
             "Obara-Saika recursion builds equals prefactor x Gaussian moment at every index; the executable Gallina "
             "model of the block / normalisation / spherical transform / triangle assembly is run (extracted OCaml, "
             "exact rationals) against overlap_integral, overlap_integral_asymmetric and "
             "Overlap.construct_array_contraction of /repo on every run. The 1e-8 accuracy clause is decided on the "
             "generated inputs only.",
        design="5 C01", technique="Coq proof (induction over the recursion) + model/implementation correspondence"),
    "C18": dict(
        text="Coq theorems about an executable line/token-level Gallina model of parse_nwchem, parse_gbs, "
             "make_contractions and the data flow of from_pyscf (Model/Parsers.v): printing any well-formed basis-set "
             "AST under any admissible layout (zero, one or many lines before the first element, comment/blank/filler "
             "lines, blanks, letter case, E/D/plain literals, SP blocks) and parsing it back returns exactly the "
             "shells written, by induction, unbounded in elements / shells / primitives / columns (the Gaussian94 merge "
             "rule included; np.allclose enters as an abstract reflexive relation); make_contractions places shells "
             "per atom in order with the requested types (string, list, tuple), accepts every valid argument and "
             "returns its arguments untouched. The model is evaluated inside Coq (vm_compute, batched coqc calls) "
             "and compared on every run with the implementation of /repo on generated files (written to disk and "
             "parsed by both), molecules (every call made twice on the same, bitwise snapshotted argument objects) "
             "and fake PySCF Mole objects; the file writer of the harness is tied to the proven Coq printers by an "
             "in-Coq comparison on a seeded subset. Python float()/re/NumPy are not modelled (literals compared "
             "after float() on both sides); from_iodata is not exercised.",
        design="5 C18", technique="Coq proof (round trip of printer and parser model) + model/implementation "
                                  "correspondence incl. argument-effect monitoring"),
}
NOT_YET = {}


def main():
    with open(os.path.join(VERIF, "properties.jsonl")) as f:
        pids = [json.loads(l)["id"] for l in f if l.strip()]
    checks = []
    for pid in pids:
        if pid in CHECKS:
            c = CHECKS[pid]
            checks.append({
                "property_id": pid,
                "quick_cmd": "./check %s --tier quick" % pid,
                "thorough_cmd": "./check %s --tier thorough" % pid,
                "evidence_file": "/verif/evidence/%s.json" % pid,
                "replay_cmd_template": "./check %s --replay {path}" % pid,
                "engine": "coq+correspondence",
                "level_claimed": {"category": "proof", "text": c["text"], "design_ref": c["design"]},
                "level_note": LEVEL_NOTE,
                "technique": c["technique"],
            })
    na = [{"property_id": pid, "reason": NOT_YET.get(pid, "check not built yet in this session (planned, see DESIGN.md 10); not claimed")}
          for pid in pids if pid not in CHECKS]
    man = {
        "version": 1,
        "setup_cmd": "./build.sh",
        "hooks": {"guard": "GBASIS_VERIF", "enable": "no source hooks are needed: the checks drive the public API of the "
                  "working tree (PYTHONPATH=/repo); GBASIS_VERIF=1 is exported by ./check but nothing in /repo reads it",
                  "baseline_off_cmd": "cd /repo && /venv/bin/python -m pytest -ra -q -p no:cacheprovider --timeout=900",
                  "source_commits": [], "add_only": True},
        "engines": [{"name": "coq+correspondence", "path": "/verif/check",
                     "serves_properties": sorted(CHECKS),
                     "kind_free_text": "Coq 8.16 development under /verif/coq (theorems in Props/), extracted "
                                       "executable model (ocaml/driver) compared with /repo by harness/*.py"}],
        "checks": checks,
        "not_applicable": na,
        "notes": "See DESIGN.md. Known findings: KNOWN_FINDINGS.json.",
    }
    with open(os.path.join(VERIF, "MANIFEST.json"), "w") as f:
        json.dump(man, f, indent=1)


if __name__ == "__main__":
    main()
