"""Regenerates /verif/MANIFEST.json from the table below (run by hand after adding a check)."""
import json
import os

VERIF = os.path.dirname(os.path.dirname(os.path.abspath(__file__)))
LEVEL_NOTE = ("Trusted: Coq 8.16.1 kernel (vm_compute, no native_compute); extraction via ExtrOcamlBasic + "
              "ExtrOcamlZBigInt only; the OCaml driver and Python harness; mpmath oracle values; the analytic bridge "
              "B1-B3 (DESIGN.md 2.6); NumPy/SciPy/IEEE rounding are not modelled. Axioms per theorem: see evidence "
              "(Print Assumptions is parsed on every run).")

CHECKS = {
    "C01": dict(
        text="Coq theorems (all l_a, l_b, orders, exponents, centres, by induction): the 1-D table the code's "
             "Obara-Saika recursion builds equals prefactor x Gaussian moment at every index; the executable Gallina "
             "model of the block / normalisation / spherical transform / triangle assembly is run (extracted OCaml, "
             "exact rationals) against overlap_integral, overlap_integral_asymmetric and "
             "Overlap.construct_array_contraction of /repo on every run. The 1e-8 accuracy clause is decided on the "
             "generated inputs only.",
        design="5 C01", technique="Coq proof (induction over the recursion) + model/implementation correspondence"),
    "C06": dict(
        text="Coq theorems over any field, every assignment of values to the bilinear symbols G(o1,o2) = sum_ab P_ab "
             "d^o1 phi_a d^o2 phi_b, EVERY order triple (induction, no bound): the Leibniz double-binomial sum is the "
             "iterated product rule; the l_x <= L_x/2 factor-2 shortcut of evaluate_deriv_density equals it for a "
             "symmetric matrix; gradient / Laplacian / Hessian / general-KED models equal the generic derivatives, the "
             "Hessian is symmetric with trace the Laplacian; over R: density and posdef KED >= 0 for a PSD matrix; over Q: "
             "the clip rule (0 iff -thr <= x < 0, error iff x < -thr, else x; array form via the minimum). The formulas "
             "the CURRENT density.py computes are re-derived on every run by executing it on symbolic stubs "
             "(harness/trace_density.py -> coq/Gen/DensityTrace.v) and proved by complete enumeration in Coq (all 125 order "
             "triples (0..4)^3 x both back-end flags, vm_compute) to equal the definitions modulo G(a,b)=G(b,a), incl. "
             "that the direct back-end is only asked for orders <= 2 and that the threshold is applied to the returned "
             "quantity. The seven public functions are compared on every run with an independent exact evaluator of the "
             "defining sums (tolerance 1e-9 x sum of |terms|), thresholds bracketing the most negative value. Rounding of "
             "the NumPy pipeline is decided on the generated inputs only; normalisation constants and the spherical "
             "transform are taken from gbasis (C01/C05/C10).",
        design="5 C06", technique="Coq proof (induction; reflection by vm_compute on traced formulas) + trace translator "
                                  "+ numeric correspondence with an exact evaluator"),
}
NOT_YET = {}


def main():
    with open(os.path.join(VERIF, "properties.jsonl")) as f:
        pids = [json.loads(l)["id"] for l in f if l.strip()]
    checks = []
    for pid in pids:
        if pid in CHECKS:
            c = CHECKS[pid]
            checks.append({
                "property_id": pid,
                "quick_cmd": "./check %s --tier quick" % pid,
                "thorough_cmd": "./check %s --tier thorough" % pid,
                "evidence_file": "/verif/evidence/%s.json" % pid,
                "replay_cmd_template": "./check %s --replay {path}" % pid,
                "engine": "coq+correspondence",
                "level_claimed": {"category": "proof", "text": c["text"], "design_ref": c["design"]},
                "level_note": LEVEL_NOTE,
                "technique": c["technique"],
            })
    na = [{"property_id": pid, "reason": NOT_YET.get(pid, "check not built yet in this session (planned, see DESIGN.md 10); not claimed")}
          for pid in pids if pid not in CHECKS]
    man = {
        "version": 1,
        "setup_cmd": "./build.sh",
        "hooks": {"guard": "GBASIS_VERIF", "enable": "no source hooks are needed: the checks drive the public API of the "
                  "working tree (PYTHONPATH=/repo); GBASIS_VERIF=1 is exported by ./check but nothing in /repo reads it",
                  "baseline_off_cmd": "cd /repo && /venv/bin/python -m pytest -ra -q -p no:cacheprovider --timeout=900",
                  "source_commits": [], "add_only": True},
        "engines": [{"name": "coq+correspondence", "path": "/verif/check",
                     "serves_properties": sorted(CHECKS),
                     "kind_free_text": "Coq 8.16 development under /verif/coq (theorems in Props/), extracted "
                                       "executable model (ocaml/driver) compared with /repo by harness/*.py"}],
        "checks": checks,
        "not_applicable": na,
        "notes": "See DESIGN.md. Known findings: KNOWN_FINDINGS.json.",
    }
    with open(os.path.join(VERIF, "MANIFEST.json"), "w") as f:
        json.dump(man, f, indent=1)


if __name__ == "__main__":
    main()
