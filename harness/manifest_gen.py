"""Regenerates /verif/MANIFEST.json from the table below (run by hand after adding a check)."""
import json
import os

VERIF = os.path.dirname(os.path.dirname(os.path.abspath(__file__)))
LEVEL_NOTE = ("Trusted: Coq 8.16.1 kernel (vm_compute, no native_compute); extraction via ExtrOcamlBasic + "
              "ExtrOcamlZBigInt only; the OCaml driver and Python harness; mpmath oracle values; the analytic bridge "
              "B1-B3 (DESIGN.md 2.6); NumPy/SciPy/IEEE rounding are not modelled. Axioms per theorem: see evidence "
              "(Print Assumptions is parsed on every run).")

CHECKS = {
    "C01": dict(
        text="Coq theorems (all l_a, l_b, orders, exponents, centres, by induction): the 1-D table the code's "
             "Obara-Saika recursion builds equals prefactor x Gaussian moment at every index; the executable Gallina "
             "model of the block / normalisation / spherical transform / triangle assembly is run (extracted OCaml, "
             "exact rationals) against overlap_integral, overlap_integral_asymmetric and "
             "Overlap.construct_array_contraction of /repo on every run. The 1e-8 accuracy clause is decided on the "
             "generated inputs only.",
        design="5 C01", technique="Coq proof (induction over the recursion) + model/implementation correspondence"),
    "C05": dict(
        text="Coq theorems (generic field, all n, l, alpha, x, by induction; x = 0 included): the Leibniz/Hermite sum "
             "of the general back-end with the code's zeroing rules equals the polynomial u with d^n/dx^n[x^l "
             "e^{-alpha x^2}] = u e^{-alpha x^2}; each branch of the hand-expanded direct back-end (l=0, l=1, l>=2; first "
             "and second derivative) equals u for n <= 2, given the code's two `any` tests, which are proved to hold "
             "for the complete component list of every angular momentum; hence the back-ends agree on every request "
             "both accept; the model refuses the direct back-end exactly when some order exceeds 2 and refuses unknown "
             "back-end names. Over the reals (Coquelicot, classical-reals axioms) u e^{-a x^2} is proved to be the "
             "n-th derivative. The executable model (norms, contraction, axis product, norm_cont, spherical transform, "
             "stacking, transform) is run (extracted OCaml, exact rationals, mpmath exp) against evaluate_basis and "
             "evaluate_deriv_basis on every run: all 125 order triples x both back-ends, l 0..6, points on "
             "centres/axes/planes. Block assembly above the axis rows is tied by correspondence only; the accuracy "
             "clause (1e-9 x sum|terms|) is decided on the generated inputs.",
        design="5 C05", technique="Coq proof (induction; Coquelicot bridge) + model/implementation correspondence"),
}
NOT_YET = {}


def main():
    with open(os.path.join(VERIF, "properties.jsonl")) as f:
        pids = [json.loads(l)["id"] for l in f if l.strip()]
    checks = []
    for pid in pids:
        if pid in CHECKS:
            c = CHECKS[pid]
            checks.append({
                "property_id": pid,
                "quick_cmd": "./check %s --tier quick" % pid,
                "thorough_cmd": "./check %s --tier thorough" % pid,
                "evidence_file": "/verif/evidence/%s.json" % pid,
                "replay_cmd_template": "./check %s --replay {path}" % pid,
                "engine": "coq+correspondence",
                "level_claimed": {"category": "proof", "text": c["text"], "design_ref": c["design"]},
                "level_note": LEVEL_NOTE,
                "technique": c["technique"],
            })
    na = [{"property_id": pid, "reason": NOT_YET.get(pid, "check not built yet in this session (planned, see DESIGN.md 10); not claimed")}
          for pid in pids if pid not in CHECKS]
    man = {
        "version": 1,
        "setup_cmd": "./build.sh",
        "hooks": {"guard": "GBASIS_VERIF", "enable": "no source hooks are needed: the checks drive the public API of the "
                  "working tree (PYTHONPATH=/repo); GBASIS_VERIF=1 is exported by ./check but nothing in /repo reads it",
                  "baseline_off_cmd": "cd /repo && /venv/bin/python -m pytest -ra -q -p no:cacheprovider --timeout=900",
                  "source_commits": [], "add_only": True},
        "engines": [{"name": "coq+correspondence", "path": "/verif/check",
                     "serves_properties": sorted(CHECKS),
                     "kind_free_text": "Coq 8.16 development under /verif/coq (theorems in Props/), extracted "
                                       "executable model (ocaml/driver) compared with /repo by harness/*.py"}],
        "checks": checks,
        "not_applicable": na,
        "notes": "See DESIGN.md. Known findings: KNOWN_FINDINGS.json.",
    }
    with open(os.path.join(VERIF, "MANIFEST.json"), "w") as f:
        json.dump(man, f, indent=1)


if __name__ == "__main__":
    main()
