#!/bin/bash
# tools/try_seed_wt.sh <seed-dir-or-patch> <PID> [tier]  — apply a seeded change to a scratch worktree of /repo
# (so that /repo itself stays clean while other work is running), run the check against it, remove the worktree.
set -u
src=$1; pid=$2; tier=${3:-quick}
[ -d "$src" ] && patch=$src/patch.diff || patch=$src
patch=$(readlink -f "$patch")
wt=/tmp/seedwt_$$
git -C /repo worktree add -q "$wt" HEAD || exit 2
( cd "$wt" && git apply "$patch" ) || { echo "patch does not apply"; git -C /repo worktree remove --force "$wt"; exit 2; }
cd /verif && GBASIS_REPO=$wt VERIF_EVIDENCE_DIR=/verif/_work/seed_evidence ./check "$pid" --tier "$tier" 2>&1 | grep -v "^WARNING conda" | tail -${TAILN:-4}
rc=${PIPESTATUS[0]}
git -C /repo worktree remove --force "$wt"
echo "check exit=$rc (1 = detected)"
