#!/bin/bash
# tools/try_seed_wt.sh <seed-dir-or-patch> <PID> [tier]
# Apply a seeded change to a scratch worktree of /repo and run the check of <PID> against it FROM A SCRATCH COPY OF
# /verif (rsync, build products included), so that neither /repo nor /verif (coq/Gen traces, evidence, .vo files) is
# touched by a run against mutated code. Replay files of the run are copied to /verif/_work/replay_seed/.
set -u
V=$(cd "$(dirname "$0")/.." && pwd)    # the /verif tree this tool belongs to (a helper clone works too)
src=$1; pid=$2; tier=${3:-quick}
[ -d "$src" ] && patch=$src/patch.diff || patch=$src
patch=$(readlink -f "$patch")
wt=/tmp/seedwt_$$; vc=/tmp/seedverif_$$
git -C /repo worktree add -q "$wt" HEAD || exit 2
if ! ( cd "$wt" && git apply "$patch" ) 2>/dev/null; then
  # the change was written against an earlier /repo HEAD (a later fix: commit touched the same lines): fall back
  # to the commit recorded in meta.json
  base=$(python3 -c "import json,sys; print(json.load(open(sys.argv[1])).get('repo_head',''))" "$(dirname "$patch")/meta.json" 2>/dev/null)
  git -C /repo worktree remove --force "$wt"
  [ -n "$base" ] || { echo "patch does not apply"; exit 2; }
  git -C /repo worktree add -q "$wt" "$base" || exit 2
  ( cd "$wt" && git apply "$patch" ) || { echo "patch does not apply"; git -C /repo worktree remove --force "$wt"; exit 2; }
  echo "NOTE: applied on top of $base (does not apply to the current /repo HEAD)"
fi
mkdir -p "$vc" && rsync -a --delete --exclude .git --exclude _work/replay --exclude _work/files "$V"/ "$vc"/
# the copy must start from the committed (unchanged-tree) traces
for f in $(git -C "$V" ls-files coq/Gen); do git -C "$V" show HEAD:$f > "$vc/$f"; done
( cd "$vc" && GBASIS_REPO=$wt ./check "$pid" --tier "$tier" 2>&1 | grep -v "^WARNING conda" | tail -${TAILN:-4}; exit ${PIPESTATUS[0]} )
rc=$?
mkdir -p "$V"/_work/replay_seed && cp -f "$vc"/_work/replay/*.json "$V"/_work/replay_seed/ 2>/dev/null
git -C /repo worktree remove --force "$wt"; rm -rf "$vc"
echo "check exit=$rc (1 = detected)"
