#!/usr/bin/env python3
"""tools/design_part2.py — rewrite 'Part II — as built' of DESIGN.md from notes/design_part2.md.in and the current tables."""
import subprocess
V = __import__("os").path.dirname(__import__("os").path.dirname(__import__("os").path.abspath(__file__)))   # the tree this tool belongs to (a helper clone works too)
s = open(V + "/DESIGN.md").read()
marker = "\n# Part II — as built\n"
if marker in s:
    s = s[:s.index(marker)]
t = open(V + "/notes/design_part2.md.in").read()
tab = subprocess.run(["python3", V + "/tools/status_table.py"], capture_output=True, text=True).stdout
seed = open(V + "/seeded/RESULTS.md").read().split("\n\n", 1)[1]
open(V + "/DESIGN.md", "w").write(s.rstrip("\n") + "\n" + t.replace("@STATUS_TABLE@", tab).replace("@SEED_TABLE@", seed))
