#!/bin/bash
# tools/accept_seed.sh <PID> <suffix>   (reads /tmp/mutout_<PID><suffix>/) — confirm, store, run the seed matrix for it
pid=$1; suf=$2; name=mut$suf
python3 /verif/tools/confirm_seed.py /tmp/mutout_$pid$suf $pid $name || exit 1
[ -d /verif/seeded/$pid-$name ] && SEED_QUICK_ONLY=${SEED_QUICK_ONLY:-} python3 /verif/tools/seed_matrix.py $pid-$name | cut -c1-400
