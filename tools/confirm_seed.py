#!/usr/bin/env python3
"""tools/confirm_seed.py <seed_out_dir> <PID> <name> — confirm a seeded change in a scratch worktree:
demo fails with the change, passes without; the full test suite still passes with it. Stores it under
/verif/seeded/<PID>-<name>/ (patch.diff, demo.py, notes.md, meta.json)."""
import json, os, shutil, subprocess, sys
src, pid, name = sys.argv[1], sys.argv[2], sys.argv[3]
wt = "/tmp/confirm_wt_%s_%s" % (pid, name)
subprocess.run(["git", "-C", "/repo", "worktree", "remove", "--force", wt], capture_output=True)
subprocess.run(["git", "-C", "/repo", "worktree", "add", "-q", wt, "HEAD"], check=True)
env = dict(os.environ, PYTHONPATH=wt, PYTHONHASHSEED="0")
def run(cmd, **kw):
    return subprocess.run(cmd, cwd=wt, env=env, capture_output=True, text=True, **kw)
meta = {"property": pid, "name": name, "repo_head": subprocess.run(["git","-C","/repo","rev-parse","--short","HEAD"],capture_output=True,text=True).stdout.strip()}
try:
    demo = os.path.join(src, "demo.py")
    r0 = run(["/venv/bin/python", "-W", "ignore", demo], timeout=900)
    meta["demo_clean_exit"] = r0.returncode
    a = run(["git", "apply", os.path.join(src, "patch.diff")])
    meta["applies"] = a.returncode == 0
    r1 = run(["/venv/bin/python", "-W", "ignore", demo], timeout=900)
    meta["demo_mutated_exit"] = r1.returncode
    t = run(["/venv/bin/python", "-m", "pytest", "-q", "-p", "no:cacheprovider", "--timeout=900", "-n", "6", "tests"], timeout=3000)
    tail = [l for l in t.stdout.strip().splitlines() if "passed" in l or "failed" in l]
    meta["suite_with_mutation"] = tail[-1] if tail else t.stdout[-300:]
    meta["confirmed"] = (meta["applies"] and r0.returncode == 0 and r1.returncode != 0
                         and "192 passed" in meta["suite_with_mutation"]
                         and " failed" not in meta["suite_with_mutation"] and " error" not in meta["suite_with_mutation"])
finally:
    subprocess.run(["git", "-C", "/repo", "worktree", "remove", "--force", wt], capture_output=True)
notes = os.path.join(src, "notes.md")
meta["needs"] = open(notes).read()[:1500] if os.path.exists(notes) else ""
meta["ran"] = ["demo.py on clean worktree", "git apply patch.diff", "demo.py on mutated worktree", "pytest -n 6 tests (mutated)"]
if meta.get("confirmed"):
    dst = "/verif/seeded/%s-%s" % (pid, name)
    os.makedirs(dst, exist_ok=True)
    for f in ("patch.diff", "demo.py", "notes.md"):
        if os.path.exists(os.path.join(src, f)):
            shutil.copy(os.path.join(src, f), dst)
    json.dump(meta, open(os.path.join(dst, "meta.json"), "w"), indent=1)
print(json.dumps({k: meta.get(k) for k in ("property", "name", "confirmed", "demo_clean_exit", "demo_mutated_exit", "suite_with_mutation")}))
