#!/bin/bash
# tools/seed_queue.sh <queue-file> [parallel]  — lines "<PID> <suffix>": confirm + store + run each seeded change
# (tools/accept_seed.sh), <parallel> at a time (default 3); output to _work/<queue-file-name>.log
q=$1; par=${2:-3}
cd /verif
export SEED_QUICK_ONLY=${SEED_QUICK_ONLY:-1}
xargs -P "$par" -L 1 bash -c 'cd /verif; tools/accept_seed.sh $0 $1 2>&1 | cut -c1-330' < "$q" > "_work/$(basename "$q").log" 2>&1
