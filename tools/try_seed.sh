#!/bin/bash
# tools/try_seed.sh <patch.diff> <PID> [tier]  — apply a seeded change to /repo, run the check, undo.
set -u
patch=$1; pid=$2; tier=${3:-quick}
cd /repo || exit 2
if [ -n "$(git status --porcelain)" ]; then echo "repo dirty"; exit 2; fi
git apply "$patch" || { echo "patch does not apply"; exit 2; }
cd /verif && ./check "$pid" --tier "$tier" 2>&1 | grep -v "^WARNING conda" | tail -4
rc=${PIPESTATUS[0]}
git -C /repo checkout -- . ; git -C /repo clean -fdq
echo "check exit=$rc (1 = detected)"
