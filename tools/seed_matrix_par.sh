#!/bin/bash
# tools/seed_matrix_par.sh [parallel] — run tools/seed_matrix.py for every seeded change, <parallel> at a time (each seed
# into its own result file, merged at the end so that concurrent runs do not race on seeded/RESULTS.json)
par=${1:-3}
cd /verif; mkdir -p _work/smp; rm -f _work/smp/*.json
ls seeded | grep -v RESULTS | xargs -P "$par" -I{} bash -c 'cd /verif; SEED_RESULTS=_work/smp/{}.json SEED_QUICK_ONLY=${SEED_QUICK_ONLY:-} python3 tools/seed_matrix.py {} > _work/smp/{}.log 2>&1'
python3 - <<'PY'
import json, glob, subprocess
res = {}
for f in sorted(glob.glob('/verif/_work/smp/*.json')):
    res.update(json.load(open(f)))
json.dump(res, open('/verif/seeded/RESULTS.json', 'w'), indent=1, sort_keys=True)
PY
python3 tools/seed_matrix.py --table-only
