#!/usr/bin/env python3
"""tools/status_table.py — markdown table of the claimed checks: theorems per property (from coq/Props), last
evidence (tier, evaluations, obligations), seeded changes caught."""
import glob, json, os, re
V = __import__("os").path.dirname(__import__("os").path.dirname(__import__("os").path.abspath(__file__)))   # the tree this tool belongs to (a helper clone works too)
man = json.load(open(V + "/MANIFEST.json"))
seeds = json.load(open(V + "/seeded/RESULTS.json")) if os.path.exists(V + "/seeded/RESULTS.json") else {}
print("| id | Props files | theorems+examples | last evidence: tier / evaluations / obligations | seeded changes (caught/total) |")
print("|---|---|---|---|---|")
for c in man["checks"]:
    pid = c["property_id"]
    files = sorted(glob.glob(V + "/coq/Props/%s.v" % pid) + glob.glob(V + "/coq/Props/%s_*.v" % pid))
    n = sum(len(re.findall(r"^\s*(?:Theorem|Example)\s+\w+", open(f).read(), flags=re.M)) for f in files)
    ev = {}
    try:
        ev = json.load(open(V + "/evidence/%s.json" % pid))
    except Exception:
        pass
    cov = ev.get("coverage", {})
    s = [k for k, v in seeds.items() if v["property"] == pid]
    caught = [k for k in s if seeds[k]["detected"]]
    print("| %s | %s | %d | %s / %s / %s of %s | %d/%d |" % (pid, ", ".join(os.path.basename(f) for f in files), n,
          ev.get("tier", "-"), cov.get("evaluations", "-"), cov.get("discharged", "-"), cov.get("obligations", "-"),
          len(caught), len(s)))
na = man.get("not_applicable", [])
if na:
    print("\nnot claimed: " + ", ".join(x["property_id"] for x in na))
