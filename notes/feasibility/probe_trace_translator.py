# trace translator prototype: run the real stress_tensor.py on symbolic stubs
import numpy as np, sympy as sp
import gbasis.evals.stress_tensor as st
import gbasis.evals.density as dens

class Lin:
    """formal linear combination  sum coeff * symbol, broadcast as a length-1 'array'"""
    def __init__(s,d=None): s.d=dict(d or {})
    def _bin(s,o,sg):
        if isinstance(o,(int,float)) and o==0: return Lin(s.d)
        if isinstance(o,np.ndarray):
            assert o.shape==(1,), o.shape   # the zero-initialised output row
            o=o[0]
            if isinstance(o,Lin): pass
            else:
                assert o==0; return Lin(s.d)
        r=dict(s.d)
        for k,v in o.d.items(): r[k]=sp.expand(r.get(k,0)+sg*v)
        return Lin({k:v for k,v in r.items() if v!=0})
    def __add__(s,o): return s._bin(o,1)
    __radd__=__add__
    def __sub__(s,o): return s._bin(o,-1)
    def __rsub__(s,o): return (s*(-1))._bin(o,1)
    def __mul__(s,c): return Lin({k:sp.expand(v*c) for k,v in s.d.items() if sp.expand(v*c)!=0})
    __rmul__=__mul__
    def __neg__(s): return s*(-1)
    __array_priority__=1000
    def __array_ufunc__(s,ufunc,method,*inputs,**kw):
        # numpy scalar/array (op) Lin
        a,b=inputs
        if ufunc is np.multiply: return (b*a) if isinstance(b,Lin) else (a*b)
        if ufunc is np.add: return b.__radd__(a) if isinstance(b,Lin) else a.__add__(b)
        if ufunc is np.subtract: return b.__rsub__(a) if isinstance(b,Lin) else a.__sub__(b)
        return NotImplemented

def G(o1,o2,*a,**k): return Lin({("G",tuple(int(x) for x in o1),tuple(int(x) for x in o2)):sp.Integer(1)})
def Drho(o,*a,**k):  return Lin({("D",tuple(int(x) for x in o)):sp.Integer(1)})
def Lap(*a,**k):     return Lin({("D",(2,0,0)):1,("D",(0,2,0)):1,("D",(0,0,2)):1})
st.evaluate_deriv_reduced_density_matrix=G
st.evaluate_deriv_density=Drho
st.evaluate_density_laplacian=Lap

# the functions write into float arrays: give them object arrays by patching np.zeros inside the module
class NP:
    def __getattr__(s,n): return getattr(np,n)
    def zeros(s,shape,*a,**k):
        z=np.empty(shape,dtype=object); z.fill(0); return z
st.np=NP()
al,be=sp.symbols("alpha beta")
# isinstance(alpha,(int,float)) check: use a float subclass that carries the symbol
class SymF(float):
    def __new__(c,sym): o=float.__new__(c,0.123456789); o.sym=sym; return o
    def __ne__(s,o): return True
    def __eq__(s,o): return False
    def __hash__(s): return 0
    def __mul__(s,o): return o*s.sym if isinstance(o,Lin) else s.sym*o
    __rmul__=__mul__
    def __rsub__(s,o): return o-s.sym
    def __sub__(s,o): return s.sym-o
pts=np.zeros((1,3))
out=st.evaluate_stress_tensor(None,None,pts,alpha=SymF(al),beta=SymF(be))
print("stress[0,0,1] =",out[0,0,1].d if isinstance(out[0,0,1],Lin) else out[0,0,1])
print("stress[0,1,1] =",out[0,1,1].d)
f=st.evaluate_ehrenfest_force(None,None,pts,alpha=SymF(al),beta=SymF(be))
print("force[0,0] terms:",len(f[0,0].d)); 
for k,v in list(f[0,0].d.items())[:6]: print("   ",k,v)
h=st.evaluate_ehrenfest_hessian(None,None,pts,alpha=SymF(al),beta=SymF(be))
print("hess[0,0,1] terms:",len(h[0,0,1].d))
# special-cased value
out=st.evaluate_stress_tensor(None,None,pts,alpha=1,beta=0)
print("alpha=1,beta=0 stress[0,0,1] =",out[0,0,1].d)

# ---- sanity: does the traced force equal -div(traced stress), hessian = jacobian(force)? ----
from math import comb
from itertools import product
def expandD(lin):
    r={}
    for k,v in lin.d.items():
        if k[0]=="D":
            L=k[1]
            for l in product(*[range(x+1) for x in L]):
                c=comb(L[0],l[0])*comb(L[1],l[1])*comb(L[2],l[2])
                kk=("G",tuple(l),tuple(a-b for a,b in zip(L,l)))
                r[kk]=r.get(kk,0)+v*c
        else: r[k]=r.get(k,0)+v
    return r
def canon(d):  # symmetric P: G(o1,o2)=G(o2,o1)
    r={}
    for (g,o1,o2),v in d.items():
        k=(g,)+tuple(sorted([o1,o2]))
        r[k]=sp.nsimplify(sp.expand(r.get(k,0)+v),rational=True)
    return {k:v for k,v in r.items() if v!=0}
def dk(d,k):
    r={}
    for (g,o1,o2),v in d.items():
        e=tuple(1 if i==k else 0 for i in range(3))
        for kk in (("G",tuple(a+b for a,b in zip(o1,e)),o2),("G",o1,tuple(a+b for a,b in zip(o2,e)))):
            r[kk]=r.get(kk,0)+v
    return r
def add(a,b,s=1):
    r=dict(a)
    for k,v in b.items(): r[k]=r.get(k,0)+s*v
    return r
S=st.evaluate_stress_tensor(None,None,pts,alpha=SymF(al),beta=SymF(be))
F=st.evaluate_ehrenfest_force(None,None,pts,alpha=SymF(al),beta=SymF(be))
H=st.evaluate_ehrenfest_hessian(None,None,pts,alpha=SymF(al),beta=SymF(be))
ok=True
for j in range(3):
    div={}
    for i in range(3): div=add(div,dk(expandD(S[0,i,j]),i))
    lhs=canon(expandD(F[0,j])); rhs=canon({k:-v for k,v in div.items()})
    if lhs!=rhs: ok=False; print("force mismatch j",j, {k:(lhs.get(k,0),rhs.get(k,0)) for k in set(lhs)|set(rhs) if lhs.get(k,0)!=rhs.get(k,0)})
print("force == -div stress :",ok)
ok=True
for j in range(3):
    for k in range(3):
        lhs=canon(expandD(H[0,j,k])); rhs=canon(dk(expandD(F[0,j]),k))
        if lhs!=rhs: ok=False; print("hess mismatch",j,k,{q:(lhs.get(q,0),rhs.get(q,0)) for q in set(lhs)|set(rhs) if lhs.get(q,0)!=rhs.get(q,0)})
print("hessian == jacobian(force) :",ok)
print("stress symmetric:", all(canon(expandD(S[0,i,j]))==canon(expandD(S[0,j,i])) for i in range(3) for j in range(3)))
