From Coq Require Import List Arith Lia Ring.
Import ListNotations.
Require Import P1.

Section VRR.
Variable F : Type.
Variables (rO rI : F) (radd rmul rsub : F -> F -> F) (ropp : F -> F).
Hypothesis Rth : ring_theory rO rI radd rmul rsub ropp eq.
Add Ring Rr2 : Rth.
Notation "0" := rO. Notation "1" := rI.
Infix "+" := radd. Infix "*" := rmul. Infix "-" := rsub. Notation "- x" := (ropp x).
Notation ofnat := (ofnat F rO rI radd).
Notation padd := (padd F radd).
Notation pscale := (pscale F rmul).

Variables (pa pc v : F).          (* PA, PC, 1/(2p) along one axis *)
Variable beta : nat -> F.         (* beta m = (2 pi/p) K F_m(T): ANY sequence *)

(* --- model: the vertical recursion with auxiliary index m (function form) --- *)
Fixpoint V2 (a : nat) : (nat -> F) * (nat -> F) :=   (* (V a, V (a+1)) *)
  match a with
  | O => (beta, fun m => pa * beta m - pc * beta (S m))
  | S a' => let '(Va, Va1) := V2 a' in
            (Va1, fun m => pa * Va1 m - pc * Va1 (S m) + ofnat (S a') * v * (Va m - Va (S m)))
  end.
Definition V a := fst (V2 a).
Lemma V_0 m : V O m = beta m. Proof. reflexivity. Qed.
Lemma V_1 m : V (S O) m = pa * beta m - pc * beta (S m). Proof. reflexivity. Qed.
Lemma V_SS a m : V (S (S a)) m =
  pa * V (S a) m - pc * V (S a) (S m) + ofnat (S a) * v * (V a m - V a (S m)).
Proof. unfold V. cbn [V2]. destruct (V2 a) as [Va Va1] eqn:E. cbn [fst]. reflexivity. Qed.

(* --- polynomials in s = t^2 as coefficient lists --- *)
Fixpoint peval (f : list F) (s : F) : F := match f with [] => 0 | c :: f' => c + s * peval f' s end.
Fixpoint Phi (m : nat) (f : list F) : F := match f with [] => 0 | c :: f' => c * beta m + Phi (S m) f' end.
Definition psub (f g : list F) := padd f (pscale (ropp rI) g).

Lemma peval_padd f g s : peval (padd f g) s = peval f s + peval g s.
Proof. revert g; induction f as [|a f IH]; intros g; cbn [P1.padd peval]; [ring|].
  destruct g as [|b g]; cbn [peval]; [ring|]. rewrite IH. ring. Qed.
Lemma peval_pscale c f s : peval (pscale c f) s = c * peval f s.
Proof. induction f as [|a f IH]; cbn [P1.pscale map peval]; [ring|]. fold (pscale c f). rewrite IH. ring. Qed.
Lemma Phi_padd m f g : Phi m (padd f g) = Phi m f + Phi m g.
Proof. revert m g; induction f as [|a f IH]; intros m g; cbn [P1.padd Phi]; [ring|].
  destruct g as [|b g]; cbn [Phi]; [ring|]. rewrite IH. ring. Qed.
Lemma Phi_pscale m c f : Phi m (pscale c f) = c * Phi m f.
Proof. revert m; induction f as [|a f IH]; intros m; cbn [P1.pscale map Phi]; [ring|]. fold (pscale c f). rewrite IH. ring. Qed.
Lemma Phi_shift m f : Phi m (0 :: f) = Phi (S m) f. Proof. cbn [Phi]. ring. Qed.
Lemma peval_shift f s : peval (0 :: f) s = s * peval f s. Proof. cbn [peval]. ring. Qed.

(* the s-polynomial attached to angular index a *)
Fixpoint Pc2 (a : nat) : list F * list F :=
  match a with
  | O => ([1], [pa; - pc])
  | S a' => let '(Pa, Pa1) := Pc2 a' in
     (Pa1, padd (psub (pscale pa Pa1) (pscale pc (0 :: Pa1)))
                (pscale (ofnat (S a') * v) (psub Pa (0 :: Pa))))
  end.
Definition Pc a := fst (Pc2 a).
Lemma Pc_SS a : Pc (S (S a)) = padd (psub (pscale pa (Pc (S a))) (pscale pc (0 :: Pc (S a))))
                                   (pscale (ofnat (S a) * v) (psub (Pc a) (0 :: Pc a))).
Proof. unfold Pc. cbn [Pc2]. destruct (Pc2 a) as [Pa Pa1]. reflexivity. Qed.

(* (2) the array entry is Phi_m of that polynomial, for every m and every beta *)
Theorem V_is_Phi : forall a m, V a m = Phi m (Pc a) /\ V (S a) m = Phi m (Pc (S a)).
Proof. induction a as [|a IH]; intros m.
  - split; [rewrite V_0 | rewrite V_1]; unfold Pc; cbn; ring.
  - split; [apply IH|]. rewrite V_SS, Pc_SS.
    unfold psub. rewrite !Phi_padd, !Phi_pscale, !Phi_padd, !Phi_pscale, !Phi_shift.
    destruct (IH m) as [H0 H1]. destruct (IH (S m)) as [H0' H1'].
    rewrite H0, H1, H0', H1'. ring.
Qed.

(* (1) its value at every s is the Gaussian moment with variance v(1-s), centre pa - s pc *)
Definition Gs (s : F) (a : nat) : F :=
  S_ F rO rI radd rmul (v * (1 - s)) (pa - s * pc) 0 O a O.

Lemma Gs_0 s : Gs s O = 1.
Proof. unfold Gs, S_, g. cbn [plin_pow Eaux]. rewrite mom_0. ring. Qed.
Lemma Gs_S s a : Gs s (S a) = (pa - s * pc) * Gs s a
   + v * (1 - s) * match a with O => 0 | S a' => ofnat a * Gs s a' end.
Proof. unfold Gs. rewrite (OS_a F rO rI radd rmul rsub ropp Rth). unfold predS.
  destruct a; ring. Qed.

Theorem Pc_eval : forall a s, peval (Pc a) s = Gs s a /\ peval (Pc (S a)) s = Gs s (S a).
Proof. induction a as [|a IH]; intros s.
  - split; [rewrite Gs_0 | rewrite Gs_S, Gs_0]; unfold Pc; cbn [Pc2 fst peval]; ring.
  - split; [apply IH|]. rewrite Pc_SS. unfold psub.
    rewrite !peval_padd, !peval_pscale, !peval_padd, !peval_pscale, !peval_shift.
    destruct (IH s) as [H0 H1]. rewrite H0, H1.
    rewrite (Gs_S s (S a)). ring.
Qed.
End VRR.
Print Assumptions Pc_eval.
Print Assumptions V_is_Phi.
