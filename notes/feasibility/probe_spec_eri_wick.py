# numeric validation of the bivariate-Wick F[s] spec for ERIs (DESIGN §2.4)
from fractions import Fraction as Fr
import mpmath as mp, numpy as np, warnings, random, functools
warnings.filterwarnings("ignore")
mp.mp.dps=50
from gbasis.contractions import GeneralizedContractionShell as Sh
from gbasis.integrals.electron_repulsion import ElectronRepulsionIntegral as ERI
import os; exec(open(os.path.join(os.path.dirname(os.path.abspath(__file__)),'probe_spec_one_electron.py')).read().split("rng=random.Random(1)")[0].split("from gbasis.integrals.momentum import momentum_integral")[1])
def mpq(x): return mp.mpf(x.numerator)/x.denominator
rng=random.Random(3)
def rnd_pt(): return [Fr(rng.randint(-16,16),16) for _ in range(3)]
worst=0; scale=0
for trial in range(12):
    ls=[rng.randint(0,2) for _ in range(4)]
    if trial==0: ls=[0,0,0,0]
    if trial==1: ls=[2,1,2,1]
    ctr=[rnd_pt() for _ in range(4)]; ex=[Fr(rng.randint(8,160),32) for _ in range(4)]
    A,B,C,D=ctr; a_,b_,c_,d_=ex
    p=a_+b_; q=c_+d_; rho=p*q/(p+q)
    P=[(a_*A[i]+b_*B[i])/p for i in range(3)]; Q=[(c_*C[i]+d_*D[i])/q for i in range(3)]
    AB2=sum((A[i]-B[i])**2 for i in range(3)); CD2=sum((C[i]-D[i])**2 for i in range(3)); PQ2=sum((P[i]-Q[i])**2 for i in range(3))
    pref=2*mp.pi**mp.mpf(2.5)/(mpq(p)*mpq(q)*mp.sqrt(mpq(p+q)))*mp.exp(-mpq(a_*b_/p*AB2))*mp.exp(-mpq(c_*d_/q*CD2))
    L=sum(ls); beta=[pref*boys(m,mpq(rho*PQ2)) for m in range(L+1)]
    S11=[Fr(1)/(2*p), -rho/p/(2*p)]; S12=[Fr(0), Fr(1)/(2*(p+q))]; S22=[Fr(1)/(2*q), -rho/q/(2*q)]
    @functools.lru_cache(None)
    def M(m,n):
        if m==0: return tuple(mom(S22,n))
        if m==1: return tuple(psc(n,pmul(S12,list(M(0,n-1))))) if n>0 else (Fr(0),)
        r=psc(m-1,pmul(S11,list(M(m-2,n))))
        if n>0: r=padd(r,psc(n,pmul(S12,list(M(m-1,n-1)))))
        return tuple(r)
    def G2(ax,i,j,k,l):
        PQx=P[ax]-Q[ax]
        cs1=[[P[ax]-A[ax], -rho/p*PQx],[P[ax]-B[ax], -rho/p*PQx]]
        cs2=[[Q[ax]-C[ax], rho/q*PQx],[Q[ax]-D[ax], rho/q*PQx]]
        def lin(cs,es):
            f=[ONE]
            for c,e in zip(cs,es):
                for _ in range(e):
                    g=[pmul(c,x) for x in f]+[[Fr(0)]]
                    for t,x in enumerate(f): g[t+1]=padd(g[t+1],x)
                    f=g
            return f
        f1=lin(cs1,[i,j]); f2=lin(cs2,[k,l]); r=[Fr(0)]
        for m,x in enumerate(f1):
            for n,y in enumerate(f2): r=padd(r,pmul(pmul(x,y),list(M(m,n))))
        return r
    sh=[Sh(ls[t],np.array([float(x) for x in ctr[t]]),np.array([1.0]),np.array([float(ex[t])]),'cartesian') for t in range(4)]
    blk=ERI.construct_array_contraction(*sh)[0,:,0,:,0,:,0,:]
    for ia,a in enumerate(comps(ls[0])):
      for ib,b in enumerate(comps(ls[1])):
        for ic,c in enumerate(comps(ls[2])):
          for id_,d in enumerate(comps(ls[3])):
            poly=ONE
            for ax in range(3): poly=pmul(poly,G2(ax,a[ax],b[ax],c[ax],d[ax]))
            val=sum(mpq(co)*beta[k] for k,co in enumerate(poly) if co!=0)
            val*=Nprim(ex[0],a)*Nprim(ex[1],b)*Nprim(ex[2],c)*Nprim(ex[3],d)
            worst=max(worst,abs(val-blk[ia,ib,ic,id_])); scale=max(scale,abs(val))
    print(ls,"running max |spec-impl| %.2e (max |val| %.2e)"%(float(worst),float(scale)))
