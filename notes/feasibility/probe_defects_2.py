import numpy as np, warnings, tempfile, os
warnings.filterwarnings("ignore")
from gbasis.contractions import GeneralizedContractionShell as S
from gbasis.parsers import parse_gbs, parse_nwchem
from gbasis.integrals.electron_repulsion import electron_repulsion_integral, ElectronRepulsionIntegral as ERI
from gbasis.evals.density import evaluate_posdef_kinetic_energy_density, evaluate_density

gbs_body = """H     0
S   2   1.00
      0.1873113696D+02       0.3349460434D-01
      0.2825394365D+01       0.2347269535D+00
S   1   1.00
      0.1612777588D+00       1.0000000
****
C     0
SP   2   1.00
      0.3D+01       0.1D+00   0.2D+00
      0.7D+00       0.3D+00   0.4D+00
****
"""
for hdr in ["", "! one line\n", "! one\n! two\n", "! one\n\n! three\n"]:
    with tempfile.NamedTemporaryFile('w',suffix='.gbs',delete=False) as f:
        f.write(hdr+gbs_body); fn=f.name
    try:
        d=parse_gbs(fn); print("gbs hdr lines",hdr.count("\n"),"->",{k:[(a,len(e),c.shape) for a,e,c in v] for k,v in d.items()})
    except Exception as e: print("gbs hdr lines",hdr.count("\n"),"raised",type(e).__name__,e)
    os.unlink(fn)
nw_body = """H    S
     18.7311370              0.03349460
      2.8253937              0.23472695
H    S
      0.1612778              1.0000000
C    SP
      3.0   0.1 0.2
      0.7   0.3 0.4
END
"""
for hdr in ["", "BASIS \"ao basis\" PRINT\n", "# c\nBASIS \"ao basis\" PRINT\n"]:
    with tempfile.NamedTemporaryFile('w',suffix='.nw',delete=False) as f:
        f.write(hdr+nw_body); fn=f.name
    try:
        d=parse_nwchem(fn); print("nw hdr lines",hdr.count("\n"),"->",{k:[(a,len(e),np.shape(c)) for a,e,c in v] for k,v in d.items()})
    except Exception as e: print("nw hdr lines",hdr.count("\n"),"raised",type(e).__name__,e)
    os.unlink(fn)

# ERI orientation dependence: tight s with diffuse f
s=S(0,np.array([0.,0.,0.]),np.array([1.0]),np.array([1e4]),'cartesian')
f=S(3,np.array([0.,0.,1.0]),np.array([1.0]),np.array([0.3]),'cartesian')
a=ERI.construct_array_contraction(s,s,f,f)  # (ss|ff)
b=ERI.construct_array_contraction(f,f,s,s)  # (ff|ss)
a=a*s.norm_cont.reshape(1,1,1,1,1,1,1,1)
print("ERI (ss|ff) vs (ff|ss) max abs diff", np.abs(a.transpose(4,5,6,7,0,1,2,3)-b).max(), "max", np.abs(b).max())

# KED threshold factor
b=[S(0,np.array([0.,0.,0.]),np.array([1.0]),np.array([1.0]),'cartesian')]
pts=np.array([[0.5,0.,0.]])
dm=np.array([[-1.0]])
t=evaluate_posdef_kinetic_energy_density(np.array([[1.0]]),b,pts)
print("t+ with dm=1:",t)
for thr in (t[0]*0.9, t[0]*1.5, t[0]*2.1):
    try:
        r=evaluate_posdef_kinetic_energy_density(dm,b,pts,threshold=thr); print("thr/|t+|=",thr/t[0],"returned",r)
    except ValueError as e: print("thr/|t+|=",thr/t[0],"raised")
