From Coq Require Import QArith Qcanon List ZArith.
Import ListNotations.
Open Scope Qc_scope.

(* toy: 1-D OS table rows as lists, over Qc *)
Fixpoint row0 (a v : Qc) (n : nat) (k : nat) (prev cur : Qc) : list Qc :=
  match n with
  | O => []
  | S n' => let nxt := a * cur + (Q2Qc (inject_Z (Z.of_nat k))) * v * prev in
            nxt :: row0 a v n' (S k) cur nxt
  end.

Definition os_row0 (a v : Qc) (n : nat) : list Qc := 1 :: (a*1) :: row0 a v n 1%nat 1 (a*1).

Fixpoint zip3 (b v : Qc) (j : nat) (i : nat) (cur curm1 prevrow : list Qc) : list Qc :=
  match cur with
  | [] => []
  | c :: cur' =>
     let cm1 := match curm1 with [] => 0 | x :: _ => x end in
     let pr := match prevrow with [] => 0 | x :: _ => x end in
     (b * c + v * ((Q2Qc (inject_Z (Z.of_nat i))) * cm1 + (Q2Qc (inject_Z (Z.of_nat j))) * pr))
       :: zip3 b v j (S i) cur' (match curm1 with [] => [] | _ :: t => t end) (match prevrow with [] => [] | _ :: t => t end)
  end.

(* next row j+1 from row j and row j-1 *)
Definition next_row (b v : Qc) (j : nat) (rowj rowjm1 : list Qc) : list Qc :=
  zip3 b v j 0 rowj (0 :: rowj) rowjm1.

Fixpoint rows (b v : Qc) (n : nat) (j : nat) (rowj rowjm1 : list Qc) : list (list Qc) :=
  match n with
  | O => [rowj]
  | S n' => rowj :: rows b v n' (S j) (next_row b v j rowj rowjm1) rowj
  end.

Definition table (a b v : Qc) (na nb : nat) : list (list Qc) :=
  let r0 := os_row0 a v na in rows b v nb 0 r0 (map (fun _ => 0) r0).

Definition sumall (t : list (list Qc)) : Qc := fold_left (fun acc r => fold_left Qcplus r acc) t 0.

Definition mkq (n : Z) (d : positive) : Qc := Q2Qc (n # d).

Definition test1 := sumall (table (mkq 6004799503160661 18014398509481984) (mkq (-7004799503160661) 18014398509481984) (mkq 3004799503160661 9007199254740992) 10 10).
Definition test_short := sumall (table (mkq 21 64) (mkq (-37) 64) (mkq 45 128) 10 10).
