From Coq Require Import List ZArith QArith Qcanon Field.
Import ListNotations.
Section M.
Variable F : Type.
Variables (fO fI : F) (fadd fmul fsub : F -> F -> F) (fopp : F -> F) (fdiv : F -> F -> F) (finv : F -> F).
Hypothesis Fth : field_theory fO fI fadd fmul fsub fopp fdiv finv eq.
Add Field Ff : Fth.
Variable feqb : F -> F -> bool.
Inductive ofn := OSqrt | OExp.
Variable oracle : ofn -> F -> option F.
Definition ask (f : ofn) (x : F) : F * list (ofn * F) :=
  match oracle f x with Some y => (y, []) | None => (fO, [(f, x)]) end.
Definition gpt (a b A B : F) : F * list (ofn * F) :=
  let p := fadd a b in let mu := fdiv (fmul a b) p in
  let d := fsub A B in
  let '(e, m1) := ask OExp (fmul mu (fmul d d)) in
  let '(s, m2) := ask OSqrt (finv p) in (fmul e s, m1 ++ m2).
Lemma gpt_sym a b A B : fadd a b <> fO -> fst (gpt a b A B) = fst (gpt b a B A).
Proof. intros Hp. unfold gpt.
  assert (E1: fmul (fdiv (fmul a b) (fadd a b)) (fmul (fsub A B) (fsub A B)) = fmul (fdiv (fmul b a) (fadd b a)) (fmul (fsub B A) (fsub B A))).
  { field. repeat split; auto; intro H; apply Hp; rewrite <- H; ring. }
  rewrite E1. assert (E2: fadd a b = fadd b a) by ring. rewrite E2. reflexivity. Qed.
End M.
Definition Qc_eqb (x y : Qc) : bool := if Qc_eq_dec x y then true else false.
Fixpoint lookup (t : list (ofn * Qc * Qc)) (f : ofn) (x : Qc) : option Qc :=
  match t with [] => None | (g, k, v) :: t' =>
    if (match f, g with OSqrt, OSqrt | OExp, OExp => true | _, _ => false end) && Qc_eqb x k then Some v else lookup t' f x end.
Definition gpt_Qc (t : list (ofn * Qc * Qc)) := gpt Qc 0%Qc Qcplus Qcmult Qcminus Qcdiv Qcinv (lookup t).
Require Import ExtrOcamlBasic ExtrOcamlZBigInt.
Extraction "g1x.ml" gpt_Qc.
Print Assumptions gpt_sym.
