# numeric validation of the SPEC formulas of DESIGN §2.3/2.4 against the pinned implementation
from fractions import Fraction as Fr
import mpmath as mp, numpy as np, warnings, itertools, random
warnings.filterwarnings("ignore")
mp.mp.dps=50
from gbasis.contractions import GeneralizedContractionShell as Sh
from gbasis.integrals.overlap import overlap_integral
from gbasis.integrals.kinetic_energy import kinetic_energy_integral
from gbasis.integrals.moment import moment_integral
from gbasis.integrals.point_charge import point_charge_integral
from gbasis.integrals.momentum import momentum_integral

# polynomials in s as lists of Fractions (so the same code serves "F" and "F[s]")
def padd(f,g):
    n=max(len(f),len(g)); return [(f[i] if i<len(f) else 0)+(g[i] if i<len(g) else 0) for i in range(n)]
def pmul(f,g):
    r=[Fr(0)]*(len(f)+len(g)-1)
    for i,a in enumerate(f):
        for j,b in enumerate(g): r[i+j]+=a*b
    return r
def psc(c,f): return [c*x for x in f]
ONE=[Fr(1)]
def mom(v,n):   # m_n over F[s]
    if n%2: return [Fr(0)]
    r=ONE
    for k in range(1,n,2): r=psc(k,pmul(v,r))
    return r
def G1(v,cs,es):
    """E_v( prod (y+c_t)^e_t ), everything in F[s]; y-polynomial = list of s-polynomials"""
    f=[ONE]
    for c,e in zip(cs,es):
        for _ in range(e):
            # (y+c) f
            g=[pmul(c,x) for x in f]+[[Fr(0)]]
            for i,x in enumerate(f): g[i+1]=padd(g[i+1],x)
            f=g
    r=[Fr(0)]
    for n,co in enumerate(f): r=padd(r,pmul(co,mom(v,n)))
    return r
def comps(l): return [(x,y,l-x-y) for x in range(l,-1,-1) for y in range(l-x,-1,-1)]
def df(n):
    r=1
    while n>1: r*=n; n-=2
    return r
def Nprim(al,a):
    al=mp.mpf(al.numerator)/al.denominator
    return (2*mp.mpf(al)/mp.pi)**mp.mpf(0.75)*(4*mp.mpf(al))**(mp.mpf(sum(a))/2)/mp.sqrt(df(2*a[0]-1)*df(2*a[1]-1)*df(2*a[2]-1))
def boys(m,T):
    T=mp.mpf(T)
    return mp.mpf(1)/(2*m+1) if T==0 else mp.gammainc(m+mp.mpf(1)/2,0,T)/(2*T**(m+mp.mpf(1)/2))
def fr(x): return Fr(x)
rng=random.Random(1)
def rnd_pt(): return [Fr(rng.randint(-24,24),16) for _ in range(3)]
worst={}
for trial in range(40):
    la,lb=rng.randint(0,5),rng.randint(0,5)
    A,B,C=rnd_pt(),rnd_pt(),rnd_pt()
    if trial%7==0: C=A
    al,be=Fr(rng.randint(2,400),32),Fr(rng.randint(2,400),32)
    p=al+be; mu=al*be/p; P=[(al*A[i]+be*B[i])/p for i in range(3)]
    AB2=sum((A[i]-B[i])**2 for i in range(3)); v=[Fr(1)/(2*p)]
    K=(mp.pi/mp.mpf(p.numerator)*p.denominator)**mp.mpf(1.5)*mp.exp(-mp.mpf(mu.numerator)/mu.denominator*mp.mpf(AB2.numerator)/AB2.denominator)
    shells=[Sh(la,np.array([float(x) for x in A]),np.array([1.0]),np.array([float(al)]),'cartesian'),
            Sh(lb,np.array([float(x) for x in B]),np.array([1.0]),np.array([float(be)]),'cartesian')]
    na=len(comps(la))
    S=overlap_integral(shells)[:na,na:]
    T=kinetic_energy_integral(shells)[:na,na:]
    orders=np.array([[1,0,2],[0,0,0],[2,1,0]])
    M=moment_integral(shells,np.array([float(x) for x in C]),orders)[:na,na:]
    Pm=momentum_integral(shells)[:na,na:]
    q=np.array([1.7]); V=point_charge_integral(shells,np.array([[float(x) for x in C]]),q)[:na,na:,0]
    PC2=sum((P[i]-C[i])**2 for i in range(3)); Tb=p*PC2
    beta=[ (2*mp.pi/(mp.mpf(p.numerator)/p.denominator))*mp.exp(-mp.mpf(mu.numerator)/mu.denominator*mp.mpf(AB2.numerator)/AB2.denominator)*boys(m,mp.mpf(Tb.numerator)/Tb.denominator) for m in range(la+lb+1)]
    def S1(ax,i,j): return G1(v,[[P[ax]-A[ax]],[P[ax]-B[ax]]],[i,j])[0]
    def Bop(ax,i,j,k):  # B^k S (derivative on the right function)
        if k==0: return S1(ax,i,j)
        return (j*Bop(ax,i,j-1,k-1) if j>0 else 0) - 2*be*Bop(ax,i,j+1,k-1)
    for ia,a in enumerate(comps(la)):
        for ib,b in enumerate(comps(lb)):
            nn=Nprim(al,a)*Nprim(be,b)
            s=[S1(ax,a[ax],b[ax]) for ax in range(3)]
            ov=nn*K*mp.mpf(s[0].numerator*s[1].numerator*s[2].numerator)/(s[0].denominator*s[1].denominator*s[2].denominator)
            worst['overlap']=max(worst.get('overlap',0),abs(ov-S[ia,ib]))
            kin=Fr(0)
            for ax in range(3):
                t=Bop(ax,a[ax],b[ax],2)
                for o in range(3):
                    if o!=ax: t*=s[o]
                kin+=t
            kin=-nn*K*mp.mpf(kin.numerator)/kin.denominator/2
            worst['kinetic']=max(worst.get('kinetic',0),abs(kin-T[ia,ib]))
            for ax in range(3):
                t=Bop(ax,a[ax],b[ax],1)
                for o in range(3):
                    if o!=ax: t*=s[o]
                mo=nn*K*mp.mpf(t.numerator)/t.denominator   # int phi_a d/dx phi_b ; impl returns -i * that
                worst['momentum(upper block)']=max(worst.get('momentum(upper block)',0),abs(mo-(-Pm[ia,ib,ax].imag)))
            for io,o in enumerate(orders):
                t=Fr(1)
                for ax in range(3): t*=G1(v,[[P[ax]-A[ax]],[P[ax]-B[ax]],[P[ax]-C[ax]]],[a[ax],b[ax],int(o[ax])])[0]
                worst['moment']=max(worst.get('moment',0),abs(nn*K*mp.mpf(t.numerator)/t.denominator-M[ia,ib,io]))
            # point charge: F[s] version, v(s)=(1-s)/(2p), centres PA - s PC
            poly=ONE
            for ax in range(3):
                vs=[Fr(1)/(2*p),-Fr(1)/(2*p)]
                poly=pmul(poly,G1(vs,[[P[ax]-A[ax],-(P[ax]-C[ax])],[P[ax]-B[ax],-(P[ax]-C[ax])]],[a[ax],b[ax]]))
            val=sum(mp.mpf(c.numerator)/c.denominator*beta[k] for k,c in enumerate(poly) if c!=0)
            val=-mp.mpf(1.7)*nn*val
            worst['point charge']=max(worst.get('point charge',0),abs(val-V[ia,ib]))
for k,v in worst.items(): print("%-24s max |spec-impl| = %.3e"%(k,float(v)))
