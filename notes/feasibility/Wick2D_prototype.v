From Coq Require Import List Arith Lia Ring.
Import ListNotations.
Require Import P1.

Section Wick.
Variable F : Type.
Variables (rO rI : F) (radd rmul rsub : F -> F -> F) (ropp : F -> F).
Hypothesis Rth : ring_theory rO rI radd rmul rsub ropp eq.
Add Ring Rr3 : Rth.
Notation "0" := rO.
Infix "+" := radd. Infix "*" := rmul. Infix "-" := rsub.
Notation ofnat := (ofnat F rO rI radd).
Variables (s11 s12 s22 : F).
Notation mom := (mom F rO rI radd rmul s22).

Definition dn (T : nat -> F) (n : nat) : F := match n with O => 0 | S n' => ofnat n * T n' end.

Fixpoint M2 (m : nat) : (nat -> F) * (nat -> F) :=
  match m with
  | O => (mom, fun n => s12 * dn mom n)
  | S m' => let '(Mm, Mm1) := M2 m' in
            (Mm1, fun n => ofnat (S m') * s11 * Mm n + s12 * dn Mm1 n)
  end.
Definition M m := fst (M2 m).
Definition dm (m n : nat) : F := match m with O => 0 | S m' => ofnat m * M m' n end.

Lemma M_0 n : M O n = mom n. Proof. reflexivity. Qed.
(* defining (first-variable) rule, uniform in m *)
Lemma D m n : M (S m) n = s11 * dm m n + s12 * dn (M m) n.
Proof. destruct m as [|m].
  - change (M (S O) n) with (s12 * dn mom n). unfold dm. change (M O) with mom. ring.
  - unfold M at 1. cbn [M2]. destruct (M2 m) as [a b] eqn:E. cbn [fst].
    unfold dm. unfold M. cbn [M2]. rewrite E. cbn [fst]. ring. Qed.

Definition R (m n : nat) : Prop := M m (S n) = s22 * dn (M m) n + s12 * dm m n.

Lemma mom_S n : mom (S n) = s22 * dn mom n.
Proof. destruct n as [|n]; [rewrite mom_1; cbn [dn]; ring|]. rewrite mom_SS. unfold dn. ring. Qed.
Lemma dn_S (T : nat -> F) n : dn T (S n) = ofnat (S n) * T n. Proof. reflexivity. Qed.
Lemma dm_S m n : dm (S m) n = ofnat (S m) * M m n. Proof. reflexivity. Qed.

Lemma R_0 n : R O n.
Proof. unfold R. rewrite M_0, mom_S. unfold dm. change (M O) with mom. ring. Qed.

Lemma alg (X1 X2 y dmv dnv sm sn : F) :
  X1 = s11*dmv + s12*(sn*y) -> X2 = s22*dnv + s12*(sm*y) ->
  s11*(sm*(s22*(sn*y) + s12*dmv)) + (s12*X1 + s12*(sn*X2))
  = s22*(sn*(s11*(sm*y) + s12*dnv)) + (s12*X1 + s12*(sm*X1)).
Proof. intros E1 E2. rewrite E2, E1. ring. Qed.

Lemma R_SS m : (forall n, R m n) -> (forall n, R (S m) n) -> forall n, R (S (S m)) n.
Proof. intros H0 H1 n. unfold R in *.
  rewrite (D (S m) (S n)), dm_S, dn_S, (H0 n), dm_S.
  destruct n as [|n].
  - cbn [dn]. rewrite (D m O). cbn [dn]. cbn [ofnat]. ring.
  - rewrite !dn_S. rewrite (D (S m) n), dm_S.
    pose proof (D m (S n)) as E1. rewrite dn_S in E1.
    pose proof (H1 n) as E2. rewrite dm_S in E2.
    change (ofnat (S (S n))) with (rI + ofnat (S n)).
    change (ofnat (S (S m))) with (rI + ofnat (S m)).
    set (sn := ofnat (S n)) in *. set (sm := ofnat (S m)) in *.
    set (X := M (S m) (S n)) in *. set (y := M m n) in *.
    set (dmv := dm m (S n)) in *. set (dnv := dn (M (S m)) n) in *.
    pose proof (alg X X y dmv dnv sm sn E1 E2) as G.
    transitivity (s11*(sm*(s22*(sn*y) + s12*dmv)) + (s12*X + s12*(sn*X))); [ring|].
    rewrite G. ring.
Qed.

Lemma R_1 n : R (S O) n.
Proof. unfold R. rewrite (D O (S n)), dn_S, dm_S. unfold dm at 1. change (M O) with mom.
  destruct n as [|n].
  - cbn [dn ofnat]. ring.
  - rewrite dn_S. change (M (S O) n) with (s12 * dn mom n). rewrite (mom_S n).
    change (ofnat (S (S n))) with (rI + ofnat (S n)). cbn [ofnat]. ring.
Qed.

Theorem wick_second_rule : forall m n, R m n.
Proof. assert (H: forall m, (forall n, R m n) /\ (forall n, R (S m) n)).
  { induction m as [|m [IH0 IH1]]; split; auto using R_0, R_1, R_SS. }
  intros m. apply H. Qed.
End Wick.
Print Assumptions wick_second_rule.
