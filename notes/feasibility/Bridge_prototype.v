From Coq Require Import Reals Lra.
From Coquelicot Require Import Coquelicot.
Open Scope R_scope.
Lemma prim_rule (a : R) (l : nat) (x : R) :
  is_derive (fun x => x ^ (S l) * exp (- a * x ^ 2)) x
            ((INR (S l) * x ^ l - 2 * a * x ^ (S (S l))) * exp (- a * x ^ 2)).
Proof.
  auto_derive; [exact I|].
  change (match l with 0%nat => 1 | S _ => INR l + 1 end) with (INR (S l)).
  simpl pow. ring.
Qed.
Print Assumptions prim_rule.
