From Coq Require Import List Arith Lia Ring Field.
Import ListNotations.

Section Poly.
Variable F : Type.
Variables (rO rI : F) (radd rmul rsub : F -> F -> F) (ropp : F -> F).
Hypothesis Rth : ring_theory rO rI radd rmul rsub ropp eq.
Add Ring Rr : Rth.

Notation "0" := rO. Notation "1" := rI.
Infix "+" := radd. Infix "*" := rmul. Infix "-" := rsub. Notation "- x" := (ropp x).

Fixpoint ofnat (n : nat) : F := match n with O => 0 | S k => 1 + ofnat k end.

Lemma ofnat_S n : ofnat (S n) = 1 + ofnat n. Proof. reflexivity. Qed.

(* moments: m_0 = 1, m_1 = 0, m_{n+2} = (n+1) v m_n *)
Variable v : F.
Fixpoint mom2 (n : nat) : F * F :=   (* (m_n, m_{n+1}) *)
  match n with
  | O => (1, 0)
  | S k => let '(a, b) := mom2 k in (b, ofnat (S k) * v * a)
  end.
Definition mom n := fst (mom2 n).
Lemma mom_0 : mom 0 = 1. Proof. reflexivity. Qed.
Lemma mom_1 : mom 1 = 0. Proof. reflexivity. Qed.
Lemma mom2_snd n : snd (mom2 n) = mom (S n).
Proof. unfold mom. simpl. destruct (mom2 n); reflexivity. Qed.
Lemma mom_SS n : mom (S (S n)) = ofnat (S n) * v * mom n.
Proof. unfold mom at 1. simpl. rewrite (surjective_pairing (mom2 n)). simpl.
  rewrite (surjective_pairing (mom2 n)). simpl. reflexivity. Qed.

(* polynomials in y as coefficient lists, low to high *)
Definition poly := list F.
Definition coef (f : poly) (k : nat) : F := nth k f 0.

(* E_n f = sum_k f_k m_{n+k} *)
Fixpoint Eaux (n : nat) (f : poly) : F :=
  match f with [] => 0 | c :: f' => c * mom n + Eaux (S n) f' end.
Definition E (f : poly) := Eaux 0 f.

Fixpoint padd (f g : poly) : poly :=
  match f, g with
  | [], _ => g | _, [] => f
  | a :: f', b :: g' => (a + b) :: padd f' g'
  end.
Definition pscale (c : F) (f : poly) : poly := map (fun x => c * x) f.
Definition pshift (f : poly) : poly := 0 :: f.     (* y * f *)
Definition plin (c : F) (f : poly) : poly := padd (pscale c f) (pshift f).  (* (y + c) f *)

(* derivative: d_k = (k+1) f_{k+1} *)
Fixpoint pderiv_aux (k : nat) (f : poly) : poly :=  (* f = coefficients starting at degree k, k >= 1 *)
  match f with [] => [] | c :: f' => (ofnat k * c) :: pderiv_aux (S k) f' end.
Definition pderiv (f : poly) : poly := match f with [] => [] | _ :: f' => pderiv_aux 1 f' end.

Lemma Eaux_padd n f g : Eaux n (padd f g) = Eaux n f + Eaux n g.
Proof. revert n g; induction f as [|a f IH]; intros n g; simpl; [ring|].
  destruct g as [|b g]; simpl; [ring|]. rewrite IH. ring. Qed.
Lemma Eaux_pscale n c f : Eaux n (pscale c f) = c * Eaux n f.
Proof. revert n; induction f as [|a f IH]; intros n; simpl; [ring|]. rewrite IH. ring. Qed.
Lemma Eaux_pshift n f : Eaux n (pshift f) = Eaux (S n) f.
Proof. simpl. ring. Qed.

(* Stein: E_{n+1}(f) with weights: general form
   Eaux (S n) f = v * (ofnat n * Eaux (n-1) f + Eaux n (pderiv f)) ... we only need n = 0 *)
Lemma stein_aux k f : (* f are the coefficients from degree k upward, weights m_{k+1+j} *)
  Eaux (S (S k)) f = v * (ofnat (S k) * Eaux k f + Eaux (S k) (pderiv_aux 1 f)) -> True.
Proof. trivial. Qed.

(* sum_j c_j m_{k+1+j}  with  m_{k+1+j} = (k+j) v m_{k+j-1} *)
Lemma stein_gen k f :
  Eaux (S (S k)) f = v * Eaux k (pderiv_aux (S k) f).
Proof. revert k; induction f as [|c f IH]; intros k; cbn [Eaux pderiv_aux]; [ring|].
  rewrite IH. rewrite mom_SS. ring. Qed.

Lemma stein f : E (pshift f) = v * E (pderiv f).
Proof. unfold E, pshift, pderiv. cbn [Eaux].
  destruct f as [|c f]; cbn [Eaux pderiv_aux]; [ring|].
  rewrite stein_gen. rewrite mom_1. ring. Qed.


Lemma Eaux_plin n c f : Eaux n (plin c f) = c * Eaux n f + Eaux (S n) f.
Proof. unfold plin. rewrite Eaux_padd, Eaux_pscale, Eaux_pshift. reflexivity. Qed.

(* derivative is additive / homogeneous as lists *)
Lemma pderiv_aux_padd k f g : pderiv_aux k (padd f g) = padd (pderiv_aux k f) (pderiv_aux k g).
Proof. revert k g; induction f as [|a f IH]; intros k g; cbn [padd pderiv_aux]; [reflexivity|].
  destruct g as [|b g]; cbn [padd pderiv_aux]; [reflexivity|]. rewrite IH. f_equal. ring. Qed.
Lemma pderiv_aux_pscale k c f : pderiv_aux k (pscale c f) = pscale c (pderiv_aux k f).
Proof. revert k; induction f as [|a f IH]; intros k; cbn [pscale map pderiv_aux]; [reflexivity|].
  fold (pscale c f). fold (pscale c (pderiv_aux (S k) f)). rewrite IH. f_equal. ring. Qed.

(* Leibniz for a linear factor, seen through every E_n:
   E_n ((y+c) f)' = E_n f + E_n ((y+c) f') *)
Lemma Eaux_pderiv_aux_shift n k f :
  Eaux n (pderiv_aux (S k) f) = Eaux n f + Eaux n (pderiv_aux k f).
Proof. revert n k; induction f as [|a f IH]; intros n k; cbn [Eaux pderiv_aux]; [ring|].
  rewrite (IH (S n) (S k)). cbn [ofnat]. ring. Qed.

Lemma Eaux_pderiv_pshift n f :
  Eaux n (pderiv (pshift f)) = Eaux n f + Eaux (S n) (pderiv f).
Proof. unfold pderiv, pshift. destruct f as [|a f]; cbn [Eaux pderiv_aux]; [ring|].
  rewrite Eaux_pderiv_aux_shift. cbn [ofnat]. 
  ring. Qed.

(* ---- products of powers of linear factors ---- *)
Fixpoint plin_pow (c : F) (e : nat) (f : poly) : poly :=
  match e with O => f | S e' => plin c (plin_pow c e' f) end.

Lemma padd_nil_r f : padd f [] = f. Proof. destruct f; reflexivity. Qed.
Lemma pderiv_padd f g : pderiv (padd f g) = padd (pderiv f) (pderiv g).
Proof. destruct f as [|a f]; [reflexivity|]. destruct g as [|b g]; cbn [padd pderiv].
  - rewrite padd_nil_r. reflexivity.
  - apply pderiv_aux_padd. Qed.
Lemma pderiv_pscale c f : pderiv (pscale c f) = pscale c (pderiv f).
Proof. destruct f as [|a f]; [reflexivity|]. cbn [pscale map pderiv]. apply pderiv_aux_pscale. Qed.

Lemma Eaux_pderiv_plin n c f :
  Eaux n (pderiv (plin c f)) = Eaux n f + (c * Eaux n (pderiv f) + Eaux (S n) (pderiv f)).
Proof. unfold plin. rewrite pderiv_padd, Eaux_padd, pderiv_pscale, Eaux_pscale, Eaux_pderiv_pshift. ring. Qed.

(* g_{i,j} = (y+a)^i (y+b)^j *)
Variables a b : F.
Definition g (i j : nat) : poly := plin_pow a i (plin_pow b j [1]).
Definition S_ (n i j : nat) : F := Eaux n (g i j).      (* n-shifted moment of g_{i,j} *)
Definition R_ (n i j : nat) : F := Eaux n (pderiv (g i j)).

Definition predS (i j : nat) (n : nat) (which : bool) : F :=
  (* i * S(i-1,j) if which, else j * S(i,j-1); zero at the boundary *)
  if which then match i with O => 0 | S i' => ofnat i * S_ n i' j end
  else match j with O => 0 | S j' => ofnat j * S_ n i j' end.

Lemma R_0j n j : R_ n 0 j = predS 0 j n false.
Proof. revert n; induction j as [|j IH]; intros n.
  - unfold R_, g. cbn. ring.
  - unfold R_, g in *. cbn [plin_pow] in *. rewrite Eaux_pderiv_plin.
    rewrite (IH n), (IH (S n)). unfold predS, S_, g. cbn [plin_pow].
    destruct j as [|j'].
    + cbn [ofnat]. ring.
    + cbn [plin_pow]. rewrite !Eaux_plin. cbn [ofnat]. ring.
Qed.

Lemma S_Si n i j : S_ n (S i) j = a * S_ n i j + S_ (S n) i j.
Proof. unfold S_, g. cbn [plin_pow]. apply Eaux_plin. Qed.

Lemma R_ij n i j : R_ n i j = predS i j n true + predS i j n false.
Proof. revert n; induction i as [|i IH]; intros n.
  - rewrite R_0j. unfold predS. ring.
  - unfold R_, g. cbn [plin_pow]. rewrite Eaux_pderiv_plin.
    fold (g i j). fold (R_ n i j) (R_ (S n) i j) (S_ n i j).
    rewrite (IH n), (IH (S n)). unfold predS.
    destruct i as [|i']; destruct j as [|j']; rewrite ?S_Si; cbn [ofnat]; ring.
Qed.

(* Obara-Saika recurrence in the first index, for every shifted functional E_n *)
Theorem OS_a i j : S_ 0 (S i) j = a * S_ 0 i j + v * (predS i j 0 true + predS i j 0 false).
Proof. rewrite S_Si. rewrite <- R_ij. unfold S_, R_.
  rewrite <- Eaux_pshift. f_equal. apply stein.
Qed.

(* the inner factor commutes out: (y+a)^i (y+b)^(j+1) seen through E_n *)
Lemma S_Sj n i j : S_ n i (S j) = b * S_ n i j + S_ (S n) i j.
Proof. revert n; induction i as [|i IH]; intros n.
  - unfold S_, g. cbn [plin_pow]. apply Eaux_plin.
  - rewrite !S_Si, (IH n), (IH (S n)). ring. Qed.

Theorem OS_b i j : S_ 0 i (S j) = b * S_ 0 i j + v * (predS i j 0 true + predS i j 0 false).
Proof. rewrite S_Sj. rewrite <- R_ij. unfold S_, R_.
  rewrite <- Eaux_pshift. f_equal. apply stein. Qed.
Print Assumptions OS_b.
End Poly.
