# exact check of the C10 plan: entries r*sqrt(q); harmonic / orthonormal decidable in Q
from fractions import Fraction as Fr
from math import comb, factorial
import numpy as np, time, itertools
from gbasis.spherical import generate_transformation
def df(n):  # (n)!! with (-1)!!=1
    r=1
    while n>1: r*=n; n-=2
    return r
def comps(l): return [(x,y,l-x-y) for x in range(l,-1,-1) for y in range(l-x,-1,-1)]
def harm_rat(l,m):
    """rational coefficients c[a] of the (unnormalised) solid harmonic, and squared norm factor Nsq (rational) so that poly = sqrt(Nsq)*sum c[a] x^a"""
    am=abs(m); out={}
    for i in range((l-am)//2+1):
        for j in range(i+1):
            for kk in range(am//2+1):
                # k = kk (m>=0) or kk+1/2 (m<0); need 2k <= am
                twok = 2*kk + (1 if m<0 else 0)
                if twok>am: continue
                # sign: (-1)^(i+k-shift) with shift = 1/2 for m<0 -> exponent i+kk
                c = Fr((-1)**(i+kk))*Fr(1,4**i)*comb(l,i)*comb(l-i,am+i)*comb(i,j)*comb(am,twok)
                ax=2*i+am-(2*j+twok); ay=2*j+twok; az=l-2*i-am
                if c!=0: out[(ax,ay,az)]=out.get((ax,ay,az),0)+c
    Nsq = Fr(2*factorial(l+am)*factorial(l-am), (2 if m==0 else 1)) / (2**am*factorial(l))**2
    return out,Nsq
def lap(poly):
    o={}
    for (a,b,c),v in poly.items():
        for t,(d) in enumerate((a,b,c)):
            if d>=2:
                k=[a,b,c]; k[t]-=2; k=tuple(k); o[k]=o.get(k,0)+v*d*(d-1)
    return {k:v for k,v in o.items() if v!=0}
def cart_ovl(a,b): # overlap of unit-normalised cartesians in one shell
    if any((x+y)%2 for x,y in zip(a,b)): return (Fr(0),Fr(1))
    num=1; den=1
    for x,y in zip(a,b): num*=df(x+y-1); den*=df(2*x-1)*df(2*y-1)
    return (Fr(num),Fr(den))  # num/sqrt(den)
t0=time.time()
for l in range(0,11):
    cs=comps(l); ms=list(range(-l,0))+list(range(0,l+1))
    H={m:harm_rat(l,m) for m in ms}
    # harmonic
    assert all(lap(H[m][0])=={} for m in ms), ("not harmonic",l)
    # orthonormal: T[m][a] = sqrt(Nsq_m) c_m[a] sqrt(prod df(2a-1))/sqrt(df(2l-1));  <m|m'> = sum T T' ovl(a,a')
    # ovl(a,a') = num/sqrt(prod df(2a-1) prod df(2a'-1)) -> the sqrt's cancel: <m|m'> = sqrt(Nm Nm')/df(2l-1) * sum c c' num(a,a')
    for m in ms:
        for mp in ms:
            if mp<m: continue
            s=Fr(0)
            for a,ca in H[m][0].items():
                for b,cb in H[mp][0].items():
                    if any((x+y)%2 for x,y in zip(a,b)): continue
                    n=1
                    for x,y in zip(a,b): n*=df(x+y-1)
                    s+=ca*cb*n
            if m==mp: assert s*H[m][1]==df(2*l-1), ("norm",l,m,s*H[m][1],df(2*l-1))
            else: assert s==0, ("orth",l,m,mp,s)
    # compare with implementation floats
    order=tuple(["s%d"%m for m in range(l,0,-1)]+["c%d"%m for m in range(l+1)])
    T=generate_transformation(l,np.array(cs),order,"left")
    err=0
    for r,m in enumerate(ms):
        for cidx,a in enumerate(cs):
            c=H[m][0].get(a,Fr(0))
            val=float(c)*float(H[m][1])**0.5*(np.prod([df(2*x-1) for x in a])**0.5)/df(2*l-1)**0.5
            err=max(err,abs(val-T[r,cidx]))
    print("l",l,"ok; max |impl-exact|",err,"elapsed %.1fs"%(time.time()-t0))
