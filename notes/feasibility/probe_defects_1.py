import numpy as np, warnings
warnings.filterwarnings("ignore")
from gbasis.contractions import GeneralizedContractionShell as S
from gbasis.integrals.momentum import momentum_integral
from gbasis.integrals.angular_momentum import angular_momentum_integral
from gbasis.integrals.overlap import overlap_integral
from gbasis.evals.eval_deriv import evaluate_deriv_basis
from gbasis.evals.electrostatic_potential import electrostatic_potential
from gbasis.evals.density import evaluate_posdef_kinetic_energy_density
from gbasis.parsers import make_contractions, parse_gbs, parse_nwchem
from gbasis.spherical import generate_transformation

b=[S(1,np.array([0.,0.1,0.2]),np.array([1.0]),np.array([0.8]),'cartesian'),
   S(0,np.array([0.5,0.,-0.3]),np.array([1.0]),np.array([1.3]),'cartesian')]
P=momentum_integral(b)
print("C08 momentum antisym err", np.abs(P+np.swapaxes(P,0,1)).max(), "sym err", np.abs(P-np.swapaxes(P,0,1)).max())
L=angular_momentum_integral(b)
print("C08 angmom  antisym err", np.abs(L+np.swapaxes(L,0,1)).max(), "sym err", np.abs(L-np.swapaxes(L,0,1)).max())

# C05 direct with order 3
pts=np.array([[0.3,0.2,0.1]])
try:
    g=evaluate_deriv_basis(b,pts,np.array([3,0,0]),deriv_type='general')
    d=evaluate_deriv_basis(b,pts,np.array([3,0,0]),deriv_type='direct')
    print("C05 order3 general",g.ravel(),"direct",d.ravel())
except Exception as e: print("C05 order 3 direct raised",type(e),e)
try:
    evaluate_deriv_basis(b,pts,np.array([1,0,0]),deriv_type='bogus')
except Exception as e: print("C05 bogus backend raised",type(e).__name__,e)

# C14 threshold
dm=np.eye(4)
pts=np.array([[0.,0.,0.],[1.,0.,0.]])
nuc=np.array([[0.,0.,0.5]]); 
for Z in (1.0,4.0,-2.0):
    for thr in (0.4,0.6,1.2):
        v=electrostatic_potential(b,dm,pts,nuc,np.array([Z]),threshold_dist=thr)
        v0=electrostatic_potential(b,dm,pts,nuc,np.array([0.0]),threshold_dist=0.0)
        print("C14 Z",Z,"thr",thr,"nuclear part",(v-v0), "dists",np.linalg.norm(pts-nuc,axis=1))
# rectangular transform
T=np.random.rand(2,4)
try:
    electrostatic_potential(b,np.eye(2),pts,nuc,np.array([1.0]),transform=T)
    print("C14 rect ok")
except Exception as e: print("C14 rect transform raised",type(e).__name__,e)

# C18 make_contractions
bd={'H':[(0,np.array([1.0]),np.array([[1.0]]))]}
ct=['cartesian','spherical']
make_contractions(bd,['H','H'],np.zeros((2,3)),ct); print("C18 coord_types list after call:",ct)
try:
    make_contractions(bd,['H','H'],np.zeros((2,3)),('cartesian','spherical')); print("tuple ok")
except Exception as e: print("C18 tuple raised",type(e).__name__,e)
# C10 malformed label
try:
    t=generate_transformation(1,np.array([[1,0,0],[0,1,0],[0,0,1]]),("c-1","s1","c0"),"left"); print("C10 'c-1' accepted:\n",t)
except Exception as e: print("C10 c-1 raised",type(e).__name__,e)
