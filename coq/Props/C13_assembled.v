(* Props/C13_assembled.v — property C13, "generalized_is_segmented" for the ASSEMBLED symmetric two-index class with
   SEVERAL shells per basis (Props/C13.v has it for one pair of shells: the four
   C13_generalized_is_segmented_assembled_.._partial theorems): replacing a generalized shell by its single-column
   shells, listed at the position of the shell, leaves overlap_integral UNCHANGED as a matrix (same function order,
   segment-major), for every basis of well-formed shells with any assignment of coordinate types, with or
   without transform=; hence so does replacing every shell (ContractionP.segmented_basis).
   Only statements closed by [exact] of a lemma of Proofs/ContractionAsmP.v, each followed by Print Assumptions.

   col_shell K s m        s with column m of its coefficient matrix only
   segments K s           [col_shell K s 0; ..; col_shell K s (M-1)],  M = nseg s
   segmented_basis K b    every shell of b replaced by its segments (flat_map)
   basis_ok K b           every shell has a segment, is well-formed (one coefficient row per exponent, components
                          bounded by l); the exponents of every pair of shells have a non-zero sum

   Why the hypotheses: below the diagonal the assembled matrix holds transposed copies (base_two_symm.py:171-181);
   two segments of one original shell are different shells after the replacement, so the block between them
   below the diagonal becomes a transposed copy where it was evaluated directly: the statement holds because the
   overlap block is symmetric, which is a theorem for well-formed shells over a field.

   The same for kinetic_energy_integral (second instance of the generic theorem).
   STILL PARTIAL in C13 (Props/C13.v): the same assembled statement for the remaining two-index functions (the
   generic theorem C13_one_shell_segmented_generic reduces it to a uniform entry formula obeying the column law;
   overlap_integral and kinetic_energy_integral are instantiated), the four-index assembly, and column_scale
   assembled for negative factors. *)
From Coq Require Import List Arith QArith Qcanon.
From GB Require Import Base.Field Base.FNum Base.Tables Model.Shell Model.MomentInt Model.Spherical Model.Assembly
  Model.Overlap Model.OneBody Proofs.ContractionP Proofs.CoreSumP Proofs.CoreBlockP Proofs.CoreExamplesP Proofs.AssembledP
  Proofs.AssembledOverlapP Proofs.AssembledSphP Proofs.AssembledSphOverlapP Proofs.AssembledExamplesP
  Proofs.ContractionAsmP.
Import ListNotations.
Local Open Scope nat_scope.

Theorem C13_assembled_unfold :
  forall (F : Type) (K : Fops F) (s : shell F) (m : nat) (b : list (shell F)),
  col_shell K s m = mkShell F (s_l s) (s_x s) (s_y s) (s_z s) (s_exps s)
                      (map (fun row => [nth m row (f0 K)]) (s_coeffs s)) (s_sph s) (s_comps s) (s_labels s)
  /\ segments K s = map (col_shell K s) (seq 0 (nseg s))
  /\ segmented_basis K b = flat_map (segments K) b
  /\ (basis_ok K b <-> (forall s, In s b -> 0 < nseg s) /\ (forall s, In s b -> CoreBlockP.wf_shell s)
                       /\ (forall sa sb, In sa b -> In sb b -> exps_ok K sa sb)).
Proof. exact (fun F K s m b => conj eq_refl (conj eq_refl (conj eq_refl (iff_refl _)))). Qed.
Print Assumptions C13_assembled_unfold.

(* the replacement does not change the number of basis functions, and every (shell, segment) of the original
   basis sits at a (shell, segment) of the new one with the same positions: the function order is the same *)
Theorem C13_segmented_same_function_order :
  forall (F : Type) (K : Fops F) (pre post : list (shell F)) (s : shell F), 0 < nseg s ->
  let bs := pre ++ s :: post in let bs' := pre ++ segments K s ++ post in
  ototal K bs' = ototal K bs /\
  forall i m, i < length bs -> m < nseg (sh_at K bs i) ->
  exists i' m', i' < length bs' /\ m' < nseg (sh_at K bs' i') /\
    osize (sh_at K bs' i') = osize (sh_at K bs i) /\
    (forall q, oidx K bs' i' m' q = oidx K bs i m q) /\
    ((sh_at K bs' i' = sh_at K bs i /\ m' = m) \/ (sh_at K bs' i' = col_shell K (sh_at K bs i) m /\ m' = 0)).
Proof. exact (fun F K pre post s Hs => conj (ototal_seg K pre post s Hs) (seg_locate K pre post s Hs)). Qed.
Print Assumptions C13_segmented_same_function_order.

(* ONE generalized shell replaced by its single-column shells: the same overlap matrix *)
Theorem C13_generalized_is_segmented_assembled_overlap_one_shell :
  forall (F : Type) (K : Fops F), is_field K ->
  (forall x : F, fapx K x = x) -> fadd K (f1 K) (f1 K) <> f0 K ->
  forall (pre post : list (shell F)) (s : shell F) (T : option (list (list F))),
  basis_ok K (pre ++ s :: post) ->
  overlap_integral K (pre ++ segments K s ++ post) T = overlap_integral K (pre ++ s :: post) T.
Proof. exact (fun F K Kf => overlap_one_shell_segmented K Kf). Qed.
Print Assumptions C13_generalized_is_segmented_assembled_overlap_one_shell.

(* EVERY shell replaced: the statement of the property for overlap_integral *)
Theorem C13_generalized_is_segmented_assembled_overlap :
  forall (F : Type) (K : Fops F), is_field K ->
  (forall x : F, fapx K x = x) -> fadd K (f1 K) (f1 K) <> f0 K ->
  forall (basis : list (shell F)) (T : option (list (list F))),
  basis_ok K basis ->
  overlap_integral K (segmented_basis K basis) T = overlap_integral K basis T.
Proof. exact (fun F K Kf => overlap_segmented_basis K Kf). Qed.
Print Assumptions C13_generalized_is_segmented_assembled_overlap.

(* kinetic_energy_integral: one shell / every shell replaced *)
Theorem C13_generalized_is_segmented_assembled_kinetic_one_shell :
  forall (F : Type) (K : Fops F), is_field K ->
  (forall x : F, fapx K x = x) -> fadd K (f1 K) (f1 K) <> f0 K ->
  forall (pre post : list (shell F)) (s : shell F) (T : option (list (list F))),
  basis_ok K (pre ++ s :: post) ->
  kinetic_integral K (pre ++ segments K s ++ post) T = kinetic_integral K (pre ++ s :: post) T.
Proof. exact (fun F K Kf => kinetic_one_shell_segmented K Kf). Qed.
Print Assumptions C13_generalized_is_segmented_assembled_kinetic_one_shell.

Theorem C13_generalized_is_segmented_assembled_kinetic :
  forall (F : Type) (K : Fops F), is_field K ->
  (forall x : F, fapx K x = x) -> fadd K (f1 K) (f1 K) <> f0 K ->
  forall (basis : list (shell F)) (T : option (list (list F))),
  basis_ok K basis ->
  kinetic_integral K (segmented_basis K basis) T = kinetic_integral K basis T.
Proof. exact (fun F K Kf => kinetic_segmented_basis K Kf). Qed.
Print Assumptions C13_generalized_is_segmented_assembled_kinetic.

(* generic: any matrix-valued function of a basis whose entries are, through the index map oidx, a function
   Ent a b m q m' q' of the two shells and the positions that obeys the column law on both sides *)
Theorem C13_one_shell_segmented_generic :
  forall (F : Type) (K : Fops F) (Mat : list (shell F) -> list (list F))
         (Ent : shell F -> shell F -> nat -> nat -> nat -> nat -> F),
  (forall a b m q m' q', m < nseg a -> Ent (col_shell K a m) b 0 q m' q' = Ent a b m q m' q') ->
  (forall a b m q m' q', m' < nseg b -> Ent a (col_shell K b m') m q 0 q' = Ent a b m q m' q') ->
  forall pre post s, 0 < nseg s ->
  mat_ok K Mat Ent (pre ++ s :: post) -> mat_ok K Mat Ent (pre ++ segments K s ++ post) ->
  Mat (pre ++ segments K s ++ post) = Mat (pre ++ s :: post).
Proof. exact (fun F K Mat Ent => one_shell_segmented K Mat Ent). Qed.
Print Assumptions C13_one_shell_segmented_generic.

(* the entry formula of the overlap matrix that the instance uses (both triangles), and its column law *)
Theorem C13_overlap_entry_obeys_column_law :
  forall (F : Type) (K : Fops F), is_field K ->
  (forall x : F, fapx K x = x) -> fadd K (f1 K) (f1 K) <> f0 K ->
  (forall X, basis_ok K X -> mat_ok K (fun Y => overlap_integral K Y None) (ovE K) X) /\
  (forall a b m q m' q', m < nseg a -> ovE K (col_shell K a m) b 0 q m' q' = ovE K a b m q m' q') /\
  (forall a b m q m' q', m' < nseg b -> ovE K a (col_shell K b m') m q 0 q' = ovE K a b m q m' q').
Proof.
  exact (fun F K Kf Hapx H2 => conj (overlap_mat_ok K Kf Hapx H2) (conj (ovE_col_l K) (ovE_col_r K))).
Qed.
Print Assumptions C13_overlap_entry_obeys_column_law.

(* ---- the hypotheses are satisfiable; the theorems instantiated ---- *)
(* generalized spherical d shell (two segments), Cartesian p shell, contracted spherical s shell over Qc, any
   oracle closures: 14 functions before and after *)
Example C13_assembled_hypotheses_satisfiable :
  forall (opi : Qc) (osqrt oexp oln : Qc -> Qc) (oboys : nat -> Qc -> Qc),
  let K := KQ opi osqrt oexp oln oboys in
  is_field K /\ (forall x : Qc, fapx K x = x) /\ fadd K (f1 K) (f1 K) <> f0 K /\
  basis_ok K ex_mixed /\
  length (segments K ex_sa_sph) = 2 /\ length (segmented_basis K ex_mixed) = 4 /\
  ototal K (segmented_basis K ex_mixed) = 14 /\ ototal K ex_mixed = 14.
Proof.
  exact (fun opi osqrt oexp oln oboys =>
    conj (KQ_field _ _ _ _ _) (conj (KQ_apx _ _ _ _ _) (conj (KQ_two _ _ _ _ _)
      (conj (ex_basis_ok opi osqrt oexp oln oboys) (ex_segmented_shape opi osqrt oexp oln oboys))))).
Qed.
Print Assumptions C13_assembled_hypotheses_satisfiable.

Example C13_assembled_instance :
  forall (opi : Qc) (osqrt oexp oln : Qc -> Qc) (oboys : nat -> Qc -> Qc) T,
  let K := KQ opi osqrt oexp oln oboys in
  overlap_integral K (segments K ex_sa_sph ++ [ex_sb; ex_sc_sph]) T = overlap_integral K ex_mixed T
  /\ overlap_integral K (segmented_basis K ex_mixed) T = overlap_integral K ex_mixed T.
Proof. exact ex_overlap_segmented. Qed.
Print Assumptions C13_assembled_instance.
